"""C14 -- Classic conjugate gradient solves positive definite systems.

Tie: translator for the LinearOperator mode tables (tr/c14_tables.py -> coq/C14/Gen_tables.v) + hand
model coq/C14/Model.v + correspondence:
 (i)   the five iteration controllers, EXACT-FLOAT: real controller objects are fed generated
       sequences of (value, gradient norm, inf-norm) and the model must produce the same statuses;
 (ii)  ConjugateGradient.__call__ + QuadraticEnergy + controller, EXACT-FLOAT: real runs on generated
       real HPD systems with recording operator / preconditioner wrappers and recording
       Field.s_vdot / Field.norm; the model recomputes every elementwise update, the energy
       bookkeeping, the controller and the control flow in PrimFloat (operator, preconditioner,
       inner products and norms are table look-ups of what the implementation computed) and must
       return the same status, iteration count, position, gradient and value bit for bit;
 (iii) InversionEnabler.apply: all 16 capabilities x 4 modes with mode-recording operators.
Direct oracle (no Coq): true residual / energy change of the returned solution against the controller's
criterion, energy value and gradient against dense formulas, no ERROR on HPD input, InversionEnabler
against numpy.linalg.solve; real and complex."""
import contextlib
import math
import os
import warnings

import numpy as np

from .. import common as C

HEADER = ("From Coq Require Import List Bool ZArith PrimFloat. Import ListNotations.\n"
          "Require Import NV.C14.Model NV.C14.Gen_tables.\n")

ST = {0: "CONVERGED", 1: "CONTINUE", 2: "ERROR"}
KINDS = ["gradnorm", "gradinf", "deltaE", "absdeltaE", "stoch"]


def quiet():
    import logging
    for nm in ("NIFTy", "NIFTy8", "nifty"):
        logging.getLogger(nm).setLevel(logging.CRITICAL)
    try:
        from nifty.cl.logger import logger
        logger.setLevel(logging.CRITICAL)
    except Exception:
        pass


def cf(x):
    return C.cfloat(float(x))


def cvec(v):
    return C.clist([cf(t) for t in v])


# --------------------------------------------------------------------------------------------------
# controllers
# --------------------------------------------------------------------------------------------------

def make_controller(c):
    import nifty.cl as ift
    k = c["kind"]
    kw = dict(convergence_level=c["level"], iteration_limit=c["limit"])
    if k == "gradnorm":
        return ift.GradientNormController(tol_abs_gradnorm=c["tol_abs"], tol_rel_gradnorm=c["tol_rel"], **kw)
    if k == "gradinf":
        return ift.GradInfNormController(c["tol"], **kw)
    if k == "deltaE":
        return ift.DeltaEnergyController(c["tol"], **kw)
    if k == "absdeltaE":
        return ift.AbsDeltaEnergyController(c["tol"], **kw)
    if k == "stoch":
        return ift.StochasticAbsDeltaEnergyController(c["tol"], memory_length=c["memlen"], **kw)
    raise AssertionError(k)


def coq_cparams(c):
    k = c["kind"]
    if k == "gradnorm":
        kind = "(GradNorm %s %s)" % (C.copt(c["tol_abs"], cf), C.copt(c["tol_rel"], cf))
    elif k == "gradinf":
        kind = "(GradInf %s)" % C.copt(c["tol"], cf)
    elif k == "deltaE":
        kind = "(DeltaE %s)" % cf(c["tol"])
    elif k == "absdeltaE":
        kind = "(AbsDeltaE %s)" % cf(c["tol"])
    else:
        kind = "(Stoch %s %d)" % (cf(c["tol"]), c["memlen"])
    return "(Build_cparams %s %s %s)" % (kind, C.cz(c["level"]), C.copt(c["limit"], C.cz))


def std_table(c, values):
    """np.std of every memory window the stochastic controller can hold for this value sequence."""
    if c["kind"] != "stoch":
        return []
    L = c["memlen"]
    out = []
    for j in range(len(values)):
        w = values[max(0, j - L + 1):j + 1] if L >= 1 else []
        if not w:
            continue
        with warnings.catch_warnings():
            warnings.simplefilter("ignore")
            out.append((list(w), float(np.std(w))))
    return out


def coq_stds(tab):
    return C.clist(["(%s, %s)" % (cvec(w), cf(s)) for w, s in tab])


class _FakeGrad:
    def __init__(self, n2, ninf):
        self._n2, self._ninf = n2, ninf

    def norm(self, ord=2):
        return np.float64(self._ninf if ord == np.inf else self._n2)


class _FakeEnergy:
    """What the controllers read: .value (Python float, like QuadraticEnergy), .gradient_norm and
    .gradient.norm(ord) (numpy.float64, like Field.norm)."""

    def __init__(self, v, n2, ninf):
        self.value = float(v)
        self.gradient_norm = np.float64(n2)
        self.gradient = _FakeGrad(n2, ninf)


def run_ctrl_case(spec):
    ic = make_controller(spec["ctrl"])
    seq = spec["seq"]
    out = []
    with warnings.catch_warnings():
        warnings.simplefilter("ignore")
        try:
            # controller objects are re-used for many runs (e.g. by InversionEnabler): an earlier run
            # must not influence this one, so the model always starts fresh
            for i, (v, n2, ninf) in enumerate(spec.get("warm") or []):
                e = _FakeEnergy(v, n2, ninf)
                s = ic.start(e) if i == 0 else ic.check(e)
                if s != ic.CONTINUE:
                    break
            for i, (v, n2, ninf) in enumerate(seq):
                e = _FakeEnergy(v, n2, ninf)
                s = ic.start(e) if i == 0 else ic.check(e)
                out.append(int(s))
                if s != ic.CONTINUE:
                    break
        except ZeroDivisionError as ex:
            return {"spec": spec, "statuses": out, "exception": "ZeroDivisionError"}
    return {"spec": spec, "statuses": out, "exception": None}


def coq_ctrl_case(o):
    sp = o["spec"]
    es = ["(Build_eobs %s %s %s)" % (cf(v), cf(a), cf(b)) for v, a, b in sp["seq"]]
    return "ctrl_case %s %s %s %s" % (coq_cparams(sp["ctrl"]), coq_stds(std_table(sp["ctrl"], [float(t[0]) for t in sp["seq"]])),
                                     C.clist(es), C.clist([ST[s] for s in o["statuses"]]))


def ctrl_oracle(o):
    """Independent statement of 'CONVERGED only if criterion met or limit reached', on the fed sequence."""
    if o["exception"]:
        return "controller raised %s on the sequence %r" % (o["exception"], o["spec"]["seq"][:3])
    sp = o["spec"]
    c = sp["ctrl"]
    sts = o["statuses"]
    if 2 in sts:
        return "controller reported ERROR"
    if not sts or sts[-1] != 0:
        return None
    k = len(sts) - 1                      # index of the call that reported CONVERGED
    if c["limit"] is not None and k >= c["limit"]:
        return None
    if c["level"] <= 0:
        return None
    seq = sp["seq"]
    v, n2, ninf = seq[k]
    with warnings.catch_warnings():
        warnings.simplefilter("ignore")
        if c["kind"] == "gradnorm":
            ok = (c["tol_abs"] is not None and n2 <= c["tol_abs"]) or \
                 (c["tol_rel"] is not None and n2 <= c["tol_rel"] * seq[0][1])
        elif c["kind"] == "gradinf":
            ok = c["tol"] is not None and np.float64(ninf) / abs(v) <= c["tol"]
        elif c["kind"] == "deltaE":
            sc = max(abs(seq[k - 1][0]), abs(v)) if k > 0 else 0.0
            ok = k > 0 and (abs(seq[k - 1][0] - v) / sc if sc != 0 else 0.0) < c["tol"]
        elif c["kind"] == "absdeltaE":
            ok = k > 0 and abs(seq[k - 1][0] - v) < c["tol"]
        else:
            w = [t[0] for t in seq[max(0, k - c["memlen"] + 1):k + 1]]
            ok = k > 0 and len(w) > 0 and np.std(w) < c["tol"]
    if not ok:
        return "%s reported CONVERGED at call %d although its criterion does not hold there and the limit is not reached" % (c["kind"], k)
    return None


# --------------------------------------------------------------------------------------------------
# recorded CG runs
# --------------------------------------------------------------------------------------------------

class _Runaway(Exception):
    pass


class Recorder:
    def __init__(self):
        self.opA, self.prec, self.dots, self.norm2, self.norminf = [], [], [], [], []
        self.n_energies = 0
        self.check_pos = []
        self.check_vals = []


@contextlib.contextmanager
def recording(rec):
    """Record every Field.s_vdot / Field.norm / QuadraticEnergy construction of the run (the
    originals are called; nothing is changed)."""
    import nifty.cl as ift
    from nifty.cl.minimization import quadratic_energy as qe
    F = ift.Field
    o_vdot, o_norm, o_init = F.s_vdot, F.norm, qe.QuadraticEnergy.__init__

    def s_vdot(self, x):
        r = o_vdot(self, x)
        rec.dots.append((self.asnumpy().copy(), x.asnumpy().copy(), r))
        return r

    def norm(self, ord=2):
        r = o_norm(self, ord)
        (rec.norminf if ord == np.inf else rec.norm2).append((self.asnumpy().copy(), float(r)))
        return r

    def init(self, *a, **k):
        rec.n_energies += 1
        return o_init(self, *a, **k)

    F.s_vdot, F.norm, qe.QuadraticEnergy.__init__ = s_vdot, norm, init
    try:
        yield
    finally:
        F.s_vdot, F.norm, qe.QuadraticEnergy.__init__ = o_vdot, o_norm, o_init


def make_ops(spec, rec):
    import nifty.cl as ift
    n = len(spec["b"]) if spec.get("b") is not None else len(spec["x0"])
    dom = ift.DomainTuple.make(ift.UnstructuredDomain((n,)))
    cplx = bool(spec.get("complex"))

    def arr(v):
        if cplx:
            return np.array([complex(a, b) for a, b in v], dtype=np.complex128)
        return np.array(v, dtype=np.float64)

    M = np.array([[complex(*t) for t in row] for row in spec["A"]], dtype=np.complex128) if cplx \
        else np.array(spec["A"], dtype=np.float64)

    class MatOp(ift.EndomorphicOperator):
        def __init__(self, M, log):
            self._M, self._log = M, log
            self._domain = dom
            self._capability = self.TIMES | self.ADJOINT_TIMES

        def apply(self, x, mode):
            self._check_input(x, mode)
            Mm = self._M if mode == self.TIMES else self._M.conj().T
            xin = x.asnumpy().copy()
            y = Mm @ xin
            if self._log is not None:
                self._log.append((xin, y.copy()))
            return ift.Field.from_raw(dom, y)

    A = MatOp(M, rec.opA if rec is not None else None)
    P = None
    if spec.get("prec") is not None:
        P = MatOp(np.diag(arr(spec["prec"])) if not cplx else np.diag(np.array(spec["prec"], dtype=np.float64)).astype(np.complex128),
                  rec.prec if rec is not None else None)
    b = None if spec.get("b") is None else ift.Field.from_raw(dom, arr(spec["b"]))
    x0 = ift.Field.from_raw(dom, arr(spec["x0"]))
    return dom, M, A, P, b, x0


def run_cg_case(spec):
    import nifty.cl as ift
    quiet()
    rec = Recorder()
    dom, M, A, P, b, x0 = make_ops(spec, rec)
    inner = make_controller(spec["ctrl"])

    class RecC(ift.IterationController):
        def __init__(self):
            super().__init__()
            self.statuses = []

        def start(self, energy):
            s = inner.start(energy)
            self.statuses.append(int(s))
            rec.check_pos.append(energy.position.asnumpy().copy())
            rec.check_vals.append(float(energy.value))
            return s

        def check(self, energy):
            if len(self.statuses) > 2000:
                raise _Runaway()
            s = inner.check(energy)
            self.statuses.append(int(s))
            rec.check_pos.append(energy.position.asnumpy().copy())
            rec.check_vals.append(float(energy.value))
            return s

    rc = RecC()
    out = {"spec": spec}
    with warnings.catch_warnings():
        warnings.simplefilter("ignore")
        try:
            with recording(rec):
                e0 = ift.QuadraticEnergy(x0, A, b)
                n0 = rec.n_energies
                en, st = ift.ConjugateGradient(rc, nreset=spec["nreset"])(e0, P)
        except ZeroDivisionError as ex:
            out["exception"] = "ZeroDivisionError"
            return out
        except _Runaway:
            # harness guard, not a verdict: a generated parameter setting whose criterion cannot be met
            # (e.g. a relative criterion with minimum energy 0); the case is dropped and counted
            out["exception"] = None
            out["runaway"] = True
            return out
    out["exception"] = None
    out["status"] = int(st)
    out["n"] = rec.n_energies - n0
    out["pos"] = en.position.asnumpy().copy()
    out["grad"] = en.gradient.asnumpy().copy()
    out["value"] = float(en.value)
    out["statuses"] = rc.statuses
    out["rec"] = rec
    out["M"] = M
    return out


def coq_cg_case(o):
    """Only for real systems."""
    sp, rec = o["spec"], o["rec"]
    vt = lambda tab: C.clist(["(%s, %s)" % (cvec(a), cvec(b)) for a, b in tab])
    dots = C.clist(["(%s, %s, %s)" % (cvec(a), cvec(b), cf(np.real(r))) for a, b, r in rec.dots])
    nt = lambda tab: C.clist(["(%s, %s)" % (cvec(a), cf(r)) for a, r in tab])
    # the energy values the controller sees are recomputed by the model itself; the harness only
    # supplies np.std of the memory windows of the stochastic controller
    stds = std_table(sp["ctrl"], rec.check_vals)
    b = sp.get("b")
    return "cg_case %s %s %s %s %s %s %s %s %s %s %s %d %s %d %s %s %s" % (
        coq_cparams(sp["ctrl"]), coq_stds(stds), vt(rec.opA), vt(rec.prec), C.cbool(sp.get("prec") is not None),
        dots, nt(rec.norm2), nt(rec.norminf), C.copt(b, cvec), C.cz(sp["nreset"]), cvec(sp["x0"]),
        o["n"] + 2, ST[o["status"]], o["n"], cvec(o["pos"]), cvec(o["grad"]), cf(o["value"]))


def true_quantities(o, x):
    M = o["M"]
    sp = o["spec"]
    cplx = bool(sp.get("complex"))
    b = None
    if sp.get("b") is not None:
        b = np.array([complex(*t) for t in sp["b"]]) if cplx else np.array(sp["b"], dtype=np.float64)
    Ax = M @ x
    res = Ax if b is None else Ax - b
    E = 0.5 * np.real(np.vdot(x, Ax)) - (0.0 if b is None else np.real(np.vdot(b, x)))
    # rounding errors of a run are relative to the largest vectors it handled: include the start point
    x0 = np.array([complex(*t) for t in sp["x0"]]) if cplx else np.array(sp["x0"], dtype=np.float64)
    scale = float(np.linalg.norm(M, 2) * max(np.linalg.norm(x), np.linalg.norm(x0))
                  + (0.0 if b is None else np.linalg.norm(b)) + 1e-300)
    return res, float(E), scale


def cg_oracle(o):
    with np.errstate(all="ignore"), warnings.catch_warnings():
        warnings.simplefilter("ignore")
        return _cg_oracle(o)


def _cg_oracle(o):
    """The property on one recorded CG run, from dense NumPy quantities only."""
    sp = o["spec"]
    c = sp["ctrl"]
    if o.get("exception"):
        return "ConjugateGradient/%s raised %s" % (c["kind"], o["exception"])
    x = o["pos"]
    res, E, scale = true_quantities(o, x)
    if np.linalg.norm(o["grad"] - res) > 1e-8 * scale:
        return "energy.gradient differs from A x - b by %.3g" % float(np.linalg.norm(o["grad"] - res))
    x0n = float(np.linalg.norm(np.array([complex(*t) for t in sp["x0"]]) if sp.get("complex") else np.array(sp["x0"], dtype=np.float64)))
    escale = scale * (max(float(np.linalg.norm(x)), x0n) + 1e-300) + abs(E)
    if abs(o["value"] - E) > 1e-8 * escale + 1e-300:
        return "energy.value %r differs from 1/2 x^H A x - Re b^H x = %r" % (o["value"], E)
    st = o["status"]
    if st == 2:
        if not sp.get("hpd", True):
            return None
        return "ERROR reported for a positive definite system with a positive definite preconditioner"
    if st != 0:
        return "status %r returned (neither CONVERGED nor ERROR)" % st
    sts = o["statuses"]
    if not sts or sts[-1] != 0:
        # CONVERGED without the controller saying so: only legitimate for gamma == 0, which for a
        # positive definite preconditioner means a vanishing residual (a singular / indefinite
        # preconditioner is outside the property's hypothesis: gamma = r.P r can vanish for r != 0)
        if sp.get("hpd", True) and np.linalg.norm(res) > 1e-8 * scale:
            return "CONVERGED without the controller's verdict although the residual is %.3g" % float(np.linalg.norm(res))
        pd = np.ones(len(res)) if sp.get("prec") is None else np.array(sp["prec"], dtype=np.float64)
        gam = float(np.real(np.vdot(res, pd * res)))
        if abs(gam) > 1e-10 * scale * scale * float(np.max(np.abs(pd)) + 1e-300):
            return "CONVERGED without the controller's verdict although gamma = r^H P r = %.3g is not zero" % gam
        return None
    k = len(sts) - 1
    if c["limit"] is not None and k >= c["limit"]:
        return None
    if c["level"] <= 0:
        return None
    P = o["rec"].check_pos
    tq = [true_quantities(o, p) for p in P]
    rk, Ek, _ = tq[k]
    kind = c["kind"]
    if kind == "gradnorm":
        thr = []
        if c["tol_abs"] is not None:
            thr.append(c["tol_abs"])
        if c["tol_rel"] is not None:
            thr.append(c["tol_rel"] * float(np.linalg.norm(tq[0][0])))
        ok = bool(thr) and np.linalg.norm(rk) <= max(thr) * (1 + 1e-6) + 1e-9 * scale
        what = "residual norm %.3g vs thresholds %r" % (float(np.linalg.norm(rk)), thr)
    elif kind == "gradinf":
        ok = c["tol"] is not None and abs(Ek) > 0 and np.max(np.abs(rk)) / abs(Ek) <= c["tol"] * (1 + 1e-6) + 1e-9 * scale / abs(Ek)
        what = "inf-norm/|E| = %.3g vs %r" % (float(np.max(np.abs(rk)) / (abs(Ek) + 1e-300)), c["tol"])
    elif kind == "deltaE":
        Ep = tq[k - 1][1] if k > 0 else None
        sc = max(abs(Ep), abs(Ek)) if k > 0 else 0.0
        rel = (abs(Ep - Ek) / sc if sc != 0 else 0.0) if k > 0 else None
        ok = k > 0 and rel < c["tol"] + 1e-11
        what = "relative energy change %r vs %r" % (rel, c["tol"])
    elif kind == "absdeltaE":
        Ep = tq[k - 1][1] if k > 0 else None
        ok = k > 0 and abs(Ep - Ek) < c["tol"] + 1e-11 * (abs(Ek) + escale)
        what = "energy change %r vs %r" % (None if k == 0 else abs(Ep - Ek), c["tol"])
    else:
        w = [t[1] for t in tq[max(0, k - c["memlen"] + 1):k + 1]]
        ok = k > 0 and len(w) > 0 and float(np.std(w)) < c["tol"] + 1e-11 * (abs(Ek) + escale)
        what = "std of the last energies %r vs %r" % (float(np.std(w)) if w else None, c["tol"])
    if not ok:
        return "%s: CONVERGED at check %d, limit not reached, criterion not met on the true quantities (%s)" % (kind, k, what)
    return None


# --------------------------------------------------------------------------------------------------
# InversionEnabler
# --------------------------------------------------------------------------------------------------

def run_ie_case(spec):
    """InversionEnabler around an operator of capability `cap`; which modes of the operator and of the
    approximation get applied, and what comes out."""
    import nifty.cl as ift
    quiet()
    n = spec["n"]
    rng = np.random.Generator(np.random.PCG64([31, spec["seed"]]))
    dom = ift.DomainTuple.make(ift.UnstructuredDomain((n,)))
    G = rng.integers(-2, 3, size=(n, n)) + 1j * rng.integers(-2, 3, size=(n, n))
    M = G.conj().T @ G + (1 + int(rng.integers(0, 3))) * np.eye(n)
    mats = {1: M, 2: M.conj().T, 4: np.linalg.inv(M), 8: np.linalg.inv(M).conj().T}
    D = np.diag(np.diag(M).real).astype(np.complex128)
    amats = {1: D, 2: D.conj().T, 4: np.linalg.inv(D), 8: np.linalg.inv(D).conj().T}

    class CapOp(ift.EndomorphicOperator):
        def __init__(self, mats, cap, log):
            self._mats, self._log = mats, log
            self._domain = dom
            self._capability = cap

        def apply(self, x, mode):
            self._check_input(x, mode)
            self._log.append(int(mode))
            xin = np.array(x.asnumpy(), dtype=np.complex128)
            yout = self._mats[mode] @ x.asnumpy()
            calls.append((self._log is log_op, xin, np.array(yout, dtype=np.complex128)))
            return ift.Field.from_raw(dom, yout)

    calls = []            # every application (wrapped operator and approximation) in order: (is_op, input, output)
    log_op, log_ap = [], []
    op = CapOp(mats, spec["cap"], log_op)
    ap = CapOp(amats, 15, log_ap) if spec.get("approx") else None
    ic = make_controller(spec["ctrl"])
    xv = rng.integers(-4, 5, size=n) + 1j * rng.integers(-4, 5, size=n)
    x = ift.Field.from_raw(dom, xv.astype(np.complex128))
    out = {"spec": spec, "exception": None}
    with warnings.catch_warnings():
        warnings.simplefilter("ignore")
        try:
            ie = ift.InversionEnabler(op, ic, approximation=ap)
            out["capability"] = int(ie.capability)
            y = ie.apply(x, spec["mode"])
            out["y"] = y.asnumpy()
            out["refused"] = False
        except NotImplementedError:
            out["refused"] = True
        except (ZeroDivisionError, IndexError) as ex:
            out["exception"] = type(ex).__name__
            out["refused"] = False
    out["log_op"], out["log_ap"] = log_op, log_ap
    out["calls"], out["xv"] = calls[:2], np.array(xv, dtype=np.complex128)
    if spec["mode"] in mats:
        out["expected"] = mats[spec["mode"]] @ xv
    return out


def coq_ie_case(o):
    sp = o["spec"]
    if o["refused"]:
        obs = "IeRefuse"
    elif not o["log_ap"] and len(o["log_op"]) == 1 and o["log_op"][0] == sp["mode"] and not sp.get("solve_seen"):
        obs = "(IeDirect %d)" % o["log_op"][0]
    else:
        so, sa = set(o["log_op"]), set(o["log_ap"])
        if len(so) != 1 or (sp.get("approx") and len(sa) != 1):
            return "false"
        obs = "(IeSolve %d %d)" % (so.pop(), sa.pop() if sa else sp["mode"])
    start = ""
    if obs.startswith("(IeSolve") and not o.get("exception"):
        # numerical branch: x0 = 0, QuadraticEnergy(x0, invop, x): the first application is the wrapped operator on
        # x0, the next one (approximation or operator) gets the start residual invop(x0) - x   (model: ie_energy0)
        calls = o.get("calls") or []
        if not calls or not calls[0][0]:
            return "false"
        zero = np.zeros(len(o["xv"]), dtype=np.complex128)
        second = calls[1][1] if len(calls) > 1 else calls[0][2] - o["xv"]
        start = " && ie_start_case %s %s %s %s %s" % tuple(cvec(ri(v)) for v in (zero, o["xv"], calls[0][1], calls[0][2], second))
    return ("plan_eqb (ie_apply t_ilog t_validMode t_modeTable t_addInverse t_INVERSE_BIT %d %d) %s"
            " && Nat.eqb (nth %d t_addInverse 0) %d" % (sp["cap"], sp["mode"], obs, sp["cap"], o.get("capability", -1) if o.get("capability") is not None else 0)) + start


def ri(v):
    """complex vector as interleaved re/im doubles (elementwise +/- of complex numbers is componentwise)"""
    v = np.asarray(v, dtype=np.complex128)
    return [t for z in v for t in (z.real, z.imag)]


def ie_oracle(o):
    sp = o["spec"]
    if o["exception"]:
        return "InversionEnabler(%s).apply raised %s" % (sp["ctrl"]["kind"], o["exception"])
    mode, cap = sp["mode"], sp["cap"]
    inv = {1: 4, 4: 1, 2: 8, 8: 2}
    if mode not in inv:
        return None if o["refused"] else "invalid mode %d was not refused" % mode
    possible = bool(cap & mode) or bool(cap & inv[mode])
    if o["refused"]:
        return "mode %d refused although the wrapped operator (capability %d) offers it or its inverse" % (mode, cap) if possible else None
    if not possible:
        return "mode %d not refused although capability %d offers neither it nor its inverse" % (mode, cap)
    err = float(np.linalg.norm(o["y"] - o["expected"]) / (np.linalg.norm(o["expected"]) + 1e-300))
    if err > 1e-6:
        return "InversionEnabler mode %d on capability %d: relative error %.3g against the dense solution" % (mode, cap, err)
    return None


# --------------------------------------------------------------------------------------------------
# case generation
# --------------------------------------------------------------------------------------------------

def gen_ctrl(rng, kind, n_hint=5, tight=False):
    lvl = int(rng.choice([1, 1, 1, 2, 3]))
    lim = [None, None, None, 0, 1, 2, n_hint, 3 * n_hint][int(rng.integers(0, 8))]
    tol = float(10.0 ** int(rng.integers(-10, -2)))
    if tight:
        lvl, lim, tol = 1, 500, 1e-11
    c = {"kind": kind, "level": lvl, "limit": lim}
    if kind == "gradnorm":
        u = int(rng.integers(0, 4)) if not tight else 0
        c["tol_abs"] = tol if u in (0, 2) else None
        c["tol_rel"] = float(10.0 ** int(rng.integers(-10, -2))) if u in (1, 2) else None
        if u == 3 and c["limit"] is None:
            c["limit"] = 3 * n_hint          # no tolerance at all: only the limit ends the run
    elif kind == "stoch":
        c["tol"] = tol
        c["memlen"] = 10 if tight else int(rng.choice([1, 2, 3, 10]))
        if c["limit"] is None and not tight:
            c["limit"] = 4 * n_hint + 10
    else:
        c["tol"] = tol
        if kind == "gradinf" and c["limit"] is None and not tight:
            # ||grad||_inf / |E| never gets small when the minimum energy is 0 (b = 0): without a limit
            # CG then runs until gamma underflows (hundreds of thousands of iterations)
            c["limit"] = 4 * n_hint + 10
    return c


def gen_cg_spec(rng, i, nmax=10, cplx=False):
    n = int(rng.integers(1, nmax + 1))
    if cplx:
        G = rng.integers(-3, 4, size=(n, n)) + 1j * rng.integers(-3, 4, size=(n, n))
        A = G.conj().T @ G + int(rng.integers(1, 4)) * np.eye(n)
        enc = lambda v: [[float(np.real(t)), float(np.imag(t))] for t in v]
        Aenc = [enc(row) for row in A]
        b = enc(rng.integers(-5, 6, size=n) + 1j * rng.integers(-5, 6, size=n))
        x0 = enc(np.zeros(n)) if rng.random() < 0.7 else enc(rng.integers(-3, 4, size=n) + 0j)
    else:
        G = rng.integers(-3, 4, size=(n, n))
        A = G.T @ G + int(rng.integers(1, 4)) * np.eye(n, dtype=int)
        Aenc = A.astype(float).tolist()
        b = rng.integers(-5, 6, size=n).astype(float).tolist()
        x0 = [0.0] * n if rng.random() < 0.7 else rng.integers(-3, 4, size=n).astype(float).tolist()
    u = rng.random()
    if u < 0.08:
        b = None
    elif u < 0.14:
        b = [[0.0, 0.0]] * n if cplx else [0.0] * n
    diag = [float(np.real(A[j][j])) for j in range(n)]
    v = rng.random()
    prec = None if v < 0.5 else ([1.0 / d for d in diag] if v < 0.8 else rng.uniform(0.2, 3.0, size=n).tolist())
    spec = {"A": Aenc, "b": b, "x0": x0, "prec": prec, "nreset": int(rng.choice([1, 2, 3, 5, 20])),
            "ctrl": gen_ctrl(rng, KINDS[i % 5], n), "complex": cplx, "hpd": True}
    if (b is None or not np.any(np.array(b))) and spec["ctrl"]["limit"] is None:
        # minimum energy 0: the relative criteria (DeltaEnergy, GradInfNorm) never get small and CG
        # would run until gamma underflows
        spec["ctrl"]["limit"] = 4 * n + 10
    w = rng.random()
    if not cplx and w < 0.12:
        # outside the property's hypothesis: indefinite / singular operator or a preconditioner that is
        # not positive definite -- exercises the ERROR exits (which must never report CONVERGED)
        spec["hpd"] = False
        d = rng.integers(-3, 4, size=n).astype(float)
        if w < 0.04:
            spec["A"] = np.diag(d).tolist()
        elif w < 0.08:
            spec["A"] = (-np.array(Aenc)).tolist()
        else:
            spec["prec"] = (-rng.uniform(0.2, 3.0, size=n)).tolist() if rng.random() < 0.5 else d.tolist()
        if spec["ctrl"]["limit"] is None:
            spec["ctrl"]["limit"] = 3 * n
    return spec


def gen_ctrl_spec(rng, i):
    kind = KINDS[i % 5]
    c = gen_ctrl(rng, kind, 6)
    if rng.random() < 0.1:
        c["level"] = int(rng.choice([0, -1]))
    if rng.random() < 0.05:
        c["limit"] = -1
    if kind == "gradinf" and rng.random() < 0.1:
        c["tol"] = None
    L = int(rng.integers(1, 26))
    v = float(rng.choice([0.0, 1.0, -3.5, 100.0]))
    floor = float(rng.choice([0.0, -1.0, 2.5]))
    g = float(10.0 ** int(rng.integers(-2, 3)))
    seq = []
    for k in range(L):
        u = rng.random()
        if u < 0.15 and seq:
            pass                                         # plateau: exactly the same energy again
        elif u < 0.2:
            v = 0.0
        elif u < 0.22:
            v = float("nan")
        else:
            v = floor + (v - floor) * float(rng.choice([0.5, 0.1, 0.999999, 1e-6])) if not math.isnan(v) else floor
        g = g * float(rng.choice([0.3, 0.01, 1.0, 1.7, 0.0 if rng.random() < 0.05 else 0.5]))
        seq.append([v, g, g * float(rng.uniform(0.3, 1.0))])
    spec = {"ctrl": c, "seq": seq}
    if rng.random() < 0.5:
        g0 = float(10.0 ** int(rng.integers(-6, 6)))
        spec["warm"] = [[float(rng.normal()), g0 * 0.5 ** k, g0 * 0.4 ** k] for k in range(int(rng.integers(1, 6)))]
    return spec


def gen_ctrl_neg_spec(rng, i):
    """Every controller class on strictly NEGATIVE energies (what CG produces from position 0: E < 0
    from the first iterate on), converging geometrically; tolerances chosen so that the criterion is met
    somewhere in the middle of the sequence, if at all."""
    kind = KINDS[i % 5]
    c = {"kind": kind, "level": int(rng.choice([1, 1, 2])), "limit": [None, None, 30][int(rng.integers(0, 3))]}
    tol = float(10.0 ** int(rng.integers(-6, -1)))
    if kind == "gradnorm":
        c["tol_abs"], c["tol_rel"] = (tol, None) if rng.random() < 0.5 else (None, tol)
    elif kind == "stoch":
        c["tol"], c["memlen"] = tol, int(rng.choice([2, 3, 5]))
    else:
        c["tol"] = tol
    L = int(rng.integers(4, 26))
    Einf = -float(10.0 ** rng.uniform(-2, 3))
    rho = float(rng.choice([0.5, 0.2, 0.8]))
    g0 = float(10.0 ** rng.uniform(-1, 2))
    first = 0.0 if rng.random() < 0.5 else Einf * 0.1
    seq = []
    for k in range(L):
        v = first if k == 0 else Einf * (1.0 - 0.9 * rho ** k)
        g = g0 * rho ** k
        seq.append([v, g, g * float(rng.uniform(0.4, 1.0))])
    return {"ctrl": c, "seq": seq}


def gen_ie_specs(rng, quick):
    out = []
    s = 0
    for cap in range(16):
        for mode in (1, 2, 4, 8):
            s += 1
            out.append({"n": int(rng.integers(1, 6)), "seed": int(rng.integers(0, 1 << 30)), "cap": cap, "mode": mode,
                        "approx": bool(s % 2), "ctrl": gen_ctrl(rng, KINDS[s % 5], 5, tight=True)})
    for mode in (0, 3, 5, 6, 7):
        out.append({"n": 2, "seed": 1, "cap": 15, "mode": mode, "approx": False, "ctrl": gen_ctrl(rng, "gradnorm", 5, tight=True)})
    return out


F1_SIG = {"fn": "DeltaEnergyController.check", "defect": "0/0 for two zero energies"}


def classify_exception(kind, exc):
    if kind == "deltaE" and exc == "ZeroDivisionError":
        return dict(F1_SIG)
    return {"fn": kind, "defect": exc}


class C14(C.Check):
    prop = "C14"
    coq_dir = "C14"
    trusted_base = [
        "Coq 8.16.1 kernel (coqc; vm_compute and primitive floats for the correspondence evaluation); all C14 theorems are closed under the global context",
        "tr/c14_tables.py: translator of the literal mode/capability tables of LinearOperator (ast, fail closed)",
        "hand-written model coq/C14/Model.v of ConjugateGradient.__call__, QuadraticEnergy, the five controllers and InversionEnabler.apply (tied by bit-exact correspondence)",
        "operator, preconditioner, inner product (Field.s_vdot), norms and np.std are oracles of the model; in the replay they are the recorded input/output pairs of the implementation (Field.s_vdot / Field.norm / QuadraticEnergy.__init__ are wrapped by recording pass-throughs during the run)",
        "NumPy elementwise float64 arithmetic is IEEE-754 without fusion (what makes the bit-exact replay possible)",
    ]
    assumptions = [
        "residual invariant: the operator is linear and vector subtraction satisfies (u-w)+w = u, (u-w)-v = (u-v)-w (exact arithmetic); in floating point the recurrence residual drifts, which is what nreset is for",
        "controllers: convergence_level >= 1 for 'criterion met'; with level <= 0 every controller converges at once",
        "the while-True loop of CG is modelled with fuel; all theorems hold for every fuel",
        "finite termination of CG in exact arithmetic (C14_exact_termination of the design) is not proved",
    ]

    def __init__(self):
        self.ctrl_obs, self.cg_obs, self.cg_big, self.ie_obs = [], [], [], []
        self.n_runaway = 0

    def translate(self, ctx):
        from tr import c14_tables
        c14_tables.generate(ctx.repo, os.path.join(C.COQ, "C14"))

    def _cases(self, ctx):
        rng = ctx.rng(14)
        nctrl, ncg, nbig = (100, 24, 30) if ctx.quick else (1000, 250, 300)
        cor = ctx.corpus()
        ctrl = [c["spec"] for c in cor if c.get("kind") == "ctrl"] + [gen_ctrl_spec(rng, i) for i in range(nctrl)]
        nrng = ctx.rng(1414)          # own stream: the other case lists stay as they were
        ctrl += [gen_ctrl_neg_spec(nrng, i) for i in range(30 if ctx.quick else 300)]
        cg = [c["spec"] for c in cor if c.get("kind") == "cg"] + [gen_cg_spec(rng, i, nmax=8 if ctx.quick else 10) for i in range(ncg)]
        big = [gen_cg_spec(rng, i, nmax=40, cplx=(i % 2 == 0)) for i in range(nbig)]
        ie = [c["spec"] for c in cor if c.get("kind") == "ie"] + gen_ie_specs(rng, ctx.quick)
        return ctrl, cg, big, ie

    def correspondence(self, ctx, res):
        quiet()
        ctrl, cg, big, ie = self._cases(ctx)
        self.ctrl_obs = [run_ctrl_case(s) for s in ctrl]
        self.cg_obs = [run_cg_case(s) for s in cg]
        self.n_runaway = sum(1 for o in self.cg_obs if o.get("runaway"))
        self.cg_obs = [o for o in self.cg_obs if not o.get("runaway")]
        self.cg_big = big
        self.ie_obs = [run_ie_case(s) for s in ie]
        checks, owner = [], []
        for o in self.ctrl_obs:
            checks.append("false" if o["exception"] else coq_ctrl_case(o))
            owner.append(("ctrl", o))
        for o in self.cg_obs:
            checks.append("false" if o.get("exception") else coq_cg_case(o))
            owner.append(("cg", o))
        for o in self.ie_obs:
            checks.append("false" if o["exception"] else coq_ie_case(o))
            owner.append(("ie", o))
        bad = C.eval_cases(self.prop, "corr", HEADER, checks, shard=60, jobs=5)
        for i in bad[:6]:
            kind, o = owner[i]
            exc = o.get("exception")
            d = {"kind": kind, "spec": o["spec"], "exception": exc}
            if kind == "ctrl":
                d["statuses"] = o["statuses"]
            elif kind == "cg" and not exc:
                d.update(status=o["status"], n=o["n"], statuses=o["statuses"], pos=o["pos"].tolist())
            elif kind == "ie":
                d.update(log_op=o["log_op"], log_ap=o["log_ap"], refused=o["refused"])
            name = {"ctrl": "iteration controller", "cg": "ConjugateGradient.__call__", "ie": "InversionEnabler.apply"}[kind]
            res.add_broken("correspondence", name + " vs coq/C14/Model.v", d)
        nontriv = {C.stable_hash(o["spec"]) for o in self.ctrl_obs if len(o["statuses"]) >= 2}
        nontriv |= {C.stable_hash(o["spec"]) for o in self.cg_obs if not o.get("exception") and o["n"] >= 1}
        nontriv |= {C.stable_hash(o["spec"]) for o in self.ie_obs if o["log_op"]}
        dist = {}
        for o in self.cg_obs:
            if o.get("exception"):
                key = "%s:exception" % o["spec"]["ctrl"]["kind"]
            else:
                key = "%s:%s" % (o["spec"]["ctrl"]["kind"], ST[o["status"]])
            dist[key] = dist.get(key, 0) + 1
        res.coverage.update({
            "evaluations": len(checks), "distinct_nontrivial": len(nontriv),
            "rule": "controllers: 5 kinds x strictly negative geometrically converging energies (as CG produces from position 0); 5 kinds x generated parameter settings (levels incl. <= 0, limits incl. 0 and negative, missing tolerances) x generated observation sequences with plateaus, exact zeros and NaN; non-trivial = at least two calls.  CG: real HPD systems n<=10 with small-integer entries (A = G^T G + k I), with/without b, zero / integer start, no / Jacobi / random positive diagonal preconditioner, nreset in {1,2,3,5,20}, every controller kind; non-trivial = at least one position update.  InversionEnabler: all 16 capabilities x 4 modes (+ invalid modes), with and without approximation; non-trivial = the wrapped operator was applied.  distinct by spec hash",
            "samples": [{"spec": {k: v for k, v in o["spec"].items() if k != "A"}, "status": o.get("status"), "n": o.get("n")} for o in self.cg_obs[2:5]],
            "input_distribution": {"controller_sequences": len(self.ctrl_obs), "cg_runs_replayed": len(self.cg_obs),
                                   "cg_outcomes": dist, "cg_with_reset_branch": sum(1 for o in self.cg_obs if not o.get("exception") and o["n"] >= o["spec"]["nreset"]),
                                   "cg_with_preconditioner": sum(1 for o in self.cg_obs if o["spec"].get("prec") is not None),
                                   "inversion_enabler_cases": len(self.ie_obs)},
            "disagreements": len(bad), "exhaustive": False,
        })
        return bad

    def oracle(self, ctx, res, hints, budget):
        quiet()
        n = 0
        seen = set()

        def report(kind, spec, what, sig):
            key = C.stable_hash(sig)
            if key in seen and len(res.failing) >= 2:
                return
            seen.add(key)
            res.add_failing(sig, what, {"kind": kind, "spec": spec})

        for o in self.ctrl_obs:
            n += 1
            f = ctrl_oracle(o)
            if f:
                report("ctrl", o["spec"], f, classify_exception(o["spec"]["ctrl"]["kind"], o["exception"]) if o["exception"]
                       else {"fn": "IterationController.check", "kind": o["spec"]["ctrl"]["kind"]})
        for o in self.cg_obs + [run_cg_case(s) for s in self.cg_big]:
            if o.get("runaway"):
                self.n_runaway += 1
                continue
            n += 1
            f = cg_oracle(o)
            if f:
                k = o["spec"]["ctrl"]["kind"]
                report("cg", o["spec"], f, classify_exception(k, o["exception"]) if o.get("exception")
                       else {"fn": "ConjugateGradient.__call__", "kind": k, "class": f.split(":")[0][:40]})
        for o in self.ie_obs:
            n += 1
            f = ie_oracle(o)
            if f:
                k = o["spec"]["ctrl"]["kind"]
                report("ie", o["spec"], f, classify_exception(k, o["exception"]) if o["exception"]
                       else {"fn": "InversionEnabler.apply", "cap": o["spec"]["cap"], "mode": o["spec"]["mode"]})
        if budget > 1 and len(res.failing) == 0:
            rng = ctx.rng(1499)
            for i in range(400):
                s = gen_cg_spec(rng, i, nmax=20, cplx=(i % 3 == 0))
                n += 1
                o = run_cg_case(s)
                if o.get("runaway"):
                    continue
                f = cg_oracle(o)
                if f:
                    k = s["ctrl"]["kind"]
                    report("cg", s, f, classify_exception(k, o["exception"]) if o.get("exception")
                           else {"fn": "ConjugateGradient.__call__", "kind": k, "class": f.split(":")[0][:40]})
                    break
            for i in range(1500):
                if res.failing:
                    break
                s = gen_ctrl_spec(rng, i)
                n += 1
                o = run_ctrl_case(s)
                f = ctrl_oracle(o)
                if f:
                    report("ctrl", s, f, {"fn": "IterationController.check", "kind": s["ctrl"]["kind"]})
        res.coverage["impl_property_evaluations"] = n
        res.coverage["cg_cases_dropped_by_runaway_guard"] = self.n_runaway

    def replay(self, ctx, rp):
        quiet()
        i = rp["input"]
        if i["kind"] == "ctrl":
            return ctrl_oracle(run_ctrl_case(i["spec"])) is not None
        if i["kind"] == "cg":
            o = run_cg_case(i["spec"])
            return (not o.get("runaway")) and cg_oracle(o) is not None
        return ie_oracle(run_ie_case(i["spec"])) is not None


CHECK = C14()
