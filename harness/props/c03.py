"""C03 -- Nonlinear operator values and Jacobians are exact derivatives.

Tie  (a) translator tr/c03_ptw.py: nifty/cl/pointwise.py -> coq/C03/Gen_Ptw.v (reals) and Gen_PtwQ.v
         (exact rationals), regenerated on every run; the translator's reading of NumPy is compared
         numerically with NumPy at sample points;
     (b) hand model coq/C03/Model.v of the Linearization algebra + correspondence: generated expression
         trees with exact pointwise functions on small dyadic inputs, both construction routes
         (operator objects / Linearization methods): plain value, Linearization value, dense Jacobian
         through TIMES and through ADJOINT_TIMES, and for Gaussian energies the metric -- compared
         exactly inside coqc (vm_compute over Qc).
Direct oracle (implementation only): value consistency, Jacobian against Richardson-extrapolated
central differences along random directions, adjointness, metric presence, for random trees over ALL
pointwise functions (real and, for the holomorphic ones, complex), and every table entry on its own."""
import json
import math
import os
from fractions import Fraction

import numpy as np

from .. import common as C

PROP = "C03"


def eval_cases_private(prop, header, checks):
    """C.eval_cases with scratch file names that are unique per process (concurrent runs of the same check, e.g.
    against different VERIF_REPO trees, must not overwrite each other's cases files); files removed afterwards."""
    import glob
    import os
    name = "corr_p%d" % os.getpid()
    try:
        return C.eval_cases(prop, name, header, checks)
    finally:
        for fn in glob.glob(os.path.join(C.run_dir(prop), "*cases_%s_*" % name)):
            try:
                os.remove(fn)
            except OSError:
                pass


# ======================================================================================================
# trees
# ======================================================================================================
# ("var", k) ("const", [c]) ("addc", neg, [c], e) ("mulc", [c], e) ("scale", c, e) ("ptw", name, [args], e)
# ("mul", e1, e2) ("add", e1, e2) ("sum", e) ("vdot", e1, e2) ("sq2", e)
# energies: ("gauss", data|None, icov|None, e) ("escale", c, h) ("eadd", h1, h2)

def shape(t):
    k = t[0]
    if k == "var":
        return "F"
    if k == "const":
        return "F" if len(t[1]) > 1 or t[2] == "F" else "S"
    if k in ("addc",):
        return shape(t[3])
    if k in ("mulc", "scale"):
        return shape(t[2])
    if k in ("real", "imag", "conj", "lsub", "lsubf", "mprod", "msum", "sub"):
        return shape(t[1])
    if k == "ptw":
        return shape(t[3])
    if k in ("mul", "add"):
        return shape(t[1])
    return "S"


def key(k):
    return "k%d" % k


def tolist(t):
    return json.loads(json.dumps(t))


def lin_arith(ift, inner, t):
    """An EnergyOperator whose apply is written with Field/Linearization arithmetic on the result of `inner`
    (as user code does):  ("eshift", neg, c, "scalar"|"field", h): inner(x) -/+ c;  ("elscale", c, h): inner(x) * c.
    On a Linearization this is Linearization._myadd (scalar / Field branch) resp. Linearization.__mul__ (scalar)."""
    class LinArith(ift.EnergyOperator):
        def __init__(self):
            self._domain = inner.domain

        def apply(self, x):
            self._check_input(x)
            l = inner(x)
            if t[0] == "elscale":
                return l * t[1]
            c = t[2] if t[3] == "scalar" else ift.Field.scalar(t[2])
            return l - c if t[1] else l + c
    return LinArith()


class Impl:
    """Builds NIFTy objects from trees (operator route and Linearization route)."""

    def __init__(self, n, K, dtype=np.float64):
        import nifty.cl as ift
        self.ift = ift
        self.n, self.K = n, K
        self.dom = ift.DomainTuple.make(ift.UnstructuredDomain(n))
        self.sdom = ift.DomainTuple.scalar_domain()
        self.dtype = dtype
        self.mdom = ift.MultiDomain.make({key(k): self.dom for k in range(K)})

    def fld(self, vals, shp):
        ift = self.ift
        a = np.array(vals, dtype=self.dtype)
        if shp == "S":
            return ift.Field(self.sdom, ift.AnyArray(np.array(a.reshape(-1)[0], dtype=self.dtype).reshape(())))
        return ift.Field.from_raw(self.dom, a)

    def point(self, x):
        ift = self.ift
        return ift.MultiField.from_dict({key(k): ift.Field.from_raw(self.dom, np.array(x[k], dtype=self.dtype))
                                         for k in range(self.K)}, domain=self.mdom)

    # ---- operator objects -------------------------------------------------------------------------
    def op(self, t):
        ift = self.ift
        k = t[0]
        if k == "var":
            return ift.FieldAdapter(self.dom, key(t[1]))
        if k == "const":
            from nifty.cl.operators.simplify_for_const import ConstantOperator
            return ConstantOperator(self.fld(t[1], t[2]))
        if k == "addc":
            e = self.op(t[3])
            return ift.Adder(self.fld(t[2], shape(t[3])), neg=bool(t[1])) @ e
        if k == "mulc":
            e = self.op(t[2])
            return ift.makeOp(self.fld(t[1], shape(t[2]))) @ e
        if k == "scale":
            return self.op(t[2]).scale(t[1])
        if k == "ptw":
            return self.op(t[3]).ptw(t[1], *t[2])
        if k in ("mprod", "msum"):
            # product / sum of two operators with a MULTIDOMAIN target {'x': ., 'y': .}, read back key by key:
            #   M1 = f.ducktape_left('x') + g.ducktape_left('y');  M2 = h.ducktape_left('x') + k.ducktape_left('y')
            #   P = M1 * M2  (or M1 + M2);   result = P['x'] + P['y']      (the SAME object P twice)
            f, g, h, kk = [self.op(u) for u in t[1:5]]
            M1 = f.ducktape_left("x") + g.ducktape_left("y")
            M2 = h.ducktape_left("x") + kk.ducktape_left("y")
            Pm = M1 * M2 if k == "mprod" else M1 + M2
            return Pm["x"] + Pm["y"]
        if k in ("lsub", "lsubf"):
            # LINEAR difference (SumOperator with a negated summand) of two linear operators;
            # lsub: through a MultiDomain target {'x': .} (ducktape_left) and back, lsubf: field target
            a, b = self.op(t[1]), self.op(t[2])
            if not (isinstance(a, ift.LinearOperator) and isinstance(b, ift.LinearOperator)):
                raise ValueError("lsub needs linear operands")
            if k == "lsubf":
                return a - b
            d = a.ducktape_left("x") - b.ducktape_left("x")
            return ift.FieldAdapter(a.target, "x") @ d
        if k == "real":
            return self.op(t[1]).real              # Realizer @ op
        if k == "imag":
            return self.op(t[1]).imag              # Imaginizer @ op
        if k == "conj":
            return self.op(t[1]).conjugate()       # ConjugationOperator @ op
        if k == "mul":
            return self.op(t[1]) * self.op(t[2])
        if k == "add":
            return self.op(t[1]) + self.op(t[2])
        if k == "sub":
            return self.op(t[1]) - self.op(t[2])       # Operator.__sub__: _OpSum(self, -x)
        if k == "sum":
            return self.op(t[1]).sum()
        if k == "vdot":
            return self.op(t[1]).vdot(self.op(t[2]))
        if k == "sq2":
            e = self.op(t[1])
            return ift.Squared2NormOperator(e.target) @ e
        if k == "gauss":
            e = self.op(t[3])
            shp = shape(t[3])
            data = None if t[1] is None else self.fld(t[1], shp)
            icov = None if t[2] is None else ift.makeOp(self.fld(t[2], shp), sampling_dtype=self.dtype)
            g = ift.GaussianEnergy(data=data, inverse_covariance=icov, domain=e.target, sampling_dtype=self.dtype)
            return g @ e
        if k == "escale":
            return t[1] * self.op(t[2])
        if k == "eadd":
            return self.op(t[1]) + self.op(t[2])
        if k in ("eshift", "elscale"):
            return lin_arith(ift, self.op(t[-1]), t)
        raise ValueError(k)

    # ---- Linearization methods ----------------------------------------------------------------------
    def lin(self, t, l0):
        ift = self.ift
        k = t[0]
        if k == "var":
            return l0[key(t[1])]
        if k == "const":
            from nifty.cl.operators.simplify_for_const import ConstantOperator
            return ConstantOperator(self.fld(t[1], t[2]), domain=l0.domain)(l0)
        if k == "addc":
            l = self.lin(t[3], l0)
            c = self.fld(t[2], shape(t[3]))
            return l - c if t[1] else l + c
        if k == "mulc":
            return self.lin(t[2], l0) * self.fld(t[1], shape(t[2]))
        if k == "scale":
            return self.lin(t[2], l0) * t[1]
        if k == "ptw":
            return self.lin(t[3], l0).ptw(t[1], *t[2])
        if k == "mprod":
            return self.lin(t[1], l0) * self.lin(t[3], l0) + self.lin(t[2], l0) * self.lin(t[4], l0)
        if k == "msum":
            return (self.lin(t[1], l0) + self.lin(t[3], l0)) + (self.lin(t[2], l0) + self.lin(t[4], l0))
        if k in ("lsub", "lsubf"):
            return self.lin(t[1], l0) - self.lin(t[2], l0)
        if k == "real":
            return self.lin(t[1], l0).real         # Linearization.real
        if k == "imag":
            return self.lin(t[1], l0).imag         # Linearization.imag
        if k == "conj":
            return self.lin(t[1], l0).conjugate()  # Linearization.conjugate
        if k == "mul":
            return self.lin(t[1], l0) * self.lin(t[2], l0)
        if k == "add":
            return self.lin(t[1], l0) + self.lin(t[2], l0)
        if k == "sub":
            return self.lin(t[1], l0) - self.lin(t[2], l0)   # Linearization._myadd(other, neg=True)
        if k == "sum":
            return self.lin(t[1], l0).sum()
        if k == "vdot":
            return self.lin(t[1], l0).vdot(self.lin(t[2], l0))
        if k == "sq2":
            l = self.lin(t[1], l0)
            return ift.Squared2NormOperator(l.target)(l)
        raise ValueError(k)

    # ---- observation ----------------------------------------------------------------------------------
    def observe(self, t, x, om=True, wm=False, want_dense=True):
        """Returns dict(plain, linval, jt, ja, met) as nested lists of floats/complex."""
        ift = self.ift
        X = self.point(x)
        if om:
            op = self.op(t)
            xs = X.extract(op.domain)
            plain = op(xs)
            lin = op(ift.Linearization.make_var(xs, wm))
            dkeys = list(op.domain.keys())
        else:
            l0 = ift.Linearization.make_var(X, wm)
            lin = self.lin(t, l0)
            plain = self.op(t).force(X)
            dkeys = list(X.domain.keys())
        out = {"plain": np.atleast_1d(plain.asnumpy()).tolist(), "linval": np.atleast_1d(lin.val.asnumpy()).tolist(),
               "has_metric": lin.metric is not None, "want_metric": bool(lin.want_metric)}
        if not want_dense:
            out["_lin"] = lin
            out["_dkeys"] = dkeys
            out["_op"] = op if om else None
            return out
        m = len(out["plain"])
        jdom = lin.jac.domain
        zero = {kk: np.zeros(self.n, dtype=self.dtype) for kk in dkeys}

        def mf(d):
            return ift.MultiField.from_dict({kk: ift.Field.from_raw(self.dom, d[kk]) for kk in dkeys}, domain=jdom)

        jt = []
        for k in range(self.K):
            col = []
            for j in range(self.n):
                if key(k) in dkeys:
                    d = {kk: v.copy() for kk, v in zero.items()}
                    d[key(k)][j] = 1.
                    col.append(np.atleast_1d(lin.jac(mf(d)).asnumpy()).tolist())
                else:
                    col.append([0.] * m)
            jt.append(col)
        ja = []
        for i in range(m):
            e = np.zeros(m, dtype=self.dtype)
            e[i] = 1.
            y = ift.Field.from_raw(lin.jac.target, e.reshape(lin.jac.target.shape))
            r = lin.jac.adjoint_times(y).asnumpy()
            ja.append([np.asarray(r[key(k)]).tolist() if key(k) in dkeys else [0.] * self.n for k in range(self.K)])
        out["jt"], out["ja"] = jt, ja
        met = None
        if lin.metric is not None:
            met = []
            for k in range(self.K):
                rows = []
                for j in range(self.n):
                    if key(k) in dkeys:
                        d = {kk: v.copy() for kk, v in zero.items()}
                        d[key(k)][j] = 1.
                        r = lin.metric(mf(d)).asnumpy()
                        rows.append([np.asarray(r[key(kk)]).tolist() if key(kk) in dkeys else [0.] * self.n
                                     for kk in range(self.K)])
                    else:
                        rows.append([[0.] * self.n for _ in range(self.K)])
                met.append(rows)
        out["met"] = met
        return out


# ======================================================================================================
# exact reference (only a GUARD for float exactness and input validity -- never an oracle)
# ======================================================================================================

class NotExact(Exception):
    pass


def fr_ptw(name, args, v):
    """value and derivative factor of the exact pointwise functions on a Fraction."""
    if name == "power":
        n = int(args[0])
        if n < 0 and v == 0:
            raise NotExact
        return v ** n, n * v ** (n - 1) if not (n - 1 < 0 and v == 0) else None
    if name == "reciprocal":
        if v == 0:
            raise NotExact
        return 1 / v, -(1 / v) ** 2
    if name in ("abs", "absolute"):
        if v == 0:
            raise NotExact
        return abs(v), Fraction((v > 0) - (v < 0))
    if name == "sign":
        if v == 0:
            raise NotExact
        return Fraction((v > 0) - (v < 0)), Fraction(0)
    if name == "unitstep":
        return Fraction(1 if v >= 0 else 0), Fraction(0)
    if name == "clip":
        lo, hi = Fraction(args[0]), Fraction(args[1])
        c = min(max(v, lo), hi)
        return c, Fraction(0 if (c == lo or c == hi) else 1)
    raise NotExact


def small(v):
    """dyadic, few bits: every float64 operation of the implementation on such numbers is exact as long
    as products along a path of the tree stay below 2^53 (depth and magnitudes are bounded below)."""
    if v is None:
        raise NotExact
    d = v.denominator
    if d & (d - 1) or d > 8 or abs(v.numerator) > 4096:
        raise NotExact
    return v


def ref(t, x, n):
    """exact values of every node (list of Fractions); raises NotExact when outside the guard."""
    k = t[0]
    if k == "var":
        r = [Fraction(v) for v in x[t[1]]]
    elif k == "const":
        r = [Fraction(v) for v in t[1]]
    elif k == "addc":
        a = ref(t[3], x, n)
        r = [(u - Fraction(c)) if t[1] else (u + Fraction(c)) for u, c in zip(a, t[2])]
    elif k == "mulc":
        a = ref(t[2], x, n)
        r = [u * Fraction(c) for u, c in zip(a, t[1])]
    elif k == "scale":
        r = [Fraction(t[1]) * u for u in ref(t[2], x, n)]
    elif k == "ptw":
        r = []
        for u in ref(t[3], x, n):
            f, df = fr_ptw(t[1], t[2], u)
            small(df)
            r.append(f)
    elif k == "mul":
        r = [u * w for u, w in zip(ref(t[1], x, n), ref(t[2], x, n))]
    elif k == "add":
        r = [u + w for u, w in zip(ref(t[1], x, n), ref(t[2], x, n))]
    elif k in ("lsub", "lsubf", "sub"):
        r = [u - w for u, w in zip(ref(t[1], x, n), ref(t[2], x, n))]
    elif k == "mprod":
        f, g, h, kk = [ref(u, x, n) for u in t[1:5]]
        for a, b in list(zip(f, h)) + list(zip(g, kk)):
            small(a * b)
        r = [a * c + b * d for a, b, c, d in zip(f, g, h, kk)]
    elif k == "msum":
        f, g, h, kk = [ref(u, x, n) for u in t[1:5]]
        r = [a + c + b + d for a, b, c, d in zip(f, g, h, kk)]
    elif k == "sum":
        r = [sum(ref(t[1], x, n))]
    elif k == "vdot":
        r = [sum(u * w for u, w in zip(ref(t[1], x, n), ref(t[2], x, n)))]
    elif k == "sq2":
        r = [sum(u * u for u in ref(t[1], x, n))]
    elif k == "gauss":
        a = ref(t[3], x, n)
        if t[1] is not None:
            a = [u - Fraction(c) for u, c in zip(a, t[1])]
        N = [Fraction(1)] * len(a) if t[2] is None else [Fraction(c) for c in t[2]]
        for u, w in zip(a, N):
            small(u * w)
        r = [Fraction(1, 2) * sum(u * w * u for u, w in zip(a, N))]
    elif k == "escale":
        r = [Fraction(t[1]) * ref(t[2], x, n)[0]]
    elif k == "eadd":
        r = [ref(t[1], x, n)[0] + ref(t[2], x, n)[0]]
    elif k == "eshift":
        v = ref(t[4], x, n)[0]
        r = [v - Fraction(t[2]) if t[1] else v + Fraction(t[2])]
    elif k == "elscale":
        r = [ref(t[2], x, n)[0] * Fraction(t[1])]
    else:
        raise ValueError(k)
    for v in r:
        small(v)
    return r


def pathmag(t, x, n):
    """(bound on |dJ/dleaf| along any root-to-leaf path, number of leaves).  Every elementary float64
    operation of the implementation (values, TIMES, ADJOINT_TIMES, metric) on a guarded case has an exactly
    representable result when: all node values and local factors are dyadic with denominator <= 8 (checked
    by [ref]/[small]) and pathmag * leaves < 2^20 (then every intermediate has < 53 significant bits), so
    IEEE correct rounding returns the exact result."""
    k = t[0]
    mx = lambda vs: max([1] + [abs(Fraction(v)) for v in vs])
    if k == "var" or k == "const":
        return Fraction(1), 1
    if k == "addc":
        return pathmag(t[3], x, n)
    if k == "mulc":
        a, l = pathmag(t[2], x, n)
        return a * mx(t[1]), l
    if k == "scale":
        a, l = pathmag(t[2], x, n)
        return a * mx([t[1]]), l
    if k == "ptw":
        a, l = pathmag(t[3], x, n)
        return a * mx([fr_ptw(t[1], t[2], u)[1] for u in ref(t[3], x, n)]), l
    if k in ("mul", "vdot"):
        a1, l1 = pathmag(t[1], x, n)
        a2, l2 = pathmag(t[2], x, n)
        return max(a1 * mx(ref(t[2], x, n)), a2 * mx(ref(t[1], x, n))), l1 + l2
    if k in ("mprod", "msum"):
        ps = [pathmag(u, x, n) for u in t[1:5]]
        vs = [mx(ref(u, x, n)) for u in t[1:5]] if k == "mprod" else [1, 1, 1, 1]
        return max(ps[0][0] * vs[2], ps[2][0] * vs[0], ps[1][0] * vs[3], ps[3][0] * vs[1]), sum(p[1] for p in ps)
    if k in ("add", "eadd", "lsub", "lsubf", "sub"):
        a1, l1 = pathmag(t[1], x, n)
        a2, l2 = pathmag(t[2], x, n)
        return max(a1, a2), l1 + l2
    if k == "sum":
        return pathmag(t[1], x, n)
    if k == "sq2":
        a, l = pathmag(t[1], x, n)
        return a * 2 * mx(ref(t[1], x, n)), l
    if k == "gauss":
        a, l = pathmag(t[3], x, n)
        r = ref(t[3], x, n)
        if t[1] is not None:
            r = [u - Fraction(c) for u, c in zip(r, t[1])]
        N = mx(t[2]) if t[2] is not None else 1
        return a * 2 * mx(r) * N, l
    if k in ("escale", "elscale"):
        a, l = pathmag(t[2], x, n)
        return a * mx([t[1]]), l
    if k == "eshift":
        return pathmag(t[4], x, n)
    raise ValueError(k)


def guarded(t, x, n):
    try:
        ref(t, x, n)
        a, l = pathmag(t, x, n)
        return a * l * n < 2 ** 20
    except (NotExact, ZeroDivisionError, TypeError):
        return False


# ======================================================================================================
# generation of exact trees
# ======================================================================================================

EXACT_PTW = [("power", [2]), ("power", [3]), ("power", [1]), ("reciprocal", []), ("abs", []), ("absolute", []),
             ("sign", []), ("unitstep", []), ("clip", [-1.0, 2.0]), ("clip", [0.5, 1.5]), ("power", [-1])]


def dy(rng, lo=-3, hi=3, nz=False, half=True):
    while True:
        v = float(rng.integers(lo * 2, hi * 2 + 1)) / 2 if half and rng.random() < 0.25 else float(rng.integers(lo, hi + 1))
        if not nz or v != 0:
            return v


def gen_tree(rng, depth, n, K, shp="F"):
    if shp == "S":
        c = rng.integers(0, 7) if depth > 0 else 0
        if depth <= 0 or c < 3:
            r = int(rng.integers(0, 3))
            if r == 0:
                return ("sum", gen_tree(rng, depth - 1, n, K, "F"))
            if r == 1:
                return ("vdot", gen_tree(rng, depth - 1, n, K, "F"), gen_tree(rng, depth - 1, n, K, "F"))
            return ("sq2", gen_tree(rng, depth - 1, n, K, "F"))
        m = 1
    else:
        m = n
        if depth <= 0:
            return ("var", int(rng.integers(0, K)))
        c = rng.integers(3, 10)
        if rng.random() < 0.15:
            return ("var", int(rng.integers(0, K)))
        if rng.random() < 0.04:
            return ("const", [dy(rng, -2, 2) for _ in range(n)], "F")
    if c == 3:
        return ("addc", int(rng.integers(0, 2)), [dy(rng) for _ in range(m)], gen_tree(rng, depth - 1, n, K, shp))
    if c == 4:
        return ("mulc", [dy(rng, -2, 2, nz=True) for _ in range(m)], gen_tree(rng, depth - 1, n, K, shp))
    if c == 5:
        return ("scale", dy(rng, -2, 2, nz=True), gen_tree(rng, depth - 1, n, K, shp))
    if c in (6, 9):
        nm, args = EXACT_PTW[int(rng.integers(0, len(EXACT_PTW)))]
        return ("ptw", nm, list(args), gen_tree(rng, depth - 1, n, K, shp))
    if c == 7:
        return ("mul", gen_tree(rng, depth - 1, n, K, shp), gen_tree(rng, depth - 1, n, K, shp))
    return ("add" if rng.random() < 0.6 else "sub", gen_tree(rng, depth - 1, n, K, shp), gen_tree(rng, depth - 1, n, K, shp))


def gen_linear(rng, depth, n, K):
    """linear operator expressions (FieldAdapter, diagonal, scaling) -- operands of a linear SumOperator"""
    if depth <= 0 or rng.random() < 0.3:
        return ("var", int(rng.integers(0, K)))
    if rng.random() < 0.5:
        return ("mulc", [dy(rng, -2, 2, nz=True) for _ in range(n)], gen_linear(rng, depth - 1, n, K))
    return ("scale", dy(rng, -2, 2, nz=True), gen_linear(rng, depth - 1, n, K))


def gen_energy(rng, depth, n, K):
    c = rng.integers(0, 5) if depth > 0 else 0
    if c < 3:
        shp = "F" if rng.random() < 0.8 else "S"
        m = n if shp == "F" else 1
        data = None if rng.random() < 0.3 else [dy(rng) for _ in range(m)]
        icov = None if rng.random() < 0.4 else [float(rng.integers(1, 4)) for _ in range(m)]
        return ("gauss", data, icov, gen_tree(rng, int(rng.integers(0, 3)), n, K, shp))
    if c == 3:
        # perfect squares only: ScalingOperator.__call__ takes sqrt(factor) for the metric
        return ("escale", float(rng.choice([4., 0.25, 1., -1., 9.])), gen_energy(rng, depth - 1, n, K))
    return ("eadd", gen_energy(rng, depth - 1, n, K), gen_energy(rng, depth - 1, n, K))


def wrap_lin_arith(rng, h):
    """Linearization-level +, -, * with scalars / scalar Fields on top of an energy (whose Linearization may carry a
    metric): 1-2 layers."""
    for _ in range(int(rng.integers(1, 3))):
        if rng.random() < 0.7:
            h = ("eshift", int(rng.integers(0, 2)), dy(rng, -3, 3), "scalar" if rng.random() < 0.5 else "field", h)
        else:
            h = ("elscale", float(rng.choice([2.0, 0.5, -1.0, 3.0, -2.0])), h)
    return h


def gen_point(rng, n, K):
    return [[dy(rng, -3, 3, nz=True) for _ in range(n)] for _ in range(K)]


def depth_of(t):
    return 1 + max([depth_of(x) for x in t[1:] if isinstance(x, (tuple, list)) and x and isinstance(x[0], str)] + [0])


def kinds(t, acc=None):
    acc = set() if acc is None else acc
    acc.add(t[0] if t[0] != "ptw" else "ptw:" + t[1])
    for x in t[1:]:
        if isinstance(x, (tuple, list)) and x and isinstance(x[0], str):
            kinds(x, acc)
    return acc


# ======================================================================================================
# Coq terms
# ======================================================================================================

def cqc(v):
    fr = Fraction(v)
    return "(q (%d) %d)" % (fr.numerator, fr.denominator)


def cvec(vs):
    return "(vq %s)" % C.clist([cqc(v) for v in vs])


def cl1(vs):
    return C.clist([cqc(v) for v in vs])


def cl2(vs):
    return C.clist([cl1(v) for v in vs])


def cl3(vs):
    return C.clist([cl2(v) for v in vs])


def cl4(vs):
    return C.clist([cl3(v) for v in vs])


def cq_raw(v):
    fr = Fraction(v)
    return "(%d # %d)%%Q" % (fr.numerator, fr.denominator)


def cptw(name, args):
    if name == "power":
        return "(QNpower (%d)%%Z)" % int(args[0])
    if name == "clip":
        return "(QNclip %s %s)" % (cq_raw(args[0]), cq_raw(args[1]))
    return "QN" + name


def cexpr(t, n):
    k = t[0]
    if k == "var":
        return "(Var %d)" % t[1]
    if k == "const":
        return "(Const %d %s)" % (len(t[1]), cvec(t[1]))
    if k == "addc":
        return "(AddC %s %s %s)" % (C.cbool(t[1]), cvec(t[2]), cexpr(t[3], n))
    if k == "mulc":
        return "(MulC %s %s)" % (cvec(t[1]), cexpr(t[2], n))
    if k == "scale":
        return "(Scale %s %s)" % (cqc(t[1]), cexpr(t[2], n))
    if k == "ptw":
        return "(Ptw %s %s)" % (cptw(t[1], t[2]), cexpr(t[3], n))
    if k == "mul":
        return "(Mul %s %s)" % (cexpr(t[1], n), cexpr(t[2], n))
    if k == "add":
        return "(Add %s %s)" % (cexpr(t[1], n), cexpr(t[2], n))
    if k == "mprod":
        # multi-output product read back key by key: modelled by its meaning f*h + g*k
        return "(Add (Mul %s %s) (Mul %s %s))" % (cexpr(t[1], n), cexpr(t[3], n), cexpr(t[2], n), cexpr(t[4], n))
    if k == "msum":
        return "(Add (Add %s %s) (Add %s %s))" % (cexpr(t[1], n), cexpr(t[3], n), cexpr(t[2], n), cexpr(t[4], n))
    if k in ("lsub", "lsubf", "sub"):
        # a - b (Operator.__sub__ = _OpSum(a, -b); Linearization.__sub__ = _myadd(neg=True); the linear SumOperator
        # a - b) is modelled by its meaning  a + (-1)*b
        return "(Add %s (Scale (q (-1) 1) %s))" % (cexpr(t[1], n), cexpr(t[2], n))
    m = n
    if k == "sum":
        return "(Sum %d %s)" % (m if shape(t[1]) == "F" else 1, cexpr(t[1], n))
    if k == "vdot":
        return "(Vdot %d %s %s)" % (m if shape(t[1]) == "F" else 1, cexpr(t[1], n), cexpr(t[2], n))
    if k == "sq2":
        return "(Sq2 %d %s)" % (m if shape(t[1]) == "F" else 1, cexpr(t[1], n))
    if k == "gauss":
        mm = n if shape(t[3]) == "F" else 1
        return "(EGauss %d %s %s %s)" % (mm, C.copt(t[1], cvec), C.copt(t[2], cvec), cexpr(t[3], n))
    if k == "escale":
        return "(EScale %s %s)" % (cqc(t[1]), cexpr(t[2], n))
    if k == "eadd":
        return "(EAdd %s %s)" % (cexpr(t[1], n), cexpr(t[2], n))
    if k == "eshift":
        return "(EShift %s %s %s)" % (C.cbool(t[1]), cqc(t[2]), cexpr(t[4], n))
    if k == "elscale":
        return "(ELScale %s %s)" % (cqc(t[1]), cexpr(t[2], n))
    raise ValueError(k)


HEADER = ("From Coq Require Import List ZArith QArith Qcanon Bool. Import ListNotations.\n"
          "Require Import NV.C03.Model NV.C03.ModelQ.\nOpen Scope nat_scope.\n")


def coq_check_expr(t, x, n, K, om, o):
    m = len(o["plain"])
    return "check_expr %s %s %d (%s : qexpr) %s %s %s %s %s" % (
        C.cbool(om), C.clist(["%d" % n] * K), m, cexpr(t, n), cl2(x), cl1(o["plain"]), cl1(o["linval"]),
        cl3(o["jt"]), cl3(o["ja"]))


def coq_check_energy(t, x, n, K, wm, o):
    return "check_energy %s %s (%s : qenergy) %s %s %s %s %s %s" % (
        C.cbool(wm), C.clist(["%d" % n] * K), cexpr(t, n), cl2(x), cqc(o["plain"][0]), cqc(o["linval"][0]),
        cl3(o["jt"]), cl3(o["ja"]), "None" if o["met"] is None else "(Some %s)" % cl4(o["met"]))


# ======================================================================================================
# MultiLinearEinsum
# ======================================================================================================

EIN_TEMPLATES = ["ij,jk,kl->il", "ij,jk->ik", "ij,j->i", "ij,kj->ik", "i,j->ij", "ij,ij->ij", "ijk,k->ij", "ij,jk,ki->i",
                 "i,ij,j->ij", "ij,jk->ki"]


def ein_cases(rng, ntemplates):
    """(subscripts, dims of the letters, key_order) for EVERY permutation of the key names over the operand
    positions; operand shapes are unequal whenever the letters have different sizes."""
    import itertools
    out = []
    for ti in range(ntemplates):
        sub = EIN_TEMPLATES[ti % len(EIN_TEMPLATES)]
        letters = sorted(set(sub) - set(",->"))
        while True:
            dims = {l: int(rng.integers(1, 4)) for l in letters}
            if len(set(dims.values())) > 1 or len(letters) == 1:
                break
        nops = sub.count(",") + 1
        for perm in itertools.permutations(["a", "b", "c"][:nops]):
            out.append({"kind": "einsum", "sub": sub, "dims": dims, "key_order": list(perm)})
    return out


def ein_build(ift, c):
    iss, oss = c["sub"].split("->")
    iss = iss.split(",")
    sp = {l: ift.UnstructuredDomain(d) for l, d in c["dims"].items()}
    opdom = [ift.DomainTuple.make([sp[l] for l in ss]) for ss in iss]
    dom = ift.MultiDomain.make({k: opdom[p] for p, k in enumerate(c["key_order"])})
    op = ift.MultiLinearEinsum(dom, c["sub"], key_order=tuple(c["key_order"]))
    return op, dom, opdom, iss, oss


def ein_observe(c, vals):
    """vals[p]: flat values of the operand at POSITION p (key c['key_order'][p])."""
    import nifty.cl as ift
    op, dom, opdom, iss, oss = ein_build(ift, c)
    ko = c["key_order"]
    X = ift.MultiField.from_dict({ko[p]: ift.Field.from_raw(opdom[p], np.array(vals[p], dtype=float).reshape(opdom[p].shape))
                                  for p in range(len(ko))}, domain=dom)
    plain = op(X)
    lin = op(ift.Linearization.make_var(X))
    osh = list(op.target.shape)
    o = {"plain": plain.asnumpy().reshape(-1).tolist(), "linval": lin.val.asnumpy().reshape(-1).tolist(), "oshape": osh,
         "shapes": [list(d.shape) for d in opdom]}
    jt = []
    for p in range(len(ko)):
        rows = []
        for e in range(int(np.prod(opdom[p].shape))):
            d = {ko[q]: np.zeros(opdom[q].shape) for q in range(len(ko))}
            d[ko[p]].reshape(-1)[e] = 1.0
            D = ift.MultiField.from_dict({k: ift.Field.from_raw(dom[k], v) for k, v in d.items()}, domain=dom)
            rows.append(lin.jac(D).asnumpy().reshape(-1).tolist())
        jt.append(rows)
    ja = []
    for f in range(int(np.prod(osh)) if osh else 1):
        y = np.zeros(op.target.shape)
        y.reshape(-1)[f] = 1.0
        r = lin.jac.adjoint_times(ift.Field.from_raw(op.target, y)).asnumpy()
        ja.append([np.asarray(r[ko[p]]).reshape(-1).tolist() for p in range(len(ko))])
    o["jt"], o["ja"] = jt, ja
    return o


def ein_coq(c, vals, o):
    iss, oss = c["sub"].split("->")
    iss = iss.split(",")
    letters = sorted(c["dims"])
    num = {l: i for i, l in enumerate(letters)}
    summed = [l for l in letters if l not in oss]
    nl = lambda ls: C.clist(["%d" % num[l] for l in ls])
    sh = lambda xs: C.clist(["%d" % v for v in xs])
    return "check_einsum %s %s %s %s %s %s %s %s %s %s %s" % (
        C.clist([nl(ss) for ss in iss]), nl(oss), nl(summed), C.clist(["%d" % c["dims"][l] for l in letters]),
        C.clist([sh(x) for x in o["shapes"]]), sh(o["oshape"]), cl2(vals), cl1(o["plain"]), cl1(o["linval"]), cl3(o["jt"]), cl3(o["ja"]))


def ein_direct(c, seed):
    """MultiLinearEinsum on the implementation at a random float point: value = numpy einsum of the operands in
    key_order, J.d = sum over the operands of the contraction with that operand replaced by its tangent, adjointness."""
    import nifty.cl as ift
    rng = np.random.default_rng([seed, 77])
    op, dom, opdom, iss, oss = ein_build(ift, c)
    ko = c["key_order"]
    a = [rng.normal(size=d.shape) for d in opdom]
    d = [rng.normal(size=dd.shape) for dd in opdom]
    mf = lambda arrs: ift.MultiField.from_dict({ko[p]: ift.Field.from_raw(opdom[p], arrs[p]) for p in range(len(ko))}, domain=dom)
    X, D = mf(a), mf(d)
    ref = np.einsum(c["sub"], *a)
    lin = op(ift.Linearization.make_var(X))
    if not np.allclose(op(X).asnumpy(), ref, rtol=1e-12, atol=1e-12) or not np.allclose(lin.val.asnumpy(), ref, rtol=1e-12, atol=1e-12):
        return ("value", "MultiLinearEinsum value differs from numpy.einsum of the operands in key_order")
    jref = sum(np.einsum(c["sub"], *[d[q] if q == p else a[q] for q in range(len(ko))]) for p in range(len(ko)))
    jv = lin.jac(D).asnumpy()
    if not np.allclose(jv, jref, rtol=1e-10, atol=1e-12):
        return ("jacobian", "J.d = %r but the multilinear derivative is %r" % (jv.reshape(-1).tolist(), jref.reshape(-1).tolist()))
    y = rng.normal(size=op.target.shape)
    lhs = float(np.vdot(y, jv))
    rhs = float(lin.jac.adjoint_times(ift.Field.from_raw(op.target, y)).s_vdot(D))
    if abs(lhs - rhs) > 1e-9 * (1 + abs(lhs)):
        return ("adjoint", "<y, J d> = %r but <J^T y, d> = %r" % (lhs, rhs))
    return None


# ======================================================================================================
# partial contractions on product domains with volume elements
# ======================================================================================================

GRIDS = [  # (shapes of the sub-spaces, distances)
    [((4,), (0.5,)), ((3, 2), (0.25, 1.5))],
    [((2,), (2.0,)), ((3,), (0.5,))],
    [((2, 2), (0.5, 0.5)), ((2,), (4.0,))],
    [((3,), (1.0,)), ((2,), (0.25,))],
    [((2,), (0.5,)), ((2,), (2.0,)), ((2,), (0.25,))],
]
GRID_MODELS = ["a*b", "a**2+b", "(a*b)**3", "a*a*b"]


def grid_cases(ngrids):
    out = []
    for gi in range(ngrids):
        g = GRIDS[gi % len(GRIDS)]
        ns = len(g)
        subsets = [None] + [(i,) for i in range(ns)] + ([(0, 1)] if ns > 2 else []) + [tuple(range(ns))]
        for sp in subsets:
            for meth in ("sum", "integrate"):
                for route in ("linearization", "operator"):
                    out.append({"kind": "contract", "grid": gi % len(GRIDS), "spaces": None if sp is None else list(sp),
                                "method": meth, "route": route, "model": (gi + len(out)) % len(GRID_MODELS)})
    return out


def grid_build(ift, c):
    g = GRIDS[c["grid"]]
    dom = ift.DomainTuple.make([ift.RGSpace(sh, distances=ds) for sh, ds in g])
    a, b = ift.FieldAdapter(dom, "a"), ift.FieldAdapter(dom, "b")
    op = {"a*b": a * b, "a**2+b": a.ptw("power", 2) + b, "(a*b)**3": (a * b).ptw("power", 3), "a*a*b": a * a * b}[GRID_MODELS[c["model"]]]
    return dom, op


def grid_table(c):
    """flat source indices per target pixel, target shape, weight of `integrate`"""
    g = GRIDS[c["grid"]]
    shapes = [sh for sh, _ in g]
    full = tuple(x for sh in shapes for x in sh)
    sp = list(range(len(g))) if c["spaces"] is None else list(c["spaces"])
    axes, off = [], 0
    for i, sh in enumerate(shapes):
        if i in sp:
            axes += list(range(off, off + len(sh)))
        off += len(sh)
    idx = np.arange(int(np.prod(full))).reshape(full)
    keep = [ax for ax in range(len(full)) if ax not in axes]
    moved = np.transpose(idx, keep + axes).reshape(int(np.prod([full[k] for k in keep])) if keep else 1, -1)
    w = Fraction(1)
    for i in sp:
        for dd in g[i][1]:
            w *= Fraction(dd)
    return moved.tolist(), (w if c["method"] == "integrate" else Fraction(1))


def grid_observe(c, vals):
    """dense value/Jacobian before and after the contraction (flat, row-major); vals = {'a': flat, 'b': flat}"""
    import nifty.cl as ift
    dom, op = grid_build(ift, c)
    X = ift.MultiField.from_dict({k: ift.Field.from_raw(dom, np.array(v, dtype=float).reshape(dom.shape)) for k, v in vals.items()})
    sp = None if c["spaces"] is None else tuple(c["spaces"])
    lin0 = op(ift.Linearization.make_var(X))
    if c["route"] == "linearization":
        lin1 = getattr(lin0, c["method"])(sp)
    else:
        op1 = getattr(op, c["method"])(sp)
        lin1 = op1(ift.Linearization.make_var(X))
        plain1 = op1(X)
        if not np.allclose(np.asarray(plain1.asnumpy()), np.asarray(lin1.val.asnumpy()), rtol=1e-13, atol=0):
            raise ValueError("plain value and Linearization value of the contracted operator differ")
    cols0, cols1 = [], []
    for k in ("a", "b"):
        for e in range(dom.size):
            d = {kk: np.zeros(dom.shape) for kk in ("a", "b")}
            d[k].reshape(-1)[e] = 1.0
            D = ift.MultiField.from_dict({kk: ift.Field.from_raw(dom, v) for kk, v in d.items()})
            cols0.append(np.asarray(lin0.jac(D).asnumpy()).reshape(-1).tolist())
            cols1.append(np.asarray(lin1.jac(D).asnumpy()).reshape(-1).tolist())
    # adjoint of the contracted Jacobian against its own TIMES (transpose)
    m1 = int(np.asarray(lin1.val.asnumpy()).size)
    for f in range(m1):
        y = np.zeros(lin1.jac.target.shape)
        y.reshape(-1)[f] = 1.0
        r = lin1.jac.adjoint_times(ift.Field.from_raw(lin1.jac.target, y)).asnumpy()
        row = np.concatenate([np.asarray(r[k]).reshape(-1) for k in ("a", "b")])
        if not np.allclose(row, np.array([cc[f] for cc in cols1]), rtol=1e-12, atol=1e-12):
            raise ValueError("ADJOINT_TIMES of the contracted Jacobian is not the transpose of TIMES")
    return {"val0": np.asarray(lin0.val.asnumpy()).reshape(-1).tolist(), "cols0": cols0,
            "val1": np.asarray(lin1.val.asnumpy()).reshape(-1).tolist(), "cols1": cols1}


def grid_coq(c, o):
    tbl, w = grid_table(c)
    return "check_contract %s %s %s %s %s %s" % (cqc(w), C.clist([C.clist(["%d" % i for i in row]) for row in tbl]),
                                                  cl1(o["val0"]), cl2(o["cols0"]), cl1(o["val1"]), cl2(o["cols1"]))


def grid_direct(c, seed):
    """the same on the implementation alone, random float values: contraction formula with the volume weights and
    finite differences of the contracted operator"""
    import nifty.cl as ift
    rng = np.random.default_rng([seed, 606])
    dom, op = grid_build(ift, c)
    vals = {k: rng.uniform(-1.5, 1.5, size=dom.size) for k in ("a", "b")}
    o = grid_observe(c, vals)
    tbl, w = grid_table(c)
    w = float(w)
    want = [w * sum(o["val0"][i] for i in row) for row in tbl]
    if not np.allclose(o["val1"], want, rtol=1e-12, atol=1e-12):
        return ("value", "%s(spaces=%r) [%s route]: value %r, weighted contraction %r" % (c["method"], c["spaces"], c["route"], o["val1"], want))
    for c0, c1 in zip(o["cols0"], o["cols1"]):
        wj = [w * sum(c0[i] for i in row) for row in tbl]
        if not np.allclose(c1, wj, rtol=1e-12, atol=1e-12):
            return ("jacobian", "%s(spaces=%r) [%s route]: Jacobian column %r, weighted contraction of the inner column %r" % (c["method"], c["spaces"], c["route"], c1, wj))
    return None


# ======================================================================================================
# numeric tie of the translator
# ======================================================================================================

SAMPLES = {
    "sqrt": [0.3, 1.0, 2.5, 40.0], "log": [0.2, 1.0, 3.0, 50.0], "log10": [0.2, 1.0, 3.0, 50.0],
    "log1p": [-0.7, 0.0, 0.4, 9.0], "tan": [-1.2, -0.3, 0.0, 0.7, 1.3], "reciprocal": [-3.0, -0.25, 0.5, 4.0],
    "power": [0.4, 1.0, 2.7], "clip": [-2.0, -0.3, 0.7, 1.9, 3.5], "softplus": [-40.0, -33.5, -5.0, 0.0, 3.0, 32.5, 34.0, 50.0],
    "sinc": [-2.3, -0.5, 0.0, 0.25, 1.0, 3.7], "abs": [-2.0, -0.1, 0.3, 5.0], "absolute": [-2.0, -0.1, 0.3, 5.0],
    "sign": [-2.0, -0.1, 0.3, 5.0], "unitstep": [-2.0, -0.1, 0.3, 5.0],
}
DEFAULT_SAMPLES = [-2.1, -0.6, 0.0, 0.3, 1.7]
PARAMS = {"power": [{"expo": 2.0}, {"expo": 3.0}, {"expo": 0.5}, {"expo": -1.5}],
          "clip": [{"a_min": -1.0, "a_max": 2.0}, {"a_min": 0.5, "a_max": 1.5}],
          "exponentiate": [{"base": 2.0}, {"base": 0.7}, {"base": 10.0}]}


def close(a, b, tol=1e-9):
    if isinstance(a, complex) or isinstance(b, complex):
        return abs(a - b) <= tol * (1 + abs(a) + abs(b))
    if math.isnan(a) or math.isnan(b):
        return math.isnan(a) and math.isnan(b)
    return abs(a - b) <= tol * (1 + abs(a) + abs(b))


def numeric_tie(entries, pointwise):
    """IR (what the Coq text says) evaluated in floats against the NumPy functions of the implementation."""
    from tr import c03_ptw as T
    bad, n = [], 0
    for e in entries:
        name = e["name"]
        f0, f1 = pointwise.ptw_dict[name]
        for pr in PARAMS.get(name, [{}]):
            args = [pr[p] for p in e["params"]]
            for x in SAMPLES.get(name, DEFAULT_SAMPLES):
                arr = np.array([x], dtype=np.float64)
                with np.errstate(all="ignore"):
                    p_impl = float(np.asarray(f0(arr, *args))[0])
                    v_impl, d_impl = [float(np.asarray(u)[0]) for u in f1(arr, *args)]
                p_ir, v_ir, d_ir = T.ev(e["plain"], x, pr), T.ev(e["val"], x, pr), T.ev(e["der"], x, pr)
                n += 1
                if not (close(p_impl, p_ir) and close(v_impl, v_ir) and close(d_impl, d_ir)):
                    bad.append({"entry": name, "params": pr, "x": x, "impl": [p_impl, v_impl, d_impl], "translated": [p_ir, v_ir, d_ir]})
    return n, bad


# ======================================================================================================
# direct oracle on the implementation
# ======================================================================================================

# name -> (arguments, predicate on the argument value: inside the domain with a margin)
def _far(v, pts, marg=0.15):
    return all(abs(v - p) > marg for p in pts)


FLOAT_PTW = [
    ("sqrt", [], lambda v: 0.2 < v < 50), ("sin", [], lambda v: abs(v) < 20), ("cos", [], lambda v: abs(v) < 20),
    ("tan", [], lambda v: abs(v) < 1.2), ("sinc", [], lambda v: abs(v) < 10 and abs(v) > 0.1), ("exp", [], lambda v: abs(v) < 4),
    ("expm1", [], lambda v: abs(v) < 4), ("log", [], lambda v: 0.2 < v < 50), ("log10", [], lambda v: 0.2 < v < 50),
    ("log1p", [], lambda v: -0.7 < v < 50), ("sinh", [], lambda v: abs(v) < 4), ("cosh", [], lambda v: abs(v) < 4),
    ("tanh", [], lambda v: abs(v) < 10), ("sigmoid", [], lambda v: abs(v) < 10), ("reciprocal", [], lambda v: 0.2 < abs(v) < 50),
    ("abs", [], lambda v: 0.15 < abs(v) < 50), ("absolute", [], lambda v: 0.15 < abs(v) < 50), ("sign", [], lambda v: 0.15 < abs(v)),
    ("power", [2], lambda v: abs(v) < 8), ("power", [3], lambda v: abs(v) < 5), ("power", [0.5], lambda v: 0.2 < v < 50),
    ("power", [-1.5], lambda v: 0.2 < v < 50), ("clip", [-1.0, 2.0], lambda v: _far(v, [-1.0, 2.0])),
    ("clip", [0.5, 1.5], lambda v: _far(v, [0.5, 1.5])), ("softplus", [], lambda v: _far(v, [-33., 33.]) and abs(v) < 60),
    ("exponentiate", [2.0], lambda v: abs(v) < 6), ("exponentiate", [0.7], lambda v: abs(v) < 6),
    ("arctan", [], lambda v: abs(v) < 50), ("unitstep", [], lambda v: 0.15 < abs(v)),
]
HOLO_PTW = [("sin", [], lambda v: abs(v) < 3), ("cos", [], lambda v: abs(v) < 3), ("exp", [], lambda v: abs(v) < 3),
            ("expm1", [], lambda v: abs(v) < 3), ("sinh", [], lambda v: abs(v) < 3), ("cosh", [], lambda v: abs(v) < 3),
            ("tanh", [], lambda v: abs(v) < 1.2), ("sigmoid", [], lambda v: abs(v) < 1.2),
            ("reciprocal", [], lambda v: 0.3 < abs(v) < 50), ("power", [2], lambda v: abs(v) < 6), ("power", [3], lambda v: abs(v) < 4),
            ("sinc", [], lambda v: 0.1 < abs(v) < 3), ("arctan", [], lambda v: abs(v) < 0.8),
            ("log", [], lambda v: v.real > 0.3 and abs(v) < 30), ("sqrt", [], lambda v: v.real > 0.3 and abs(v) < 30),
            ("log1p", [], lambda v: v.real > -0.6 and abs(v) < 30), ("exponentiate", [2.0], lambda v: abs(v) < 4)]


def jax_direct(inp):
    """JaxOperator (derivatives from JAX autodiff; not modelled): value, J.d against finite differences, adjointness,
    and the call HISTORY  lin1 = op(var(x1)); lin2 = op(var(x2)); then lin1.jac / lin1.jac.adjoint are used."""
    import nifty.cl as ift
    import jax.numpy as jnp
    n, seed, fi = inp["n"], inp["seed"], inp["func"]
    rng = np.random.default_rng([seed, 909])
    dom = ift.DomainTuple.make(ift.UnstructuredDomain(n))
    funcs = [lambda v: jnp.sin(v) * v, lambda v: jnp.exp(0.5 * v) + v ** 2, lambda v: jnp.tanh(v) * jnp.roll(v, 1), lambda v: v ** 3 - jnp.cos(v)]
    f = funcs[fi % len(funcs)]
    op = ift.JaxOperator(dom, dom, f)
    if inp.get("compose"):
        op = op.ptw("tanh") + op          # the same JaxOperator object twice inside one expression
    fld = lambda a: ift.Field.from_raw(dom, np.array(a, dtype=float))
    x1, x2, d, y = [rng.normal(size=n) for _ in range(4)]

    def fdj(xx):
        h = 1e-3
        g = lambda s: op(fld(xx + s * d)).asnumpy()
        D1, D2 = (g(h) - g(-h)) / (2 * h), (g(h / 2) - g(-h / 2)) / h
        return (4 * D2 - D1) / 3

    l1 = op(ift.Linearization.make_var(fld(x1)))
    if not np.allclose(l1.val.asnumpy(), op(fld(x1)).asnumpy(), rtol=1e-12, atol=1e-12):
        return ("value", "JaxOperator: Linearization value differs from plain evaluation")
    j1 = l1.jac(fld(d)).asnumpy()
    a1 = l1.jac.adjoint_times(fld(y)).asnumpy()
    fd1 = fdj(x1)
    if not np.allclose(j1, fd1, rtol=1e-6, atol=1e-7):
        return ("jacobian_fd", "JaxOperator: J.d = %r, finite differences %r" % (j1.tolist(), fd1.tolist()))
    if abs(np.vdot(y, j1) - np.vdot(a1, d)) > 1e-9 * (1 + abs(np.vdot(y, j1))):
        return ("adjoint", "JaxOperator: <y, J d> != <J^T y, d>")
    l2 = op(ift.Linearization.make_var(fld(x2)))
    j1b = l1.jac(fld(d)).asnumpy()
    a1b = l1.jac.adjoint_times(fld(y)).asnumpy()
    if not np.allclose(j1b, j1, rtol=1e-12, atol=1e-13) or not np.allclose(a1b, a1, rtol=1e-12, atol=1e-13):
        return ("history", "JaxOperator: after linearizing the same operator at a second point the FIRST Jacobian gives J1.d = %r (before: %r)"
                % (j1b.tolist(), j1.tolist()))
    j2 = l2.jac(fld(d)).asnumpy()
    if not np.allclose(j2, fdj(x2), rtol=1e-6, atol=1e-7):
        return ("jacobian_fd", "JaxOperator: second Linearization has a wrong Jacobian")
    s = (l1 + l2).jac(fld(d)).asnumpy()
    if not np.allclose(s, j1 + j2, rtol=1e-10, atol=1e-12):
        return ("history", "JaxOperator: Jacobian of lin1 + lin2 is not J1 + J2")
    return None


def linsub_direct(inp):
    """Linearization arithmetic on a SINGLE field (Jacobians are bare linear operators: SumOperator with neg flags and its
    simplification):  expr(a) = S(a) +/- f1(a) +/- f2(a) [+/- f3(a)]  with S a non-diagonal linear operator (dense matrix,
    harmonic smoothing), the identity or a diagonal, and f_i point-wise.  Value against the Field evaluation, J.d and
    J^T.c against the analytic derivative and finite differences."""
    import nifty.cl as ift
    rng = np.random.default_rng([inp["seed"], 1111])
    n = inp["n"]
    dom = ift.DomainTuple.make(ift.RGSpace(n, distances=0.3))
    xv, dv, cv = [rng.normal(size=n) for _ in range(3)]
    lead = inp["lead"]
    if lead == "matrix":
        Mm = rng.normal(size=(n, n))
        S = ift.MatrixProductOperator(dom, Mm)
        Sd, Sad = (lambda v: Mm @ v), (lambda v: Mm.T @ v)
    elif lead == "smooth":
        S = ift.HarmonicSmoothingOperator(dom, 0.4)
        Sd = lambda v: S(ift.Field.from_raw(dom, v)).asnumpy()
        Sad = lambda v: S.adjoint_times(ift.Field.from_raw(dom, v)).asnumpy()
    elif lead == "diag":
        dg = rng.normal(size=n)
        S = ift.makeOp(ift.Field.from_raw(dom, dg))
        Sd = Sad = (lambda v: dg * v)
    else:
        S = ift.ScalingOperator(dom, 1.)
        Sd = Sad = (lambda v: v)
    table = {"sin": np.cos, "tanh": lambda v: 1 - np.tanh(v) ** 2, "exp": np.exp, "arctan": lambda v: 1 / (1 + v * v), "sigmoid": lambda v: 0.5 - 0.5 * np.tanh(v) ** 2}
    terms = inp["terms"]          # [(neg, name), ...]

    def expr(a):
        r = S(a)
        for neg, nm in terms:
            r = r - a.ptw(nm) if neg else r + a.ptw(nm)
        return r

    x = ift.Field.from_raw(dom, xv)
    lin = expr(ift.Linearization.make_var(x))
    if not np.allclose(lin.val.asnumpy(), expr(x).asnumpy(), rtol=1e-12, atol=1e-12):
        return ("value", "Linearization value of S(a) -/+ f_i(a) differs from the Field evaluation")
    dsum = sum((-1 if neg else 1) * table[nm](xv) for neg, nm in terms)
    jd, ja = lin.jac(ift.Field.from_raw(dom, dv)).asnumpy(), lin.jac.adjoint_times(ift.Field.from_raw(dom, cv)).asnumpy()
    if not np.allclose(jd, Sd(dv) + dsum * dv, rtol=1e-10, atol=1e-12):
        return ("jacobian", "J.d of %s(a) %s is %r, true derivative %r" % (lead, "".join(("-" if ng else "+") + nm + "(a)" for ng, nm in terms),
                                                                        jd.tolist(), (Sd(dv) + dsum * dv).tolist()))
    if not np.allclose(ja, Sad(cv) + dsum * cv, rtol=1e-10, atol=1e-12):
        return ("jacobian_adjoint", "J^T.c of %s(a) %s is wrong" % (lead, terms))
    eps = 1e-5
    fd = (expr(ift.Field.from_raw(dom, xv + eps * dv)).asnumpy() - expr(ift.Field.from_raw(dom, xv - eps * dv)).asnumpy()) / (2 * eps)
    if not np.allclose(jd, fd, rtol=1e-6, atol=1e-7):
        return ("jacobian_fd", "J.d disagrees with finite differences")
    return None


def cmetric_direct(inp):
    """A requested metric pulled back through a COMPLEX Jacobian: GaussianEnergy(d, N) behind a ScalingOperator with a
    complex factor c (metric must be |c|^2 N), `lh(c*lin)`, and behind c * holomorphic function; against J^dagger N J
    assembled from the inner Jacobian's own TIMES / ADJOINT_TIMES."""
    import nifty.cl as ift
    rng = np.random.default_rng([inp["seed"], 2222])
    n = inp["n"]
    dom = ift.DomainTuple.make(ift.UnstructuredDomain(n))
    cpx = lambda: rng.normal(size=n) + 1j * rng.normal(size=n)
    x, t, d = [ift.Field.from_raw(dom, cpx()) for _ in range(3)]
    Nv = rng.uniform(0.5, 2.0, size=n)
    icov = ift.makeOp(ift.Field.from_raw(dom, Nv), sampling_dtype=np.complex128)
    lh = ift.GaussianEnergy(data=d, inverse_covariance=icov)
    c = complex(inp["c"][0], inp["c"][1]) if inp["c"][1] != 0.0 else float(inp["c"][0])
    form = inp["form"]
    sc = ift.ScalingOperator(dom, c)
    if form == "chain":
        inner = sc
        op = lh @ sc
        lin = op(ift.Linearization.make_var(x, True))
    elif form == "linmul":
        inner = sc
        lin = lh(ift.Linearization.make_var(x, True) * c)
    else:
        inner = sc @ ift.ScalingOperator(dom, 1.).ptw("exp")
        op = lh @ inner
        lin = op(ift.Linearization.make_var(x, True))
    if lin.metric is None:
        return ("metric", "want_metric was requested but the energy behind a complex scaling has no metric")
    li = inner(ift.Linearization.make_var(x)) if not isinstance(inner, ift.LinearOperator) else None
    J = inner if li is None else li.jac
    want = J.adjoint_times(icov(J(t))).asnumpy()
    got = lin.metric(t).asnumpy()
    if not np.allclose(got, want, rtol=1e-10, atol=1e-12):
        return ("metric", "metric behind the complex factor %r applied to t is %r, J^dagger N J t is %r" % (c, got.tolist(), want.tolist()))
    return None


def outer_direct(inp):
    """Linearization.outer(field): value self.val (x) other, Jacobian d -> (J d) (x) other on the Linearization's domain."""
    import nifty.cl as ift
    rng = np.random.default_rng([inp.get("seed", 0), 3333])
    d1, d2 = ift.DomainTuple.make(ift.UnstructuredDomain(2)), ift.DomainTuple.make(ift.UnstructuredDomain(3))
    xv, dv, ov = rng.normal(size=2), rng.normal(size=2), rng.normal(size=3)
    try:
        l = ift.Linearization.make_var(ift.Field.from_raw(d1, xv)).ptw("exp").outer(ift.Field.from_raw(d2, ov))
        ok = np.allclose(l.val.asnumpy(), np.multiply.outer(np.exp(xv), ov)) and l.jac.domain is d1 and \
            np.allclose(l.jac(ift.Field.from_raw(d1, dv)).asnumpy(), np.multiply.outer(np.exp(xv) * dv, ov))
        return None if ok else ("outer", "wrong value or Jacobian")
    except Exception as e:
        return ("outer", "raises %s: %s" % (type(e).__name__, str(e)[:120]))


def nonsquare_direct(inp):
    """Key extraction / insertion / transposition on NON-SQUARE Linearizations (Jacobian domain != value domain), and the
    adjoint of a complex-valued JaxOperator for a real cotangent.  Returns a list of (check, detail)."""
    import nifty.cl as ift
    rng = np.random.default_rng([inp.get("seed", 0), 808])
    fails = []
    dom = ift.DomainTuple.make(ift.UnstructuredDomain(2))
    a, b = ift.FieldAdapter(dom, "a"), ift.FieldAdapter(dom, "b")
    av, bv, da, db = [rng.normal(size=2) for _ in range(4)]
    X = ift.MultiField.from_dict({"a": ift.Field.from_raw(dom, av), "b": ift.Field.from_raw(dom, bv)})
    D = ift.MultiField.from_dict({"a": ift.Field.from_raw(dom, da), "b": ift.Field.from_raw(dom, db)})
    which = inp["which"]
    try:
        if which == "ducktape_left":      # multi -> field Linearization, wrapped into {'y': .}
            l = (a * b)(ift.Linearization.make_var(X)).ducktape_left("y")
            ok = np.allclose(l.val["y"].asnumpy(), av * bv) and np.allclose(l.jac(D)["y"].asnumpy(), av * db + bv * da)
        elif which == "getitem":          # field -> multi Linearization, key extraction
            f = ift.Field.from_raw(dom, av)
            opm = ift.ScalingOperator(dom, 1.).exp().ducktape_left("u") + ift.ScalingOperator(dom, 1.).tanh().ducktape_left("v")
            l = opm(ift.Linearization.make_var(f))["v"]
            ok = np.allclose(l.val.asnumpy(), np.tanh(av)) and np.allclose(l.jac(ift.Field.from_raw(dom, da)).asnumpy(), (1 - np.tanh(av) ** 2) * da)
        elif which == "transpose":
            d2 = ift.DomainTuple.make((ift.UnstructuredDomain(2), ift.UnstructuredDomain(3)))
            v, dv = rng.normal(size=(2, 3)), rng.normal(size=(2, 3))
            X2 = ift.MultiField.from_dict({"a": ift.Field.from_raw(d2, v)})
            l = ift.FieldAdapter(d2, "a").exp()(ift.Linearization.make_var(X2)).transpose((1, 0))
            j = l.jac(ift.MultiField.from_dict({"a": ift.Field.from_raw(d2, dv)})).asnumpy()
            ok = np.allclose(l.val.asnumpy(), np.exp(v).T) and np.allclose(j, (np.exp(v) * dv).T)
        else:                             # jax: Re exp(i v), gradient for a real cotangent
            import jax.numpy as jnp
            jop = ift.JaxOperator(dom, dom, lambda v: jnp.exp(1j * v))
            l = jop.real(ift.Linearization.make_var(ift.Field.from_raw(dom, av)))
            g = l.jac.adjoint_times(ift.Field.from_raw(dom, bv)).asnumpy()
            ok = np.allclose(g, -np.sin(av) * bv)
        if not ok:
            fails.append((which, "wrong value or Jacobian"))
    except Exception as e:
        fails.append((which, "raises %s: %s" % (type(e).__name__, str(e)[:120])))
    return fails


# real / imaginary part / conjugate of complex intermediates (Linearization.real/.imag/.conjugate and the
# Realizer/Imaginizer/ConjugationOperator route)
COMPLEX_PROBES = [
    ("imag", ("mul", ("var", 0), ("var", 0))),
    ("real", ("mul", ("var", 0), ("var", 1))),
    ("conj", ("ptw", "exp", [], ("var", 0))),
    ("mul", ("imag", ("ptw", "sin", [], ("var", 0))), ("real", ("var", 1))),
    ("sum", ("mul", ("imag", ("mul", ("var", 0), ("var", 1))), ("conj", ("var", 0)))),
    ("add", ("imag", ("ptw", "tanh", [], ("mulc", [0.7 - 0.2j, 0.3 + 0.5j], ("var", 1)))), ("real", ("ptw", "exp", [], ("var", 0)))),
    # complex scalars on either side of the R-linear operators (must not be commuted across them)
    ("scale", 0.7 - 0.2j, ("real", ("ptw", "exp", [], ("var", 0)))),
    ("scale", -0.3 + 1.1j, ("imag", ("ptw", "sin", [], ("var", 1)))),
    ("conj", ("scale", 0.5 + 0.5j, ("ptw", "tanh", [], ("var", 0)))),
    ("real", ("scale", 1.2 - 0.4j, ("ptw", "exp", [], ("mul", ("var", 0), ("var", 1))))),
    ("ptw", "sin", [], ("scale", 0.6 + 0.8j, ("real", ("scale", 0.2 - 1.0j, ("ptw", "exp", [], ("var", 1)))))),
]


class FloatGen:
    """Random float trees valid (with margins) at a given point; validity is checked on the implementation's
    own plain evaluation of the sub-operators."""

    def __init__(self, rng, impl, x, table, cplx=False):
        self.rng, self.impl, self.x, self.table, self.cplx = rng, impl, x, table, cplx
        self.X = impl.point(x)
        self.guards = []      # (subtree, predicate) to re-check at other points

    def val(self, t):
        return np.atleast_1d(self.impl.op(t).force(self.X).asnumpy())

    def rnd(self, lo=-2., hi=2.):
        v = float(self.rng.uniform(lo, hi))
        if self.cplx:
            return complex(v, float(self.rng.uniform(lo, hi)))
        return v

    def gen(self, depth, shp="F"):
        rng, n, K = self.rng, self.impl.n, self.impl.K
        if shp == "S":
            c = rng.integers(0, 7) if depth > 0 else 0
            if depth <= 0 or c < 3:
                r = int(rng.integers(0, 3))
                if r == 0:
                    return ("sum", self.gen(depth - 1, "F"))
                if r == 1 and not self.cplx:
                    return ("vdot", self.gen(depth - 1, "F"), self.gen(depth - 1, "F"))
                if r == 2 and not self.cplx:
                    return ("sq2", self.gen(depth - 1, "F"))
                return ("sum", self.gen(depth - 1, "F"))
            m = 1
        else:
            m = n
            if depth <= 0 or rng.random() < 0.12:
                return ("var", int(rng.integers(0, K)))
            c = rng.integers(3, 10)
        if self.cplx and rng.random() < 0.25:
            # real / imaginary part / conjugate of a complex intermediate (R-linear, not holomorphic)
            sub = self.gen(depth - 1, shp)
            kind = ["real", "imag", "conj"][int(rng.integers(0, 3))]
            if kind == "imag" and not np.iscomplexobj(self.val(sub)):
                kind = "real"       # Imaginizer rejects real-valued input (ValueError by design)
            return (kind, sub)
        if c == 3:
            return ("addc", int(rng.integers(0, 2)), [self.rnd() for _ in range(m)], self.gen(depth - 1, shp))
        if c == 4:
            return ("mulc", [self.rnd() for _ in range(m)], self.gen(depth - 1, shp))
        if c == 5:
            fac = complex(rng.uniform(-2, 2), rng.uniform(-2, 2)) if (self.cplx and rng.random() < 0.6) else float(rng.uniform(-2, 2))
            return ("scale", fac, self.gen(depth - 1, shp))
        if c in (6, 9):
            sub = self.gen(depth - 1, shp)
            v = self.val(sub)
            order = rng.permutation(len(self.table))
            for idx in order:
                nm, args, pred = self.table[int(idx)]
                if all(pred(complex(u) if self.cplx else float(u.real)) for u in v):
                    self.guards.append((sub, pred))
                    return ("ptw", nm, list(args), sub)
            return sub
        if c == 7:
            return ("mul", self.gen(depth - 1, shp), self.gen(depth - 1, shp))
        return ("add" if rng.random() < 0.6 else "sub", self.gen(depth - 1, shp), self.gen(depth - 1, shp))

    def valid_at(self, x):
        X = self.impl.point(x)
        for sub, pred in self.guards:
            v = np.atleast_1d(self.impl.op(sub).force(X).asnumpy())
            if not all(pred(complex(u) if self.cplx else float(u.real)) for u in v):
                return False
        return True


def fd_check(impl, t, x, dirs, wm=False, om=True, h=2e-3, tol=2e-5):
    """The property on the implementation at one point: returns None or (check-name, detail)."""
    ift = impl.ift
    X = impl.point(x)
    o = impl.observe(t, x, om=om, wm=wm, want_dense=False)
    lin, dkeys = o["_lin"], o["_dkeys"]
    plain = np.array(o["plain"])
    lv = np.array(o["linval"])
    scale = 1.0 + float(np.max(np.abs(plain))) if plain.size else 1.0
    if not np.all(np.isfinite(plain)):
        return None     # outside the valid range after all (overflow): not a case
    if not np.allclose(plain, lv, rtol=1e-12, atol=1e-12 * scale):
        return ("value", "Linearization value differs from plain evaluation: %r vs %r" % (lv.tolist(), plain.tolist()))
    if bool(lin.want_metric) != bool(wm):
        return ("want_metric", "want_metric flag not carried: %r" % lin.want_metric)
    is_energy = t[0] in ("gauss", "escale", "eadd", "eshift", "elscale")
    if not is_energy and lin.metric is not None:
        return ("metric", "a non-energy expression carries a metric")
    op = impl.op(t)

    def g(s, d):
        xs = [[x[k][j] + s * d[k][j] for j in range(impl.n)] for k in range(impl.K)]
        return np.atleast_1d(op.force(impl.point(xs)).asnumpy())

    for d in dirs:
        D1 = (g(h, d) - g(-h, d)) / (2 * h)
        D2 = (g(h / 2, d) - g(-h / 2, d)) / h
        fd = (4 * D2 - D1) / 3
        dm = ift.MultiField.from_dict({kk: ift.Field.from_raw(impl.dom, np.array(d[int(kk[1:])], dtype=impl.dtype)) for kk in dkeys},
                                      domain=lin.jac.domain)
        jv = np.atleast_1d(lin.jac(dm).asnumpy())
        err = float(np.max(np.abs(jv - fd)))
        ref_scale = float(np.max(np.abs(jv)) + np.max(np.abs(fd))) + scale
        # disagreement of the two difference quotients bounds the truncation error of the reference itself
        trunc = float(np.max(np.abs(D2 - D1)))
        if err > tol * ref_scale + 0.5 * trunc * 0.1 + 1e-9:
            return ("jacobian_fd", "J.d = %r but the extrapolated central difference is %r" % (jv.tolist(), fd.tolist()))
        # adjointness: <y, J d> = <J^dagger y, d>
        y = np.array([(0.37 + 0.11 * i) * (-1) ** i for i in range(jv.size)], dtype=impl.dtype)
        rlin = bool(kinds(t) & {"real", "imag", "conj"})
        if impl.dtype == np.complex128 and not rlin:
            y = y * (1 + 0.5j)
        if rlin and not np.iscomplexobj(jv):
            y = y.real.astype(np.float64)
        yf = ift.Field.from_raw(lin.jac.target, y.reshape(lin.jac.target.shape))
        lhs = np.vdot(y, jv)
        try:
            rhs = lin.jac.adjoint_times(yf).s_vdot(dm)
        except ValueError:
            if not rlin:
                raise
            # Imaginizer.adjoint_times accepts real cotangents only (library limitation): when a complex
            # cotangent reaches it, the adjoint of this tree is not available; nothing to compare
            continue
        if rlin:
            # R-linear Jacobians (real/imag/conjugate): the adjoint is the transpose for the REAL inner product
            lhs, rhs = lhs.real, rhs.real
        if abs(lhs - rhs) > 1e-9 * (1 + abs(lhs) + abs(rhs)):
            return ("adjoint", "<y, J d> = %r but <J^dagger y, d> = %r" % (lhs, rhs))
    # call history: linearizing the SAME operator object at another point must not change the first Linearization
    if om and dirs:
        d = dirs[0]
        dm = ift.MultiField.from_dict({kk: ift.Field.from_raw(impl.dom, np.array(d[int(kk[1:])], dtype=impl.dtype)) for kk in dkeys},
                                      domain=lin.jac.domain)
        j_before = np.atleast_1d(lin.jac(dm).asnumpy()).copy()
        op0 = o.get("_op")
        if op0 is not None:
            x2 = [[x[k][j] + 0.01 * (1 + j + k) for j in range(impl.n)] for k in range(impl.K)]
            try:
                with np.errstate(all="ignore"):
                    op0(ift.Linearization.make_var(impl.point(x2).extract(op0.domain), wm))
                second = True
            except Exception:
                second = False      # the second point may be outside a pointwise function's domain: no history then
            if second:
                j_after = np.atleast_1d(lin.jac(dm).asnumpy())
                if not np.array_equal(j_before, j_after) and not np.allclose(j_before, j_after, rtol=1e-13, atol=0):
                    return ("history", "J.d of the first Linearization changed from %r to %r after the same operator was linearized at another point"
                            % (j_before.tolist(), j_after.tolist()))
                if not np.allclose(np.atleast_1d(lin.val.asnumpy()), lv, rtol=0, atol=0):
                    return ("history", "the value of the first Linearization changed after the same operator was linearized at another point")
    if is_energy:
        nonneg = _scales_nonneg(t)
        if wm and nonneg and lin.metric is None:
            return ("metric", "want_metric was requested but the energy's Linearization has no metric")
        if (not wm) and lin.metric is not None:
            return ("metric", "metric present although not requested")
        if wm and lin.metric is not None:
            # metric = sum c_i J_i^T N_i J_i : compare with the Jacobians of the residual expressions
            for d in dirs[:2]:
                dm = ift.MultiField.from_dict({kk: ift.Field.from_raw(impl.dom, np.array(d[int(kk[1:])], dtype=impl.dtype)) for kk in dkeys},
                                              domain=lin.metric.domain)
                got = lin.metric(dm)
                want = _fisher(impl, t, X, dm, dkeys)
                for kk in dkeys:
                    a, b = got[kk].asnumpy(), want[kk]
                    if not np.allclose(a, b, rtol=1e-9, atol=1e-9 * (1 + np.max(np.abs(b)))):
                        return ("metric", "metric applied to a direction is %r, J^T N J d is %r (key %s)" % (a.tolist(), b.tolist(), kk))
    return None


def _scales_nonneg(t):
    if t[0] == "gauss":
        return True
    if t[0] in ("eshift", "elscale"):
        return _scales_nonneg(t[-1])     # Linearization.__mul__ scales the metric for any sign
    if t[0] == "escale":
        return t[1] >= 0 and _scales_nonneg(t[2])
    return _scales_nonneg(t[1]) and _scales_nonneg(t[2])


def _fisher(impl, t, X, dm, dkeys):
    """sum_i c_i J_i^T N_i J_i d from the residual expressions' own Jacobians (implementation)."""
    ift = impl.ift
    if t[0] == "gauss":
        op = impl.op(t[3])
        l = op(ift.Linearization.make_var(X.extract(op.domain)))
        jd = l.jac(dm.extract(op.domain))
        if t[2] is not None:
            jd = impl.fld(t[2], shape(t[3])) * jd
        r = l.jac.adjoint_times(jd)
        return {kk: (r[kk].asnumpy() if kk in r.keys() else np.zeros(impl.n)) for kk in dkeys}
    if t[0] in ("escale", "elscale"):
        r = _fisher(impl, t[2], X, dm, dkeys)
        return {kk: t[1] * v for kk, v in r.items()}
    if t[0] == "eshift":
        return _fisher(impl, t[4], X, dm, dkeys)
    a, b = _fisher(impl, t[1], X, dm, dkeys), _fisher(impl, t[2], X, dm, dkeys)
    return {kk: a[kk] + b[kk] for kk in dkeys}


def entry_fd(pointwise, name, args, x, cplx=False):
    """One table entry on the implementation: helper value == plain, helper derivative == FD of plain."""
    f0, f1 = pointwise.ptw_dict[name]
    h = 1e-4
    a = np.array([x], dtype=np.complex128 if cplx else np.float64)
    with np.errstate(all="ignore"):
        p = np.asarray(f0(a, *args))[0]
        v, d = [np.asarray(u)[0] for u in f1(a, *args)]
        D1 = (np.asarray(f0(a + h, *args))[0] - np.asarray(f0(a - h, *args))[0]) / (2 * h)
        D2 = (np.asarray(f0(a + h / 2, *args))[0] - np.asarray(f0(a - h / 2, *args))[0]) / h
    fd = (4 * D2 - D1) / 3
    if not close(complex(p) if cplx else float(p), complex(v) if cplx else float(v), 1e-12):
        return "value", "helper value %r differs from plain function %r" % (v, p)
    if abs(d - fd) > 1e-6 * (1 + abs(d) + abs(fd)):
        return "derivative", "helper derivative %r, extrapolated central difference of the plain function %r" % (d, fd)
    return None


ENTRY_POINTS = {  # interior points of each entry's domain, away from kinks
    "sqrt": [0.3, 1.0, 2.5, 17.0], "log": [0.3, 1.0, 3.0, 17.0], "log10": [0.3, 1.0, 3.0, 17.0], "log1p": [-0.6, 0.2, 4.0],
    "tan": [-1.2, -0.3, 0.4, 1.1], "reciprocal": [-3.0, -0.4, 0.5, 4.0], "abs": [-2.0, -0.2, 0.3, 5.0],
    "absolute": [-2.0, -0.2, 0.3, 5.0], "sign": [-2.0, -0.2, 0.3, 5.0], "unitstep": [-2.0, -0.2, 0.3, 5.0],
    "softplus": [-40.0, -34.0, -32.0, -5.0, 0.0, 3.0, 32.0, 34.0, 50.0], "sinc": [-2.3, -0.5, 0.0, 0.25, 1.0, 3.7],
}
ENTRY_ARGS = {"power": [[2], [3], [0.5], [-1.5]], "clip": [[-1.0, 2.0], [0.5, 1.5]], "exponentiate": [[2.0], [0.7]]}
ENTRY_POINTS_P = {"power": [0.4, 1.0, 2.7], "clip": [-2.0, -0.3, 0.9, 1.2, 3.5], "exponentiate": [-2.0, 0.0, 1.3]}


# ======================================================================================================
# the check
# ======================================================================================================

class C03(C.Check):
    prop = PROP
    coq_dir = "C03"
    trusted_base = [
        "Coq 8.16.1 kernel (coqc; vm_compute for the correspondence evaluation); axioms: the standard library's classical real numbers (sig_forall_dec, sig_not_dec, functional_extensionality_dep) under the Coquelicot theorems only; the ring-generic theorems are axiom free",
        "tr/c03_ptw.py: the ast -> Gallina translator of pointwise.py (whitelist, fail closed) and its reading of NumPy primitives (np.sinc, np.clip = min(max), np.power = Rpower for x > 0, masked stores as nested if); compared numerically with NumPy on every run",
        "hand-written model coq/C03/Model.v of Linearization/_OpProd/_OpSum/_OpChain/energies (tied by the exact correspondence on generated trees, not by translation)",
        "fields are modelled as index functions over a commutative ring: float rounding, dtypes, devices and domain objects are outside the model",
        "harness/props/c03.py: tree builders for the implementation and the guard that keeps float64 arithmetic exact",
    ]
    assumptions = [
        "real fields (the model's adjoint is the transpose; conjugation of complex fields is checked only by the direct oracle)",
        "pointwise functions are used inside their natural open domains (abs/sign/unitstep away from 0, clip away from its bounds, softplus away from +-33, log/sqrt/real powers on positive arguments)",
        "sums and contractions over the whole field (spaces=None); no volume factors (UnstructuredDomain)",
    ]

    def __init__(self):
        self.entries = None
        self.cases = []

    # ---- translate ----------------------------------------------------------------------------------
    def translate(self, ctx):
        from tr import c03_ptw as T
        src = os.path.join(ctx.repo, "nifty", "cl", "pointwise.py")
        try:
            es = T.translate(open(src).read())
            gr, gq = T.gen_R(es, "nifty/cl/pointwise.py"), T.gen_Q(es, "nifty/cl/pointwise.py")
        except T.TranslationError as e:
            raise C.TranslationError(str(e))
        self.entries = es
        C.write_if_changed(os.path.join(C.COQ, "C03", "Gen_Ptw.v"), gr)
        C.write_if_changed(os.path.join(C.COQ, "C03", "Gen_PtwQ.v"), gq)

    # ---- correspondence ------------------------------------------------------------------------------
    def gen_cases(self, ctx):
        rng = ctx.rng(3)
        cases = []
        for c in ctx.corpus():
            if c.get("kind") in ("expr", "energy"):
                cases.append(dict(c, tree=tuple_tree(c["tree"])))
        ntree = 90 if ctx.quick else 900
        tries = 0
        while len([c for c in cases if c["kind"] == "expr"]) < ntree and tries < ntree * 30:
            tries += 1
            n, K = int(rng.integers(1, 4)), int(rng.integers(1, 4))
            shp = "F" if rng.random() < 0.6 else "S"
            t = gen_tree(rng, int(rng.integers(1, 5)), n, K, shp)
            x = gen_point(rng, n, K)
            if "var" not in kinds(t):
                continue
            if not guarded(t, x, n):
                continue
            cases.append({"kind": "expr", "tree": t, "x": x, "n": n, "K": K})
        nen = 40 if ctx.quick else 400
        tries = 0
        while len([c for c in cases if c["kind"] == "energy"]) < nen and tries < nen * 30:
            tries += 1
            n, K = int(rng.integers(1, 4)), int(rng.integers(1, 4))
            t = gen_energy(rng, int(rng.integers(0, 3)), n, K)
            if tries % 2 == 0:
                t = wrap_lin_arith(rng, t)
            x = gen_point(rng, n, K)
            if "var" not in kinds(t):
                continue
            if not guarded(t, x, n):
                continue
            cases.append({"kind": "energy", "tree": t, "x": x, "n": n, "K": K})
        return cases

    def correspondence(self, ctx, res):
        import nifty.cl as ift
        from nifty.cl import pointwise
        hints = []
        # (a) the translator's reading of NumPy
        n_tie, bad_tie = (0, [])
        if self.entries is not None:
            n_tie, bad_tie = numeric_tie(self.entries, pointwise)
            for b in bad_tie[:3]:
                res.add_broken("correspondence", "translated pointwise entry vs NumPy implementation", b)
                hints.append(("entry", b["entry"]))
        # (b) the algebra
        cases = self.gen_cases(ctx)
        self.cases = cases
        checks, meta = [], []
        for ci, c in enumerate(cases):
            impl = Impl(c["n"], c["K"])
            t, x = c["tree"], c["x"]
            try:
                if c["kind"] == "expr":
                    for om in (True, False):
                        o = impl.observe(t, x, om=om, wm=False)
                        checks.append(coq_check_expr(t, x, c["n"], c["K"], om, o))
                        meta.append((ci, "om=%s" % om))
                else:
                    for wm in (False, True):
                        o = impl.observe(t, x, om=True, wm=wm)
                        checks.append(coq_check_energy(t, x, c["n"], c["K"], wm, o))
                        meta.append((ci, "wm=%s" % wm))
            except Exception as e:      # the implementation raised on a well-formed tree
                checks.append("false")
                meta.append((ci, "raised %s: %s" % (type(e).__name__, str(e)[:200])))
        # MultiLinearEinsum: every permutation of key_order, unequal operand shapes, small integer operands
        rng_e = ctx.rng(303)
        ecases = [c for c in ctx.corpus() if c.get("kind") == "einsum"] + ein_cases(rng_e, 6 if ctx.quick else 30)
        self.ecases = ecases
        for c in ecases:
            cases.append({"kind": "einsum", "tree": ("einsum", c["sub"], "".join(c["key_order"])), "x": [], "n": 0, "K": 0, "ein": c})
            ci = len(cases) - 1
            iss = c["sub"].split("->")[0].split(",")
            vals = [[float(rng_e.integers(-3, 4)) for _ in range(int(np.prod([c["dims"][l] for l in ss])))] for ss in iss]
            try:
                o = ein_observe(c, vals)
                checks.append(ein_coq(c, vals, o))
                meta.append((ci, "einsum key_order=%s" % (c["key_order"],)))
            except Exception as e:
                checks.append("false")
                meta.append((ci, "einsum raised %s: %s" % (type(e).__name__, str(e)[:200])))
        # partial contractions on product domains with non-unit volume elements
        gcases = grid_cases(2 if ctx.quick else len(GRIDS))
        self.gcases = gcases
        for gi, c in enumerate(gcases):
            cases.append({"kind": "contract", "tree": ("contract", c["method"], c["route"]), "x": [], "n": 0, "K": 0, "ein": c})
            ci = len(cases) - 1
            size = int(np.prod([x for sh, _ in GRIDS[c["grid"]] for x in sh]))
            vals = {k: [float(rng_e.integers(-2, 3)) for _ in range(size)] for k in ("a", "b")}
            try:
                checks.append(grid_coq(c, grid_observe(c, vals)))
                meta.append((ci, "contract"))
            except Exception as e:
                checks.append("false")
                meta.append((ci, "contract raised %s: %s" % (type(e).__name__, str(e)[:200])))
        bad = eval_cases_private(self.prop, HEADER, checks)
        for i in bad[:4]:
            ci, how = meta[i]
            c = cases[ci]
            if c["kind"] == "contract":
                res.add_broken("correspondence", "Linearization.sum/integrate(spaces) vs coq/C03/Contract.v", dict(c["ein"], mode=how))
                continue
            if c["kind"] == "einsum":
                res.add_broken("correspondence", "MultiLinearEinsum vs coq/C03/Einsum.v", dict(c["ein"], mode=how))
                continue
            res.add_broken("correspondence", "Linearization algebra vs coq/C03/Model.v",
                           {"kind": c["kind"], "tree": tolist(c["tree"]), "x": c["x"], "n": c["n"], "K": c["K"], "mode": how})
        hints += [("case", meta[i][0]) for i in bad if cases[meta[i][0]]["kind"] not in ("einsum", "contract")]
        hints += [("einsum", cases[meta[i][0]]["ein"]) for i in bad if cases[meta[i][0]]["kind"] == "einsum"]
        nontriv = {json.dumps(tolist(c["tree"])) for c in cases if depth_of(c["tree"]) >= 3 and
                   (kinds(c["tree"]) & {"mul", "vdot", "sq2", "gauss"} or any(k.startswith("ptw:") for k in kinds(c["tree"])))}
        nontriv |= {json.dumps(c["ein"], sort_keys=True) for c in cases if c["kind"] == "einsum" and c["ein"]["key_order"] != sorted(c["ein"]["key_order"])}
        dist = {}
        for c in cases:
            for k in kinds(c["tree"]):
                dist[k] = dist.get(k, 0) + 1
        res.coverage.update({
            "evaluations": len(checks) + n_tie, "distinct_nontrivial": len(nontriv),
            "rule": "random expression/energy trees (depth<=5, 1-3 keys, 1-3 pixels) over the exact pointwise functions, dyadic inputs; "
                    "each tree through both construction routes (expr) or with/without want_metric (energy); plus %d sample evaluations of the "
                    "translated table against NumPy; MultiLinearEinsum with every permutation of key_order over subscripts templates with unequal letter sizes "
                    "(value, Jacobian per operand on every basis tensor, adjoint); non-trivial = depth>=3 containing a product/contraction/pointwise node, "
                    "or an einsum with a non-alphabetical key_order; distinct by tree / einsum case" % n_tie,
            "samples": [{"tree": tolist(c["tree"]), "x": c["x"]} for c in cases[3:6]],
            "input_distribution": dist, "disagreements": len(bad) + len(bad_tie), "table_entries_translated": len(self.entries or []),
            "exhaustive": False,
        })
        return hints

    # ---- oracle ---------------------------------------------------------------------------------------
    def oracle(self, ctx, res, hints, budget):
        from nifty.cl import pointwise
        nev = 0
        # 0. corpus of direct failures
        for c in ctx.corpus():
            if c.get("kind") == "direct":
                nev += 1
                f = run_direct(c)
                if f:
                    res.add_failing(dict(c.get("signature", {}), check=f[0]), f[1], c)
        # 1. every table entry
        for name in list(pointwise.ptw_dict.keys()):
            for args in ENTRY_ARGS.get(name, [[]]):
                for x in ENTRY_POINTS_P.get(name, ENTRY_POINTS.get(name, DEFAULT_SAMPLES)):
                    nev += 1
                    f = entry_fd(pointwise, name, args, x)
                    if f:
                        inp = {"kind": "direct", "what": "entry", "name": name, "args": args, "x": x, "cplx": False}
                        res.add_failing({"fn": "ptw_dict", "entry": name, "check": f[0]}, "ptw_dict[%r] at x=%r: %s" % (name, x, f[1]), inp)
                        break
        for name, args, pred in HOLO_PTW:
            for x in [0.4 + 0.3j, 0.9 - 0.5j, 0.5 + 0.1j]:
                if not pred(x):
                    continue
                nev += 1
                f = entry_fd(pointwise, name, args, x, cplx=True)
                if f:
                    inp = {"kind": "direct", "what": "entry", "name": name, "args": args, "x": [x.real, x.imag], "cplx": True}
                    res.add_failing({"fn": "ptw_dict", "entry": name, "check": f[0], "complex": True},
                                    "ptw_dict[%r] at complex x=%r: %s" % (name, x, f[1]), inp)
                    break
        # 2. the exact correspondence cases, directly (value, FD, adjoint, metric)
        rng = ctx.rng(33)
        todo = list(range(len(self.cases)))
        hint_cases = [h[1] for h in hints if h[0] == "case"]
        order = hint_cases + [i for i in todo if i not in set(hint_cases)]
        lim = (40 if ctx.quick else 300) * budget
        for ci in order[:lim]:
            c = self.cases[ci]
            if c["kind"] in ("einsum", "contract"):
                continue
            if "ptw:power" in kinds(c["tree"]) and any(abs(v) < 1e-9 for row in c["x"] for v in row):
                continue
            inp = {"kind": "direct", "what": "tree", "tree": tolist(c["tree"]), "x": c["x"], "n": c["n"], "K": c["K"], "cplx": False,
                   "dirs": [[[float(rng.normal()) for _ in range(c["n"])] for _ in range(c["K"])] for _ in range(2)]}
            if not exact_tree_fd_ok(c["tree"], c["x"], c["n"]):
                continue
            for om in ([True, False] if c["kind"] == "expr" else [True]):
                for wm in ([False] if c["kind"] == "expr" else [False, True]):
                    nev += 1
                    f = run_direct(dict(inp, om=om, wm=wm))
                    if f:
                        res.add_failing({"fn": "Operator.__call__(Linearization)", "check": f[0], "route": "operator" if om else "linearization"},
                                        f[1], dict(inp, om=om, wm=wm))
            if len(res.failing) >= 3:
                break
        # 2a. MultiLinearEinsum, every key_order, random float operands
        for ei, c in enumerate([h[1] for h in hints if h[0] == "einsum"] + list(getattr(self, "ecases", []))):
            nev += 1
            inp = {"kind": "direct", "what": "einsum", "ein": c, "seed": ctx.seed * 100 + ei}
            try:
                f = run_direct(inp)
            except Exception as e:
                f = ("raised", "%s: %s" % (type(e).__name__, str(e)[:300]))
            if f:
                res.add_failing({"fn": "MultiLinearEinsum", "check": f[0], "key_order_sorted": c["key_order"] == sorted(c["key_order"])}, f[1], inp)
        # 2a''. partial contractions on product domains (sum / integrate over sub-spaces), float values
        for gi, c in enumerate(getattr(self, "gcases", [])):
            nev += 1
            inp = {"kind": "direct", "what": "contract", "ein": c, "seed": ctx.seed * 100 + gi}
            try:
                f = run_direct(inp)
            except Exception as e:
                f = ("raised", "%s: %s" % (type(e).__name__, str(e)[:300]))
            if f:
                res.add_failing({"fn": "Linearization.%s" % c["method"] if c["route"] == "linearization" else "Operator.%s" % c["method"],
                                 "check": f[0], "spaces": c["spaces"]}, f[1], inp)
        # 2a0. non-square Linearizations: key extraction / insertion / transpose; jax adjoint with a real cotangent
        for which in ("ducktape_left", "getitem", "transpose", "jax_real_cotangent"):
            nev += 1
            inp = {"kind": "direct", "what": "nonsquare", "which": which, "seed": ctx.seed}
            for f in nonsquare_direct(inp):
                fn = "JaxLinearOperator" if which == "jax_real_cotangent" else "Linearization"
                res.add_failing({"fn": fn, "check": "real_cotangent" if fn == "JaxLinearOperator" else "nonsquare", "method": which},
                                "%s on a non-square Linearization: %s" % (which, f[1]) if fn == "Linearization" else
                                "adjoint of a complex-valued JaxOperator for a real cotangent: %s" % f[1], inp)
        # 2a1. single-field Linearization differences (SumOperator with neg flags), complex metric pull-back, outer
        leads = ["matrix", "smooth", "identity", "diag"]
        names = ["sin", "tanh", "exp", "arctan", "sigmoid"]
        for li in range((8 if ctx.quick else 40) * budget):
            nterms = 2 + li % 2
            terms = [[bool((li >> j) & 1) if li % 4 else True, names[(li + j) % len(names)]] for j in range(nterms)]
            inp = {"kind": "direct", "what": "linsub", "n": 4 + li % 3, "seed": ctx.seed * 100 + li, "lead": leads[li % 4], "terms": terms}
            nev += 1
            try:
                f = run_direct(inp)
            except Exception as e:
                f = ("raised", "%s: %s" % (type(e).__name__, str(e)[:300]))
            if f:
                res.add_failing({"fn": "Linearization._myadd", "check": f[0], "lead": inp["lead"]}, f[1], inp)
        for mi in range((6 if ctx.quick else 24) * budget):
            cfac = [(0.6, 0.8), (0.0, 1.0), (-1.5, 0.5), (2.0, 0.0), (-0.5, 0.0), (1.0, 1.0)][mi % 6]
            inp = {"kind": "direct", "what": "cmetric", "n": 2 + mi % 2, "seed": ctx.seed * 100 + mi, "c": list(cfac), "form": ["chain", "linmul", "holo"][mi % 3]}
            nev += 1
            try:
                f = run_direct(inp)
            except Exception as e:
                f = ("raised", "%s: %s" % (type(e).__name__, str(e)[:300]))
            if f:
                res.add_failing({"fn": "SandwichOperator.make", "check": f[0], "complex_factor": cfac[1] != 0.0}, f[1], inp)
        nev += 1
        f = outer_direct({"seed": ctx.seed})
        if f:
            res.add_failing({"fn": "Linearization.outer", "check": "outer"}, "Linearization.outer(field): %s" % f[1],
                            {"kind": "direct", "what": "outer", "seed": ctx.seed})
        # 2a'. JaxOperator: single use and call histories (linearize at x1, at x2, then use J1)
        for ji in range((4 if ctx.quick else 16) * budget):
            nev += 1
            inp = {"kind": "direct", "what": "jax", "n": 2 + ji % 3, "seed": ctx.seed * 100 + ji, "func": ji, "compose": ji % 2 == 1}
            try:
                f = run_direct(inp)
            except Exception as e:
                f = ("raised", "%s: %s" % (type(e).__name__, str(e)[:300]))
            if f:
                res.add_failing({"fn": "JaxOperator", "check": f[0]}, f[1], inp)
        # 2b. fixed probes: real / imaginary part / conjugate taken on complex Linearizations (both routes)
        for pi, t in enumerate(COMPLEX_PROBES):
            n, K = 2, 2
            x = [[complex(rng.uniform(-1, 1), rng.uniform(-1, 1)) for _ in range(n)] for _ in range(K)]
            dirs = [[[complex(rng.normal(), rng.normal()) for _ in range(n)] for _ in range(K)] for _ in range(2)]
            for om in (True, False):
                inp = {"kind": "direct", "what": "tree", "tree": enc(t), "x": enc(x), "n": n, "K": K, "cplx": True,
                       "dirs": enc(dirs), "om": om, "wm": False}
                nev += 1
                try:
                    f = run_direct(inp)
                except Exception as e:
                    f = ("raised", "%s: %s" % (type(e).__name__, str(e)[:300]))
                if f:
                    res.add_failing({"fn": "Operator.__call__(Linearization)", "check": f[0], "route": "operator" if om else "linearization",
                                     "complex": True}, f[1], inp)
        # 3. random float trees over the whole table, real and complex, and energies
        ntrees = (25 if ctx.quick else 250) * budget
        for it in range(ntrees):
            if len(res.failing) >= 3:
                break
            cplx = (it % 5 == 4)
            n, K = int(rng.integers(1, 4)), int(rng.integers(1, 4))
            impl = Impl(n, K, np.complex128 if cplx else np.float64)
            x = [[(complex(rng.uniform(-1.5, 1.5), rng.uniform(-1.5, 1.5)) if cplx else float(rng.uniform(-2, 2))) for _ in range(n)] for _ in range(K)]
            g = FloatGen(rng, impl, x, HOLO_PTW if cplx else FLOAT_PTW, cplx)
            try:
                t = g.gen(int(rng.integers(1, 5)), "F" if rng.random() < 0.6 else "S")
            except (FloatingPointError, ValueError, TypeError):
                continue
            if "var" not in kinds(t):
                continue
            energy = (not cplx) and it % 3 == 0
            if energy:
                m = n if shape(t) == "F" else 1
                t = ("gauss", [float(rng.normal()) for _ in range(m)], [float(rng.uniform(0.5, 2)) for _ in range(m)], t)
                if it % 2 == 0:
                    t = ("eadd", ("escale", float(rng.choice([0.5, 2.0, 3.0])), t), ("gauss", None, None, ("var", int(rng.integers(0, K)))))
                if it % 4 < 2:
                    t = wrap_lin_arith(rng, t)
            pts = [x]
            for _ in range(2):
                x2 = [[v + (complex(rng.normal(), rng.normal()) if cplx else float(rng.normal())) * 0.02 for v in row] for row in x]
                if g.valid_at(x2):
                    pts.append(x2)
            for xp in pts:
                dirs = [[[(complex(rng.normal(), rng.normal()) if cplx else float(rng.normal())) for _ in range(n)] for _ in range(K)] for _ in range(2)]
                for om in ([True, False] if not energy else [True]):
                    for wm in ([False, True] if energy else [False]):
                        inp = {"kind": "direct", "what": "tree", "tree": enc(t), "x": enc(xp), "n": n, "K": K, "cplx": cplx,
                               "dirs": enc(dirs), "om": om, "wm": wm}
                        nev += 1
                        try:
                            f = run_direct(inp)
                        except Exception as e:
                            f = ("raised", "%s: %s" % (type(e).__name__, str(e)[:300]))
                        if f:
                            res.add_failing({"fn": "Operator.__call__(Linearization)", "check": f[0], "route": "operator" if om else "linearization",
                                             "complex": cplx}, f[1], inp)
        res.coverage["impl_property_evaluations"] = nev

    def replay(self, ctx, rp):
        f = run_direct(rp["input"])
        if f:
            print("  still fails: %s: %s" % f)
        return f is not None


def enc(x):
    """complex numbers -> [re, im] pairs for JSON."""
    if isinstance(x, complex):
        return {"re": x.real, "im": x.imag}
    if isinstance(x, (list, tuple)):
        return [enc(v) for v in x]
    if isinstance(x, np.generic):
        return enc(x.item())
    return x


def dec(x):
    if isinstance(x, dict) and "re" in x:
        return complex(x["re"], x["im"])
    if isinstance(x, list):
        return [dec(v) for v in x]
    return x


def tuple_tree(t):
    if isinstance(t, list) and t and isinstance(t[0], str):
        return tuple(tuple_tree(x) for x in t)
    return t


def exact_tree_fd_ok(t, x, n):
    """FD needs the pointwise functions away from their kinks: every clip/abs/sign/unitstep argument of the
    exact tree must be at distance >= 1/2 from a kink (arguments are dyadic with denominator <= 8)."""
    try:
        _kink_ok(t, x, n)
        return True
    except NotExact:
        return False


def _kink_ok(t, x, n):
    if t[0] == "ptw":
        vals = ref(t[3], x, n)
        if t[1] in ("abs", "absolute", "sign", "unitstep", "reciprocal"):
            kinks = [Fraction(0)]
        elif t[1] == "clip":
            kinks = [Fraction(t[2][0]), Fraction(t[2][1])]
        elif t[1] == "power" and int(t[2][0]) < 0:
            kinks = [Fraction(0)]
        else:
            kinks = []
        for v in vals:
            if any(abs(v - kk) < Fraction(1, 4) for kk in kinks):
                raise NotExact
    for s in t[1:]:
        if isinstance(s, (tuple, list)) and s and isinstance(s[0], str):
            _kink_ok(s, x, n)


def run_direct(inp):
    """Re-evaluates one direct check from its JSON description.  Returns None or (check, detail)."""
    from nifty.cl import pointwise
    if inp["what"] == "einsum":
        return ein_direct(inp["ein"], inp.get("seed", 0))
    if inp["what"] == "linsub":
        import contextlib
        import io
        with contextlib.redirect_stdout(io.StringIO()):     # MatrixProductOperator.apply prints a debug value
            return linsub_direct(inp)
    if inp["what"] == "cmetric":
        return cmetric_direct(inp)
    if inp["what"] == "outer":
        return outer_direct(inp)
    if inp["what"] == "nonsquare":
        f = nonsquare_direct(inp)
        return f[0] if f else None
    if inp["what"] == "jax":
        return jax_direct(inp)
    if inp["what"] == "contract":
        return grid_direct(inp["ein"], inp.get("seed", 0))
    if inp["what"] == "entry":
        x = complex(*inp["x"]) if inp.get("cplx") else inp["x"]
        return entry_fd(pointwise, inp["name"], inp["args"], x, cplx=bool(inp.get("cplx")))
    cplx = bool(inp.get("cplx"))
    impl = Impl(inp["n"], inp["K"], np.complex128 if cplx else np.float64)
    t = tuple_tree(dec(inp["tree"]))
    with np.errstate(all="ignore"):
        return fd_check(impl, t, dec(inp["x"]), dec(inp["dirs"]), wm=bool(inp.get("wm")), om=bool(inp.get("om", True)))


CHECK = C03()
