"""C05 -- Operator-tree optimisation preserves semantics.

Technique: TRANSLATION VALIDATION with a proved validator.  `optimise_operator` is run on generated operator
DAGs (sums / products / chains with the SAME Python object reused as shared leaf prefix or shared subtree);
the original and the optimised object graphs are exported (leaves named by id() of the original objects, the
optimiser's deep copy is mapped back through the deepcopy memo) and the Coq validator `equivb` (symbolic
execution that inlines every definition plugged in by `partial_insert`, then syntactic comparison) is run on
the pair by vm_compute.  Coq theorem: equivb o p = true -> equal value (and tangent) for every interpretation
of the leaves and every input.
Direct oracle (implementation only): same domain/target, values, Jacobian (TIMES on random directions,
ADJOINT_TIMES on random cotangents) of original vs optimised at many random points."""
import copy
import json

import numpy as np

from .. import common as C

PROP = "C05"


def eval_cases_private(prop, header, checks):
    """C.eval_cases with scratch file names that are unique per process (concurrent runs of the same check, e.g.
    against different VERIF_REPO trees, must not overwrite each other's cases files); files removed afterwards."""
    import glob
    import os
    name = "corr_p%d" % os.getpid()
    try:
        return C.eval_cases(prop, name, header, checks)
    finally:
        for fn in glob.glob(os.path.join(C.run_dir(prop), "*cases_%s_*" % name)):
            try:
                os.remove(fn)
            except OSError:
                pass

TOTAL_PTW = ["tanh", "sin", "cos", "sigmoid", "arctan", "exp", "softplus", "sinc"]


# ======================================================================================================
# generation of operator DAGs
# ======================================================================================================
# A DAG is a list of node descriptions; node i may refer to nodes j < i (the SAME object is reused):
#   ["var", key] ["ptw", name, j] ["adder", [values], j] ["scale", c, j] ["diag", [values], j] ["sum", j, k] ["prod", j, k]
#   ["app", i, j]: the operator INSTANCE number i of the case's "insts" list (["ptw", name] / ["adder", [values]])
#                  applied to node j -- the same instance may be applied to several different nodes / input keys
# The last node is the root.

def gen_insts(rng, n):
    out = []
    for _ in range(int(rng.integers(1, 4))):
        if rng.random() < 0.7:
            out.append(["ptw", TOTAL_PTW[int(rng.integers(0, len(TOTAL_PTW)))]])
        else:
            out.append(["adder", [float(rng.uniform(-1, 1)) for _ in range(n)]])
    return out


def gen_dag(rng, n, keys, size, linear_ok=False, insts=()):
    """linear_ok=False: only nonlinear unary operators (pointwise functions, Adder).  With linear ones (scaling,
    diagonal) a shared definition can be a purely linear chain, for which `FieldAdapter.adjoint(def) + identity` is
    built from NEW simplified ChainOperator/SumOperator objects (scalings commuted and merged) that have no
    counterpart in the original graph; such cases are checked by the direct oracle only."""
    nodes = [["var", k] for k in keys]
    linear = [True] * len(keys)          # FieldAdapters: never combined directly (they would form linear
    nonlin = []                          # SumOperator/ChainOperator leaves, which the optimiser ignores)
    lin_nodes = []
    for _ in range(size):
        r = int(rng.integers(0, 10))
        if linear_ok and rng.random() < 0.15:
            # a LINEAR operator object (diagonal @ FieldAdapter: a ChainOperator, a bare leaf for the optimiser) that can
            # be used as it is in sums/products and wrapped into non-linear chains
            nodes.append(["dlin", [float(rng.uniform(0.5, 1.5)) for _ in range(n)], int(rng.integers(0, len(keys)))])
            linear.append(True)
            lin_nodes.append(len(nodes) - 1)
            continue
        if insts and rng.random() < 0.35:
            # one operator instance on (possibly) several inputs: prefer the FieldAdapters as arguments
            j = int(rng.integers(0, len(keys))) if rng.random() < 0.7 else int(rng.integers(0, len(nodes)))
            nodes.append(["app", int(rng.integers(0, len(insts))), j])
            linear.append(False)
            nonlin.append(len(nodes) - 1)
            continue
        if r in (3, 4) and not linear_ok:
            r = int(rng.integers(0, 3))
        if not nonlin or r < 3:
            j = int(rng.integers(0, len(nodes)))
            if r % 2 == 0 or linear[j]:
                nodes.append(["ptw", TOTAL_PTW[int(rng.integers(0, len(TOTAL_PTW)))], j])
            else:
                nodes.append(["adder", [float(rng.uniform(-1, 1)) for _ in range(n)], j])
        elif r == 3:
            j = nonlin[int(rng.integers(0, len(nonlin)))]
            nodes.append(["scale", float(rng.choice([2.0, -0.5, 1.5])), j])
        elif r == 4:
            j = nonlin[int(rng.integers(0, len(nonlin)))]
            nodes.append(["diag", [float(rng.uniform(0.5, 1.5)) for _ in range(n)], j])
        else:
            j = nonlin[int(rng.integers(0, len(nonlin)))]
            # reuse: with probability 1/3 the same object on both sides, else prefer recent nodes
            k = j if rng.random() < 0.33 else nonlin[int(rng.integers(max(0, len(nonlin) - 4), len(nonlin)))]
            if lin_nodes and rng.random() < 0.4:
                # a bare linear operand next to a non-linear one (either side)
                ln = lin_nodes[int(rng.integers(0, len(lin_nodes)))]
                j, k = (ln, k) if rng.random() < 0.5 else (j, ln)
            nodes.append(["sum" if r < 8 else "prod", j, k])
        linear.append(False)
        nonlin.append(len(nodes) - 1)
    return nodes


def build(ift, dom, nodes, insts=()):
    """Instantiate the DAG: every node is ONE Python object (shared when referenced twice)."""
    from nifty.cl.operators.operator import _FunctionApplier
    iobj = [(_FunctionApplier(dom, i[1]) if i[0] == "ptw" else ift.Adder(ift.Field.from_raw(dom, np.array(i[1])))) for i in insts]
    objs = []
    for nd in nodes:
        k = nd[0]
        if k == "app":
            objs.append(iobj[nd[1]] @ objs[nd[2]])
            continue
        if k == "dlin":
            o = ift.makeOp(ift.Field.from_raw(dom, np.array(nd[1]))) @ objs[nd[2]]
        elif k == "var":
            o = ift.FieldAdapter(dom, nd[1])
        elif k == "ptw":
            o = objs[nd[2]].ptw(nd[1])
        elif k == "adder":
            o = ift.Adder(ift.Field.from_raw(dom, np.array(nd[1]))) @ objs[nd[2]]
        elif k == "scale":
            o = objs[nd[2]].scale(nd[1])
        elif k == "diag":
            o = ift.makeOp(ift.Field.from_raw(dom, np.array(nd[1]))) @ objs[nd[2]]
        elif k == "sum":
            o = objs[nd[1]] + objs[nd[2]]
        elif k == "prod":
            o = objs[nd[1]] * objs[nd[2]]
        else:
            raise ValueError(k)
        objs.append(o)
    return objs[-1]


def used_keys(nodes):
    seen, stack = set(), [len(nodes) - 1]
    ks = set()
    while stack:
        i = stack.pop()
        if i in seen:
            continue
        seen.add(i)
        nd = nodes[i]
        if nd[0] == "var":
            ks.add(nd[1])
        else:
            stack += [x for x in nd[1:] if isinstance(x, int)] if nd[0] in ("sum", "prod") else [nd[-1]]
    return sorted(ks)


def sharing(nodes):
    """how many nodes are referenced more than once from the part reachable from the root"""
    cnt = {}
    seen, stack = set(), [len(nodes) - 1]
    while stack:
        i = stack.pop()
        if i in seen:
            continue
        seen.add(i)
        nd = nodes[i]
        ch = [x for x in nd[1:] if isinstance(x, int)] if nd[0] in ("sum", "prod") else ([nd[-1]] if nd[0] != "var" else [])
        for c in ch:
            cnt[c] = cnt.get(c, 0) + 1
            stack.append(c)
    return sum(1 for i, c in cnt.items() if c > 1 and nodes[i][0] != "var")


# ======================================================================================================
# running the optimiser and exporting object graphs
# ======================================================================================================

class ExportError(Exception):
    pass


def optimise(op):
    """optimise_operator(op) with the memo of its internal deepcopy recorded (monkeypatched at run time in
    the harness process only)."""
    import nifty.cl.operator_tree_optimiser as oto
    store = {}

    def dc(x):
        memo = {}
        r = copy.deepcopy(x, memo)
        store["memo"] = memo
        return r

    old = oto.deepcopy
    oto.deepcopy = dc
    try:
        opt = oto.optimise_operator(op)
    finally:
        oto.deepcopy = old
    memo = store.get("memo", {})
    inv = {id(v): k for k, v in memo.items() if not isinstance(v, (int, float, str, tuple, type(None)))}
    return opt, inv


class Exporter:
    def __init__(self):
        self.keys = {}     # key string -> N
        self.leaves = {}   # id of the ORIGINAL leaf object -> N
        self.keep = []     # keep objects alive so that id() stays unique

    def key(self, s):
        if s not in self.keys:
            self.keys[s] = len(self.keys) + 1
        return self.keys[s]

    def export(self, op, inv=None):
        from nifty.cl.multi_domain import MultiDomain
        from nifty.cl.operators.block_diagonal_operator import BlockDiagonalOperator
        from nifty.cl.operators.operator import _OpChain, _OpProd, _OpSum
        from nifty.cl.operators.operator_adapter import OperatorAdapter
        from nifty.cl.operators.scaling_operator import ScalingOperator
        from nifty.cl.operators.simple_linear_operators import FieldAdapter
        self.keep.append(op)
        if isinstance(op, _OpSum):
            return ["sum", self.export(op._op1, inv), self.export(op._op2, inv)]
        if isinstance(op, _OpProd):
            return ["prod", self.export(op._op1, inv), self.export(op._op2, inv)]
        if isinstance(op, _OpChain):
            return ["chain", [self.export(o, inv) for o in op._ops]]
        fa = op._op if isinstance(op, OperatorAdapter) else op
        if isinstance(fa, FieldAdapter):
            dm, tm = isinstance(op.domain, MultiDomain), isinstance(op.target, MultiDomain)
            if dm and not tm and len(op.domain.keys()) == 1:
                return ["var", self.key(op.domain.keys()[0])]
            if tm and not dm and len(op.target.keys()) == 1:
                return ["bind", self.key(op.target.keys()[0])]
            raise ExportError("FieldAdapter of unexpected shape")
        if isinstance(op, BlockDiagonalOperator) and all(isinstance(o, ScalingOperator) and o._factor == 1 for o in op._ops):
            return ["id", [self.key(k) for k in op.domain.keys()]]
        if isinstance(op, ScalingOperator) and op._factor == 1 and isinstance(op.domain, MultiDomain):
            return ["id", [self.key(k) for k in op.domain.keys()]]
        if isinstance(op.domain, MultiDomain) or isinstance(op.target, MultiDomain):
            raise ExportError("opaque operator %s on a MultiDomain" % type(op).__name__)
        oid = id(op) if inv is None else inv.get(id(op))
        if oid is None:
            raise ExportError("operator %s of the optimised graph is not a copy of an original operator" % type(op).__name__)
        if oid not in self.leaves:
            self.leaves[oid] = len(self.leaves) + 1
        return ["leaf", self.leaves[oid]]


def cg(t):
    k = t[0]
    if k == "sum":
        return "(GSum %s %s)" % (cg(t[1]), cg(t[2]))
    if k == "prod":
        return "(GProd %s %s)" % (cg(t[1]), cg(t[2]))
    if k == "chain":
        return "(gchain %s)" % C.clist([cg(x) for x in t[1]])
    if k == "var":
        return "(GVar %d%%N)" % t[1]
    if k == "bind":
        return "(GBind %d%%N)" % t[1]
    if k == "id":
        return "(GId %s)" % C.clist(["%d%%N" % x for x in t[1]])
    if k == "leaf":
        return "(GLeaf %d%%N)" % t[1]
    raise ValueError(k)


HEADER = "From Coq Require Import List NArith. Import ListNotations.\nRequire Import NV.C05.Model.\n"


# ======================================================================================================
# the property, directly on the implementation
# ======================================================================================================

def compare(ift, op, opt, dom, keys, rng, npoints):
    """None or (check, detail, point)"""
    if opt.domain is not op.domain and opt.domain != op.domain:
        return ("domain", "domain of the optimised operator is %r, original %r" % (list(opt.domain.keys()), list(op.domain.keys())), None)
    if opt.target is not op.target and opt.target != op.target:
        return ("target", "target of the optimised operator differs", None)
    for _ in range(npoints):
        x = {k: rng.normal(size=dom.shape) * float(rng.choice([0.3, 1.0, 2.0])) for k in keys}
        X = ift.MultiField.from_dict({k: ift.Field.from_raw(dom, v) for k, v in x.items()}).extract(op.domain)
        pt = {k: v.tolist() for k, v in x.items()}
        with np.errstate(all="ignore"):
            a, b = op(X).asnumpy(), opt(X).asnumpy()
            if not (np.all(np.isfinite(a)) and np.max(np.abs(a)) < 1e100):
                continue
            sc = 1.0 + float(np.max(np.abs(a)))
            if not np.allclose(a, b, rtol=1e-9, atol=1e-9 * sc):
                return ("value", "optimised value %r differs from the original %r" % (b.tolist(), a.tolist()), pt)
            la, lb = op(ift.Linearization.make_var(X)), opt(ift.Linearization.make_var(X))
            d = ift.MultiField.from_dict({k: ift.Field.from_raw(dom, rng.normal(size=dom.shape)) for k in op.domain.keys()}, domain=op.domain)
            ja, jb = la.jac(d).asnumpy(), lb.jac(d).asnumpy()
            js = 1.0 + float(np.max(np.abs(ja)))
            if not np.allclose(ja, jb, rtol=1e-9, atol=1e-9 * js):
                return ("jacobian", "J.d of the optimised operator %r differs from the original %r" % (jb.tolist(), ja.tolist()), pt)
            y = ift.Field.from_raw(op.target, rng.normal(size=op.target.shape))
            ga, gb = la.jac.adjoint_times(y).asnumpy(), lb.jac.adjoint_times(y).asnumpy()
            for k in ga:
                gs = 1.0 + float(np.max(np.abs(ga[k])))
                if not np.allclose(ga[k], gb[k], rtol=1e-9, atol=1e-9 * gs):
                    return ("jacobian_adjoint", "J^T.y of the optimised operator differs from the original (key %s)" % k, pt)
    return None


def run_case(case, npoints, seed):
    """build, optimise, compare.  Returns (failure|None, export info)"""
    import nifty.cl as ift
    n, keys, nodes = case["n"], case["keys"], case["nodes"]
    dom = ift.DomainTuple.make(ift.UnstructuredDomain(n))
    op = build(ift, dom, nodes, case.get("insts", ()))
    rng = np.random.default_rng([seed, 55])
    with ift.random.Context(int(seed) + 17):
        try:
            opt, inv = optimise(op)
        except AssertionError as e:
            return ("selfcheck", "optimise_operator's own check failed: %s" % str(e)[:200], None), None
        except Exception as e:
            return ("raised:" + type(e).__name__, "optimise_operator raised %s: %s" % (type(e).__name__, str(e)[:200]), None), None
    f = compare(ift, op, opt, dom, used_keys(nodes), rng, npoints)
    return f, (op, opt, inv)


class C05(C.Check):
    prop = PROP
    coq_dir = "C05"
    level = "translation_validation"
    trusted_base = [
        "Coq 8.16.1 kernel (coqc; vm_compute for the per-run validation); the C05 theorems are axiom free",
        "harness/props/c05.py exporter: class-based reading of the object graphs (_OpSum/_OpProd/_OpChain structural, FieldAdapter and its adjoint, identity BlockDiagonal; every other operator an opaque field->field leaf named by the id() of the ORIGINAL object through the deepcopy memo)",
        "the concrete semantics coq/C05/Model.v `eval` as the meaning of _OpSum (add / unite), _OpProd, _OpChain, FieldAdapter, FieldAdapter.adjoint, identity_operator -- itself tied to the implementation by C03's correspondence for sums/products/chains, and by this check's direct oracle",
        "run-time monkeypatch of nifty.cl.operator_tree_optimiser.deepcopy (in the harness process only) to record the deepcopy memo",
    ]
    assumptions = [
        "leaves are field -> field operators compared by object identity (as the optimiser does); linear SumOperator/ChainOperator leaves on MultiDomains are not generated (the optimiser does not look into them)",
        "per-run certificate: the theorem is about the validator, not about the optimiser for all inputs",
    ]

    def __init__(self):
        self.cases = []

    def gen_cases(self, ctx):
        rng = ctx.rng(5)
        cases = [c for c in ctx.corpus() if c.get("kind") == "dag"]
        want = 160 if ctx.quick else 800
        tries = 0
        while len(cases) < want + len([c for c in ctx.corpus() if c.get("kind") == "dag"]) and tries < want * 20:
            tries += 1
            n = int(rng.integers(1, 4))
            keys = ["a", "b", "c"][:int(rng.integers(1, 4))]
            insts = gen_insts(rng, n) if tries % 2 == 0 else []
            nodes = gen_dag(rng, n, keys, int(rng.integers(4, 14)), insts=insts)
            if nodes[-1][0] not in ("sum", "prod") and rng.random() < 0.7:
                continue
            cases.append({"kind": "dag", "n": n, "keys": keys, "nodes": nodes, "insts": insts})
        return cases

    def gen_linear_cases(self, ctx, want):
        rng = ctx.rng(55)
        out = []
        while len(out) < want:
            n = int(rng.integers(1, 4))
            keys = ["a", "b", "c"][:int(rng.integers(1, 4))]
            insts = gen_insts(rng, n) if len(out) % 2 == 0 else []
            nodes = gen_dag(rng, n, keys, int(rng.integers(4, 14)), linear_ok=True, insts=insts)
            if nodes[-1][0] in ("sum", "prod") and any(nd[0] in ("scale", "diag", "dlin") for nd in nodes):
                out.append({"kind": "dag", "n": n, "keys": keys, "nodes": nodes, "insts": insts})
        return out

    def correspondence(self, ctx, res):
        import warnings
        warnings.filterwarnings("ignore")
        cases = self.gen_cases(ctx)
        self.cases = cases
        checks, meta, skipped, changed = [], [], 0, 0
        self.results = {}
        for ci, c in enumerate(cases):
            f, objs = run_case(c, 3, ctx.seed * 1000 + ci)
            self.results[ci] = f
            if objs is None:
                checks.append("false")
                meta.append((ci, f[1]))
                continue
            op, opt, inv = objs
            ex = Exporter()
            try:
                go = ex.export(op)
                gp = ex.export(opt, inv)
            except ExportError as e:
                skipped += 1
                checks.append("false")
                meta.append((ci, "export: %s" % e))
                continue
            ks = C.clist(["%d%%N" % ex.key(k) for k in op.domain.keys()])
            if json.dumps(go) != json.dumps(gp):
                changed += 1
            checks.append("equivb %s %s %s" % (ks, cg(go), cg(gp)))
            meta.append((ci, "validator"))
        bad = eval_cases_private(self.prop, HEADER, checks)
        for i in bad[:4]:
            ci, how = meta[i]
            res.add_broken("correspondence", "validator rejects (original, optimised)" if how == "validator" else how,
                           {"case": cases[ci], "how": how})
        nontriv = {json.dumps(c["nodes"]) for c in cases if sharing(c["nodes"]) >= 1}
        res.coverage.update({
            "evaluations": len(checks), "distinct_nontrivial": len(nontriv),
            "rule": "random operator DAGs (4-13 construction steps over 1-3 keys, 1-3 pixels; pointwise functions, Adder, scaling, diagonal "
                    "operators, sums and products) in which Python objects are reused; non-trivial = at least one non-leaf node referenced more than once; "
                    "distinct by DAG description; per DAG: validator verdict on (exported original, exported optimised)",
            "samples": [c["nodes"] for c in cases[1:3]],
            "input_distribution": {"graphs_changed_by_the_optimiser": changed, "export_unsupported": skipped,
                                   "one_instance_on_two_keys": sum(1 for c in cases if multi_key_instance(c)),
                                   "shared_nodes_histogram": _hist([sharing(c["nodes"]) for c in cases])},
            "disagreements": len(bad), "exhaustive": False,
        })
        return [meta[i][0] for i in bad]

    def oracle(self, ctx, res, hints, budget):
        import warnings
        warnings.filterwarnings("ignore")
        nev = 0
        for c in ctx.corpus():
            if c.get("kind") == "direct":
                nev += 1
                f, _ = run_case(c, c.get("npoints", 10), c.get("seed", 0))
                if f:
                    res.add_failing(sig(f), f[1], c)
        order = list(hints) + [i for i in range(len(self.cases)) if i not in set(hints)]
        lim = (80 if ctx.quick else 500) * budget
        allcases = list(self.cases) + self.gen_linear_cases(ctx, (120 if ctx.quick else 600) * budget)
        order = order[:lim] + list(range(len(self.cases), len(allcases)))
        for ci in order:
            c = allcases[ci]
            nev += 1
            f, _ = run_case(c, 8 * budget, ctx.seed * 1000 + ci + 500000)
            if f is None and self.results.get(ci) is not None:
                f = self.results[ci]
            if f:
                res.add_failing(sig(f), f[1],
                                dict(c, kind="direct", npoints=8 * budget, seed=ctx.seed * 1000 + ci + 500000, point=f[2]))
                if len(res.failing) >= 3:
                    break
        res.coverage["impl_property_evaluations"] = nev

    def replay(self, ctx, rp):
        c = rp["input"]
        f, _ = run_case(c, c.get("npoints", 10), c.get("seed", 0))
        if f:
            print("  still fails: %s: %s" % (f[0], f[1]))
        return f is not None


def multi_key_instance(c):
    """some operator instance is applied directly to two different FieldAdapters"""
    seen = {}
    for nd in c["nodes"]:
        if nd[0] == "app" and c["nodes"][nd[2]][0] == "var":
            seen.setdefault(nd[1], set()).add(c["nodes"][nd[2]][1])
    return any(len(v) > 1 for v in seen.values())


def sig(f):
    if f[0].startswith("raised:"):
        return {"fn": "optimise_operator", "check": "raised", "error": f[0][7:]}
    return {"fn": "optimise_operator", "check": f[0]}


def _hist(xs):
    h = {}
    for x in xs:
        h[str(x)] = h.get(str(x), 0) + 1
    return h


CHECK = C05()
