"""C10 -- Power distribution and power analysis are exact on binned spectra.

Tie: hand model coq/C10/Model.v (generic in the scalar field, instantiated at Qc in coq/C10/Corr.v)
+ correspondence: the real PowerDistributor / DOFDistributor / power_analyze / create_power_operator
are run on generated product domains (RG harmonic 1-D/2-D, LM partners; natural, custom, linear and
logarithmic binnings; passive sub-domains with scalar and per-pixel volumes) with integer-valued
fields; gather / scatter-add / power-operator outputs are compared EXACTLY, analysis outputs (one
rounded reciprocal per weight) within 2^-40 relative, exceptions as None -- all inside coqc.
Direct oracle: NumPy take / add.at bin sums and means on the implementation, adjointness by exact
integer inner products, exactness on |f|^2 = distribute(p), phase split adds up."""
import json
import os
from fractions import Fraction

import numpy as np

from .. import common as C

HEADER = ("From Coq Require Import List Arith Bool ZArith QArith Qcanon.\nImport ListNotations.\n"
          "Require Import NV.C10.Model NV.C10.Corr.\nOpen Scope Q_scope.\n")


# ---------------------------------------------------------------------------------------------------
# domains from JSON-able specs
# ---------------------------------------------------------------------------------------------------

def mk_space(s):
    import nifty.cl as ift
    from nifty.cl.domains.dof_space import DOFSpace
    k = s[0]
    if k == "rg":
        return ift.RGSpace(tuple(s[1]), distances=tuple(s[2]), harmonic=bool(s[3]))
    if k == "lm":
        return ift.LMSpace(int(s[1]), int(s[2]))
    if k == "gl":
        return ift.GLSpace(int(s[1]))
    if k == "hp":
        return ift.HPSpace(int(s[1]))
    if k == "power":
        return ift.PowerSpace(mk_space(s[1]), None if s[2] is None else tuple(s[2]))
    if k == "dof":
        return DOFSpace(np.array(s[1], dtype=np.float64))
    if k == "unstructured":
        return ift.UnstructuredDomain(int(s[1]))
    raise ValueError(k)


def mk_domain(specs):
    import nifty.cl as ift
    return ift.DomainTuple.make(tuple(mk_space(s) for s in specs))


def space_desc(sp):
    """(size, scalar volume | per-pixel volumes | None) of a NIFTy domain, as floats."""
    sd = getattr(sp, "scalar_dvol", None)
    if sd is not None:
        return [int(sp.size), "S", float(sd)]
    dv = getattr(sp, "dvol", None)
    if dv is None:
        return [int(sp.size), "S", 1.0]        # UnstructuredDomain: no volume (never weighted here)
    return [int(sp.size), "P", [float(x) for x in np.asarray(dv, dtype=np.float64).ravel()]]


def dom_desc(dom):
    return [space_desc(sp) for sp in dom]


class NonFinite(Exception):
    """The implementation returned inf/nan: no exact rational image -> the comparison is `false`."""


def cqs(xs):
    xs = [float(x) for x in xs]
    if not all(np.isfinite(x) for x in xs):
        raise NonFinite()
    return C.clist([C.cq(x) for x in xs])


def cnats(xs):
    return C.clist(["%d%%nat" % int(x) for x in xs])


def coq_dom(desc):
    out = []
    for n, k, v in desc:
        if k == "S":
            out.append("sp_scalar %d%%nat %s" % (n, C.cq(v)))
        else:
            out.append("sp_perpix %d%%nat %s" % (n, cqs(v)))
    return C.clist(out)


# ---------------------------------------------------------------------------------------------------
# running one case on the implementation
# ---------------------------------------------------------------------------------------------------

def field_of(dom, case):
    import nifty.cl as ift
    re = np.array(case["re"], dtype=np.float64).reshape(dom.shape)
    if case.get("im") is None:
        return ift.Field.from_raw(dom, re)
    im = np.array(case["im"], dtype=np.float64).reshape(dom.shape)
    return ift.Field.from_raw(dom, re + 1j * im)


def arr_out(f):
    a = f.asnumpy()
    if np.iscomplexobj(a):
        return {"re": [float(x) for x in a.real.ravel()], "im": [float(x) for x in a.imag.ravel()]}
    return {"re": [float(x) for x in a.ravel()], "im": None}


def power_space_for(case, hsp):
    import nifty.cl as ift
    bb = case.get("binbounds")
    return ift.PowerSpace(hsp, None if bb is None else tuple(bb))


class _Spectrum:
    """A stateful spectrum: the SAME object (and its bound method) is passed again after `parr` changed."""

    def __init__(self):
        self.parr = None

    def __call__(self, k):
        assert k.shape == self.parr.shape
        return self.parr.copy()

    def evaluate(self, k):
        return self(k)


def _spectrum_fn(k, parr=None):
    assert k.shape == parr.shape
    return parr.copy()


def run_ohist(case):
    """create_power_operator / PS_field called several times on one domain with ONE callable object whose
    parameters change between the calls (instance with __call__, bound method, functools.partial)."""
    import functools
    import logging
    import nifty.cl as ift
    ift.logger.setLevel(logging.ERROR)
    out = {"error": None, "steps": []}
    try:
        dom = mk_domain(case["dom"])
        idx = case["idx"]
        ps = ift.PowerSpace(dom[idx])
        base = {"dom": dom_desc(dom), "pindex": [int(x) for x in ps.pindex.ravel()], "nbin": int(ps.size), "psp": space_desc(ps)}
        spec = _Spectrum()
        part = functools.partial(_spectrum_fn, parr=None)
        for st in case["steps"]:
            o = dict(base, error=None)
            try:
                parr = np.array(st["p"], dtype=np.float64)
                spec.parr = parr
                part.keywords["parr"] = parr
                fn = {"instance": spec, "method": spec.evaluate, "partial": part}[case["how"]]
                op = ift.create_power_operator(dom, fn, space=idx if len(dom) > 1 or case.get("give_space") else None)
                o["out"] = arr_out(op(field_of(dom, st)))
                o["psfield"] = [float(x) for x in ift.PS_field(ps, fn).asnumpy().ravel()]
            except Exception as e:  # noqa: BLE001
                o["error"] = type(e).__name__
                o["message"] = str(e)[:200]
            out["steps"].append(o)
    except Exception as e:  # noqa: BLE001
        out["error"] = type(e).__name__
        out["message"] = str(e)[:200]
    return out


def ohist_steps(case):
    return [dict(st, kind="powop", dom=case["dom"], idx=case["idx"], binbounds=None, p_callable=True) for st in case["steps"]]


def history_steps(case):
    """The single power_analyze calls of a history case (same domain, same analysed spaces)."""
    return [dict(step, kind="analyze", dom=case["dom"], spaces=case["spaces"]) for step in case["steps"]]


def run_case(case):
    """Returns the observation dict (JSON-able)."""
    if case["kind"] == "ahist":      # several calls in ONE process on the SAME DomainTuple object
        return {"error": None, "steps": [run_case(sub) for sub in history_steps(case)]}
    if case["kind"] == "ohist":
        return run_ohist(case)
    return run_case_(case)


def run_case_(case):
    import logging
    import nifty.cl as ift
    ift.logger.setLevel(logging.ERROR)      # "neither harmonic nor a PowerSpace" warnings for passive sub-domains
    kind = case["kind"]
    obs = {"error": None}
    try:
        dom = mk_domain(case["dom"])
        obs["dom"] = dom_desc(dom)
        if kind in ("times", "adjoint", "powop"):
            idx = case["idx"]
            ps = power_space_for(case, dom[idx])
            obs["pindex"] = [int(x) for x in ps.pindex.ravel()]
            obs["nbin"] = int(ps.size)
            obs["psp"] = space_desc(ps)
            if kind == "powop":
                pf = ift.Field.from_raw(ps, np.array(case["p"], dtype=np.float64))
                if case.get("p_callable"):      # spectrum given as a function of k (natural binning only)
                    parr = np.array(case["p"], dtype=np.float64)

                    def pf(k, parr=parr):
                        assert k.shape == parr.shape
                        return parr.copy()
                op = ift.create_power_operator(dom, pf, space=idx if len(dom) > 1 or case.get("give_space") else None)
                # DiagonalOperator.apply in the case's mode (cases without "mode": TIMES, as before)
                meth = {"times": op.times, "adjoint": op.adjoint_times, "inverse": op.inverse_times,
                        "adjoint_inverse": op.adjoint_inverse_times}[case.get("mode", "times")]
                obs["out"] = arr_out(meth(field_of(dom, case)))
            else:
                pd = ift.PowerDistributor(dom, None if case.get("default_ps") else ps,
                                          idx if len(dom) > 1 or case.get("give_space") else None)
                obs["opdom"] = dom_desc(pd.domain)
                if kind == "times":
                    obs["out"] = arr_out(pd(field_of(pd.domain, case)))
                else:
                    obs["out"] = arr_out(pd.adjoint_times(field_of(dom, case)))
        elif kind in ("dof_times", "dof_adjoint"):
            idx = case["idx"]
            dofdex = ift.Field.from_raw(ift.DomainTuple.make(dom[idx]),
                                        np.array(case["dofdex"], dtype=np.int64).reshape(dom[idx].shape))
            dd = ift.DOFDistributor(dofdex, dom, idx)
            obs["pindex"] = [int(x) for x in case["dofdex"]]
            obs["nbin"] = int(dd.domain[idx].size)
            obs["psp"] = space_desc(dd.domain[idx])
            obs["opdom"] = dom_desc(dd.domain)
            if kind == "dof_times":
                obs["out"] = arr_out(dd(field_of(dd.domain, case)))
            else:
                obs["out"] = arr_out(dd.adjoint_times(field_of(dom, case)))
        elif kind == "analyze":
            f = field_of(dom, case)
            spaces = case["spaces"]
            order = list(range(len(dom))) if spaces is None else ([spaces] if np.isscalar(spaces) else list(spaces))
            # the binning of every analysed space (what PowerSpace computes; C08's subject)
            specs = []
            for i in order:
                try:
                    ps = power_space_for(case, dom[i])
                    specs.append([int(i), [int(x) for x in ps.pindex.ravel()], int(ps.size)])
                except ValueError as e:       # empty bins: the model gets the searchsorted indices
                    bb = case.get("binbounds")
                    k = dom[i].get_k_length_array().asnumpy().ravel()
                    pin = np.searchsorted(np.array(bb, dtype=np.float64), k)
                    specs.append([int(i), [int(x) for x in pin], len(bb) + 1])
            obs["specs"] = specs
            r = ift.power_analyze(f, spaces=None if spaces is None else (spaces if np.isscalar(spaces) else tuple(spaces)),
                                  binbounds=case.get("binbounds"), keep_phase_information=bool(case["keep"]))
            obs["rdom"] = dom_desc(r.domain)
            obs["out"] = arr_out(r)
        else:
            raise C.MachineryError("unknown case kind %r" % kind)
    except C.MachineryError:
        raise
    except Exception as e:  # noqa: BLE001  (the exception class is the observation)
        obs["error"] = type(e).__name__
        obs["message"] = str(e)[:200]
    return obs


# ---------------------------------------------------------------------------------------------------
# Coq terms: model(case) == observation
# ---------------------------------------------------------------------------------------------------

def coq_check(case, obs):
    try:
        return coq_check_(case, obs)
    except NonFinite:
        return "false"


def analyze_terms(case, obs):
    """(call, observation) Coq terms of one power_analyze call, or None if there is no image."""
    if "dom" not in obs or "specs" not in obs:
        return None
    d = coq_dom(obs["dom"])
    specs = C.clist(["(%d%%nat, (%s, %d%%nat))" % (i, cnats(p), nb) for i, p, nb in obs["specs"]])
    f = ("fre %s" % cqs(case["re"])) if case.get("im") is None else ("fcx %s %s" % (cqs(case["re"]), cqs(case["im"])))
    if obs["error"] is not None:
        if obs["error"] != "ValueError":
            return None
        o = "None"
    else:
        v = obs["out"]
        fv = ("fre %s" % cqs(v["re"])) if v["im"] is None else ("fcx %s %s" % (cqs(v["re"]), cqs(v["im"])))
        o = "(Some (%s, %s))" % (coq_dom(obs["rdom"]), fv)
    return "(acall_of %s %s %s (%s))" % (d, specs, C.cbool(case["keep"]), f), o


def coq_check_(case, obs):
    kind = case["kind"]
    if kind == "ohist":
        if obs["error"] is not None or any(so["error"] is not None for so in obs["steps"]):
            return "false"
        subs = ohist_steps(case)
        parts = []
        for comp in ("re", "im"):
            if any((sub.get("im") is None) != (so["out"]["im"] is None) for sub, so in zip(subs, obs["steps"])):
                return "false"
            calls, outs = [], []
            for sub, so in zip(subs, obs["steps"]):
                if sub.get(comp) is None:
                    continue
                calls.append("(ocall_of %s %d%%nat %s %d%%nat %s %s)" % (coq_dom(so["dom"]), case["idx"], cnats(so["pindex"]), so["nbin"],
                                                                      cqs(sub["p"]), cqs(sub[comp])))
                outs.append("(qcs %s)" % cqs(so["out"][comp]))
            parts.append("(ohistory_ok %s %s)" % (C.clist(calls), C.clist(outs)))
        for sub, so in zip(subs, obs["steps"]):          # PS_field evaluates the callable at that moment
            parts.append("(eq_list (qcs %s) (qcs %s))" % (cqs(so["psfield"]), cqs(sub["p"])))
        return " && ".join(parts)
    if kind == "ahist":
        calls, outs = [], []
        for sub, so in zip(history_steps(case), obs["steps"]):
            t = analyze_terms(sub, so)
            if t is None:
                return "false"
            calls.append(t[0])
            outs.append(t[1])
        return "history_ok %s %s" % (C.clist(calls), C.clist(outs))
    if kind == "analyze":
        if "dom" not in obs or "specs" not in obs:
            return "false"
        d = coq_dom(obs["dom"])
        specs = C.clist(["(%d%%nat, (%s, %d%%nat))" % (i, cnats(p), nb) for i, p, nb in obs["specs"]])
        f = ("fre %s" % cqs(case["re"])) if case.get("im") is None else ("fcx %s %s" % (cqs(case["re"]), cqs(case["im"])))
        if obs["error"] is not None:
            o = "None" if obs["error"] == "ValueError" else None
            if o is None:
                return "false"
        else:
            v = obs["out"]
            fv = ("fre %s" % cqs(v["re"])) if v["im"] is None else ("fcx %s %s" % (cqs(v["re"]), cqs(v["im"])))
            o = "(Some (%s, %s))" % (coq_dom(obs["rdom"]), fv)
        return "analyze_ok %s %s %s (%s) %s" % (d, specs, C.cbool(case["keep"]), f, o)
    if obs["error"] is not None:
        return "false"          # the model of the distributors / power operator never raises on these inputs
    d = coq_dom(obs["dom"])
    idx, pin, nb = case["idx"], cnats(obs["pindex"]), obs["nbin"]
    pd = float(obs["dom"][idx][2])
    psp_ok = "dvol_eq (sdv (q_pspace %s %d%%nat (qc %s))) (PerPix (qcs %s))" % (pin, nb, C.cq(pd), cqs(obs["psp"][2]))
    parts = [psp_ok]
    comps = [("re", "re")] + ([("im", "im")] if case.get("im") is not None else [])
    for a, b in comps:
        xa, ya = np.array(case[a], dtype=np.float64), np.array(obs["out"][b], dtype=np.float64)
        if kind in ("adjoint", "dof_adjoint") and not (np.all(np.isfinite(xa)) and np.all(np.isfinite(ya))):
            # C10_adjoint_bin_independent: bins without a non-finite member are compared exactly with the model run
            # on the input with the non-finite entries replaced by 0; the other bins must be non-finite
            sh_h = blocks(obs["dom"])
            dirty = ref_scatter((~np.isfinite(xa)).astype(np.float64), sh_h, idx, obs["pindex"], nb).ravel() > 0
            if np.any(np.isfinite(ya[dirty])) or not np.all(np.isfinite(ya[~dirty])):
                return "false"
            parts.append("eq_list_masked %s (q_adjoint %s %d%%nat %s %d%%nat (qcs %s)) (qcs %s)" % (
                C.clist([C.cbool(not v) for v in dirty]), d, idx, pin, nb,
                cqs(np.where(np.isfinite(xa), xa, 0.0)), cqs(np.where(dirty, 0.0, ya))))
            continue
        x, y = cqs(case[a]), cqs(obs["out"][b])
        if kind in ("times", "dof_times"):
            parts.append("eq_list (q_times %s %d%%nat %s %d%%nat (qcs %s)) (qcs %s)" % (d, idx, pin, nb, x, y))
        elif kind in ("adjoint", "dof_adjoint"):
            parts.append("eq_list (q_adjoint %s %d%%nat %s %d%%nat (qcs %s)) (qcs %s)" % (d, idx, pin, nb, x, y))
        elif kind == "powop":
            if case.get("mode") is None:
                parts.append("eq_list (q_powop %s %d%%nat %s %d%%nat (qcs %s) (qcs %s)) (qcs %s)" % (d, idx, pin, nb, cqs(case["p"]), x, y))
            else:       # four-mode model (C10_power_operator_modes); inverse modes: p = +-2^k, the float quotient is exact
                parts.append("eq_list (q_powop_apply %s %s %d%%nat %s %d%%nat (qcs %s) (qcs %s)) (qcs %s)" % (
                    MODE_CTOR[case["mode"]], d, idx, pin, nb, cqs(case["p"]), x, y))
    if (obs["out"]["im"] is None) != (case.get("im") is None):
        return "false"
    return " && ".join("(%s)" % p for p in parts)


# ---------------------------------------------------------------------------------------------------
# the property stated directly on the implementation (NumPy reference, no Coq)
# ---------------------------------------------------------------------------------------------------

def blocks(desc):
    return [int(s[0]) for s in desc]


def ref_gather(x, shape_h, idx, pindex):
    return np.take(x.reshape(shape_h), np.asarray(pindex, dtype=np.int64), axis=idx)


def ref_scatter(y, shape_p, idx, pindex, nbin):
    y = np.moveaxis(y.reshape(shape_p), idx, 0)
    out = np.zeros((nbin,) + y.shape[1:], dtype=y.dtype)
    with np.errstate(invalid="ignore", over="ignore"):
        np.add.at(out, np.asarray(pindex, dtype=np.int64), y)
    return np.moveaxis(out, 0, idx)


def ref_mean(y, shape, idx, pindex, nbin):
    s = ref_scatter(y, shape, idx, pindex, nbin)
    cnt = np.bincount(np.asarray(pindex, dtype=np.int64), minlength=nbin).astype(np.float64)
    sh = [1] * s.ndim
    sh[idx] = nbin
    return s / cnt.reshape(sh)


def closeto(a, b):
    a, b = np.asarray(a, dtype=np.float64).ravel(), np.asarray(b, dtype=np.float64).ravel()
    return a.shape == b.shape and bool(np.all(np.abs(a - b) <= 1e-9 * np.maximum(1.0, np.abs(b))))


MODE_CTOR = {"times": "MTimes", "adjoint": "MAdjoint", "inverse": "MInverse", "adjoint_inverse": "MAdjInverse"}


def signature(case, obs=None):
    if case["kind"] == "ahist":
        return {"fn": "power_analyze", "history": True, "dtype": "mixed"}
    if case["kind"] == "ohist":
        return {"fn": "create_power_operator", "history": True, "spectrum": case["how"], "dtype": "mixed"}
    sig = {"fn": {"times": "PowerDistributor.times", "adjoint": "PowerDistributor.adjoint_times",
                  "dof_times": "DOFDistributor.times", "dof_adjoint": "DOFDistributor.adjoint_times",
                  "powop": "create_power_operator", "analyze": "power_analyze"}[case["kind"]],
           "dtype": "real" if case.get("im") is None else "complex"}
    if case["kind"] == "analyze":
        sig["keep_phase"] = bool(case["keep"])
    if case["kind"] == "powop":
        sig["spectrum"] = "callable" if case.get("p_callable") else "Field"
        sig["mode"] = case.get("mode", "times")
    if obs is not None and obs.get("error"):
        sig["error"] = obs["error"]
    return sig


def direct_failure(case, obs):
    """None if the property holds for this case on the implementation, else a description.
    Exceptions of the code under test and non-finite results are failures, never crashes."""
    try:
        if case["kind"] == "ohist":
            if obs["error"] is not None:
                return "create_power_operator history raised %s (%s)" % (obs["error"], obs.get("message"))
            for i, (sub, so) in enumerate(zip(ohist_steps(case), obs["steps"])):
                f = direct_failure_(sub, so)
                if f is None and not np.array_equal(np.array(so["psfield"]), np.array(sub["p"], dtype=np.float64)):
                    f = "PS_field is not the callable's current values"
                if f:
                    return "call %d of a sequence of create_power_operator calls with ONE %s whose parameters changed: %s" % (i, case["how"], f)
            return None
        if case["kind"] == "ahist":
            for i, (sub, so) in enumerate(zip(history_steps(case), obs["steps"])):
                f = direct_failure_(sub, so)
                if f:
                    return "call %d of a sequence of power_analyze calls on one domain: %s" % (i, f)
            return None
        return direct_failure_(case, obs)
    except C.MachineryError:
        raise
    except Exception as e:  # noqa: BLE001
        return "%s: %s (%s)" % (case["kind"], type(e).__name__, str(e)[:120])


def direct_failure_(case, obs):
    kind = case["kind"]
    cplx = case.get("im") is not None
    x = np.array(case["re"], dtype=np.float64) + (1j * np.array(case["im"], dtype=np.float64) if cplx else 0.0)
    if kind == "analyze":
        empty = False
        if obs.get("specs"):
            empty = any(len(set(p)) < nb for _, p, nb in obs["specs"])
        if obs["error"] is not None:
            if obs["error"] == "ValueError" and ((not cplx and case["keep"]) or empty):
                return None        # documented rejections: no phase in a real field; empty bins
            return "power_analyze raised %s (%s) on a valid input" % (obs["error"], obs.get("message"))
        if (not cplx and case["keep"]) or empty:
            return "power_analyze accepted an input it documents as invalid"
        shape = blocks(obs["dom"])

        def ana(part):
            sh = list(shape)
            for i, p, nb in obs["specs"]:
                part = ref_mean(part, sh, i, p, nb)
                sh[i] = nb
            return part.ravel()
        out = obs["out"]
        if not all(np.isfinite(v) for v in out["re"] + (out["im"] or [])):
            return "power_analyze returned non-finite values"
        if case["keep"]:
            if out["im"] is None:
                return "keep_phase_information=True returned a real field"
            if not closeto(out["re"], ana(x.real ** 2)) or not closeto(out["im"], ana(x.imag ** 2)):
                return "phase-keeping analysis is not (bin mean of Re^2) + i (bin mean of Im^2)"
            if not closeto(np.array(out["re"]) + np.array(out["im"]), ana(np.abs(x) ** 2 if cplx else x ** 2)):
                return "real + imaginary part of the phase-keeping analysis differ from the plain analysis"
        else:
            if out["im"] is not None:
                return "power_analyze returned a complex field without keep_phase_information"
            if not closeto(out["re"], ana(x.real ** 2 + x.imag ** 2 if cplx else x ** 2)):
                return "power_analyze is not the bin mean of |f|^2"
        if case.get("exact_p") is not None and not case["keep"]:
            if not closeto(out["re"], case["exact_p"]):
                return "analysis of a field with |f|^2 = distribute(p) does not return p"
        return None
    if obs["error"] is not None:
        return "%s raised %s (%s)" % (signature(case)["fn"], obs["error"], obs.get("message"))
    out = np.array(obs["out"]["re"], dtype=np.float64) + (1j * np.array(obs["out"]["im"]) if obs["out"]["im"] is not None else 0.0)
    if (obs["out"]["im"] is not None) != cplx:
        return "result dtype kind differs from the input's"
    idx, pin, nb = case["idx"], obs["pindex"], obs["nbin"]
    sh_h = blocks(obs["dom"])
    sh_p = list(sh_h)
    sh_p[idx] = nb
    cnt = np.bincount(np.asarray(pin), minlength=nb).astype(np.float64)
    if not np.array_equal(np.asarray(obs["psp"][2]), cnt * float(obs["dom"][idx][2])):
        return "bin volumes are not (number of member modes) * (mode volume)"
    if kind in ("times", "dof_times"):
        ref = ref_gather(x, sh_p, idx, pin).ravel()
        if not np.array_equal(out, ref):
            return "distributed field does not give every mode the value of its bin"
    elif kind in ("adjoint", "dof_adjoint"):
        for part in (np.real, np.imag):
            ref = ref_scatter(np.ascontiguousarray(part(x)), sh_h, idx, pin, nb).ravel()
            with np.errstate(invalid="ignore"):
                got = np.ascontiguousarray(part(out))
            if not np.array_equal(got, ref, equal_nan=True):
                bad = int(np.flatnonzero(~((got == ref) | (np.isnan(got) & np.isnan(ref))))[0])
                return "adjoint distributor does not sum the members of each bin (entry %d: %r, members sum to %r)" % (bad, float(got[bad]), float(ref[bad]))
    elif kind == "powop":
        p = np.array(case["p"], dtype=np.float64)
        shp = [1] * len(sh_h)
        shp[idx] = sh_h[idx]
        if case.get("mode", "times") in ("inverse", "adjoint_inverse"):
            ref = (x.reshape(sh_h) / p[np.asarray(pin)].reshape(shp)).ravel()      # p = +-2^k: exact
            if not np.array_equal(out, ref):
                return "power operator in mode %s does not divide every mode by its bin's spectrum value" % case["mode"]
        else:
            ref = (x.reshape(sh_h) * p[np.asarray(pin)].reshape(shp)).ravel()
            if not np.array_equal(out, ref):
                return "power operator is not the diagonal of the distributed spectrum"
    return None


def adjointness_failure(case):
    """<y, D x> == <D^T y, x> with integer data (exact) for the distributor of a times/adjoint case."""
    import nifty.cl as ift
    dom = mk_domain(case["dom"])
    idx = case["idx"]
    if case["kind"].startswith("dof"):
        dofdex = ift.Field.from_raw(ift.DomainTuple.make(dom[idx]),
                                    np.array(case["dofdex"], dtype=np.int64).reshape(dom[idx].shape))
        op = ift.DOFDistributor(dofdex, dom, idx)
    else:
        op = ift.PowerDistributor(dom, power_space_for(case, dom[idx]), idx)
    rng = np.random.default_rng([len(case["re"]), idx, 5])
    cplx = case.get("im") is not None

    def rnd(d):
        a = rng.integers(-9, 10, size=d.shape).astype(np.float64)
        if cplx:
            a = a + 1j * rng.integers(-9, 10, size=d.shape)
        return ift.Field.from_raw(d, a)
    xx, yy = rnd(op.domain), rnd(op.target)
    lhs, rhs = yy.s_vdot(op(xx)), op.adjoint_times(yy).s_vdot(xx)
    if lhs != rhs:
        return "<y, D x> = %r but <D^T y, x> = %r" % (lhs, rhs)
    return None


# ---------------------------------------------------------------------------------------------------
# generators
# ---------------------------------------------------------------------------------------------------

DYAD = [0.25, 0.5, 0.75, 1.0, 1.5, 2.0, 3.0]


def gen_harmonic(rng, maxsize):
    r = rng.integers(0, 10)
    if r < 4:
        n = int(rng.integers(1, min(9, maxsize) + 1))
        return ["rg", [n], [float(rng.choice(DYAD))], True]
    if r < 8:
        for _ in range(20):
            a, b = int(rng.integers(1, 6)), int(rng.integers(1, 6))
            if a * b <= maxsize:
                break
        else:
            a, b = 2, 2
        if rng.integers(0, 2):
            d = float(rng.choice(DYAD))
            return ["rg", [a, b], [d, d], True]
        return ["rg", [a, b], [float(rng.choice(DYAD)), float(rng.choice(DYAD))], True]
    lmax = int(rng.integers(0, 4))
    while (lmax + 1) ** 2 > maxsize and lmax > 0:
        lmax -= 1
    return ["lm", lmax, int(rng.integers(0, lmax + 1))]


def gen_passive(rng, weighted):
    """A sub-domain that is not analysed.  weighted: must have volume factors (for Field.weight)."""
    r = rng.integers(0, 7 if weighted else 8)
    if r == 0:
        return ["rg", [int(rng.integers(1, 4))], [float(rng.choice(DYAD))], False]
    if r == 1:
        return ["rg", [int(rng.integers(1, 3)), int(rng.integers(1, 3))], [float(rng.choice(DYAD)), float(rng.choice(DYAD))], False]
    if r == 2:
        return ["gl", 2]
    if r == 3:
        return ["power", ["rg", [int(rng.integers(2, 6))], [float(rng.choice(DYAD))], True], None]
    if r == 4:
        return ["dof", [float(x) for x in rng.choice(DYAD, size=int(rng.integers(1, 4)))]]
    if r == 5:
        return ["lm", 1, int(rng.integers(0, 2))]
    if r == 6:
        return ["rg", [int(rng.integers(1, 4))], [float(rng.choice(DYAD))], True]
    return ["unstructured", int(rng.integers(1, 4))]


def gen_binbounds(rng, hspec, allow_empty=False):
    """None (natural) or custom bounds that leave no bin empty (midpoints of unique k lengths,
    random subset; linear / logarithmic useful_binbounds); sometimes deliberately empty bins."""
    import nifty.cl as ift
    hsp = mk_space(hspec)
    r = rng.integers(0, 10)
    if r < 4:
        return None
    uk = np.asarray(hsp.get_unique_k_lengths(), dtype=np.float64)
    if allow_empty and r == 9:
        top = float(uk[-1])
        return [top + 1.0, top + 2.0]
    if r < 8 or len(uk) < 3:
        mids = 0.5 * (uk[:-1] + uk[1:])
        if len(mids) == 0:
            return None
        keep = [float(m) for m in mids if rng.integers(0, 2)]
        return keep if keep else [float(mids[0])]
    try:
        bb = ift.PowerSpace.useful_binbounds(hsp, bool(rng.integers(0, 2)))
        ift.PowerSpace(hsp, tuple(bb))
        return [float(b) for b in bb]
    except ValueError:
        return None


def ints(rng, n, lo=-9, hi=9):
    return [int(v) for v in rng.integers(lo, hi + 1, size=n)]


def size_of(specs):
    return int(np.prod([mk_space(s).size for s in specs], dtype=np.int64))


def gen_dom(rng, nactive, weighted, maxtotal=160):
    """Product domain with `nactive` harmonic sub-domains to act on plus 0-2 passive ones."""
    for _ in range(50):
        n_pass = int(rng.choice([0, 0, 1, 1, 2]))
        act = [gen_harmonic(rng, 25 if (n_pass or nactive > 1) else 45) for _ in range(nactive)]
        pas = [gen_passive(rng, weighted) for _ in range(n_pass)]
        allsp = act + pas
        perm = rng.permutation(len(allsp))
        specs = [allsp[i] for i in perm]
        where = [int(np.where(perm == i)[0][0]) for i in range(nactive)]
        if size_of(specs) <= maxtotal:
            return specs, where
    return act[:1], [0]


def set_mode(rng, case, nb, mode=None):
    """Application mode of the power operator; in the inverse modes the spectrum is +-2^k (k = -2..3), never 0, so that
    the float64 quotient is exact and the zero-division case (excluded by C10_power_operator_inverse) does not occur."""
    case["mode"] = mode or ["times", "adjoint", "inverse", "adjoint_inverse"][int(rng.integers(0, 4))]
    if case["mode"] in ("inverse", "adjoint_inverse"):
        case["p"] = [float(sg) * 2.0 ** int(k) for sg, k in zip(rng.choice([-1, 1], size=nb), rng.integers(-2, 4, size=nb))]


def gen_case(rng, kind):
    cplx = bool(rng.integers(0, 2))
    if kind in ("times", "adjoint", "powop"):
        specs, (idx,) = gen_dom(rng, 1, False)
        bb = gen_binbounds(rng, specs[idx])
        case = {"kind": kind, "dom": specs, "idx": idx, "binbounds": bb, "give_space": bool(rng.integers(0, 2))}
        if kind != "powop":     # PowerDistributor(power_space=None) builds the natural PowerSpace itself
            case["default_ps"] = bool(bb is None and rng.integers(0, 2))
        sizes = [mk_space(s).size for s in specs]
        nb = power_space_for(case, mk_space(specs[idx])).size
        szp = list(sizes)
        szp[idx] = nb
        n_in = int(np.prod(szp)) if kind == "times" else int(np.prod(sizes))
        case["re"] = ints(rng, n_in)
        case["im"] = ints(rng, n_in) if cplx else None
        if kind == "powop":
            case["p"] = ints(rng, nb, 0, 12)
            case["p_callable"] = bool(bb is None and rng.integers(0, 2))
            set_mode(rng, case, nb)
        return case
    if kind in ("dof_times", "dof_adjoint"):
        specs, (idx,) = gen_dom(rng, 1, False)
        n = mk_space(specs[idx]).size
        nb = int(rng.integers(1, n + 1))
        dofdex = list(range(nb)) + [int(v) for v in rng.integers(0, nb, size=n - nb)]
        dofdex = [dofdex[i] for i in rng.permutation(n)]
        case = {"kind": kind, "dom": specs, "idx": idx, "dofdex": dofdex}
        sizes = [mk_space(s).size for s in specs]
        szp = list(sizes)
        szp[idx] = nb
        n_in = int(np.prod(szp)) if kind == "dof_times" else int(np.prod(sizes))
        case["re"] = ints(rng, n_in)
        case["im"] = ints(rng, n_in) if cplx else None
        return case
    if kind in ("analyze", "exact"):
        nact = int(rng.choice([1, 1, 1, 2]))
        specs, where = gen_dom(rng, nact, False, maxtotal=120)      # passive sub-domains may lack volume factors (C10-F3)
        # binbounds are shared by all analysed spaces: custom bounds only with one analysed space
        bb = gen_binbounds(rng, specs[where[0]], allow_empty=(kind == "analyze")) if nact == 1 else None
        harm = [i for i, s in enumerate(specs) if s[0] in ("lm",) or (s[0] == "rg" and s[3])]
        if nact == 1 and len(specs) == 1 and rng.integers(0, 2):
            spaces = None
        elif nact == 1:
            spaces = where[0] if rng.integers(0, 2) else [where[0]]
        else:
            spaces = [where[i] for i in rng.permutation(nact)]
            if sorted(spaces) == harm == list(range(len(specs))) and rng.integers(0, 2):
                spaces = None
        keep = bool(rng.integers(0, 3) == 0)
        case = {"kind": "analyze", "dom": specs, "spaces": spaces, "binbounds": bb, "keep": keep}
        n = size_of(specs)
        if kind == "exact":
            # |f|^2 = distribute(p): p = m^2 on the analysed domain, f = m * unit (1, -1, i, -i, (3+4i)/5 * 5 ...)
            dom = mk_domain(specs)
            order = list(range(len(specs))) if spaces is None else ([spaces] if np.isscalar(spaces) else list(spaces))
            sh_h = [sp.size for sp in dom]
            sh_p = list(sh_h)
            pins = {}
            for i in order:
                ps = power_space_for(case, dom[i])
                pins[i] = ps.pindex.ravel()
                sh_p[i] = ps.size
            m = rng.integers(0, 4, size=sh_p) * 5
            big = m
            for i in order:
                big = np.take(big, pins[i], axis=i)
            units = np.array([1, -1, 1j, -1j, 0.6 + 0.8j, 0.8 - 0.6j, -0.6 + 0.8j]) if cplx else np.array([1.0, -1.0])
            u = rng.choice(units, size=big.shape)
            f = big * u
            case["keep"] = False
            case["re"] = [float(round(v)) for v in np.real(f).ravel()]
            case["im"] = [float(round(v)) for v in np.imag(f).ravel()] if cplx else None
            case["exact_p"] = [float(v) for v in (m.astype(np.float64) ** 2).ravel()]
            return case
        case["re"] = ints(rng, n)
        case["im"] = ints(rng, n) if cplx else None
        return case
    raise ValueError(kind)


def gen_history(rng):
    """A sequence of power_analyze calls on ONE domain and analysed sub-domain with changing binnings
    (natural, custom, deliberately empty bins -- also twice in a row: failing call, then retry),
    changing fields, dtypes and phase flags."""
    while True:
        base = gen_case(rng, "analyze")
        sp = base["spaces"]
        one = sp is None and len(base["dom"]) == 1 or np.isscalar(sp) or (isinstance(sp, list) and len(sp) == 1)
        if one:
            break
    idx = 0 if sp is None else (sp if np.isscalar(sp) else sp[0])
    hspec = base["dom"][idx]
    uk = np.asarray(mk_space(hspec).get_unique_k_lengths(), dtype=np.float64)
    n = size_of(base["dom"])
    top = float(uk[-1])

    def binning():
        r = int(rng.integers(0, 10))
        if r < 3:
            return None
        if r < 6:
            return gen_binbounds(rng, hspec)
        if r < 8 or len(uk) < 2:
            return [top + 1.0, top + 2.0]                       # last bins empty
        b = int(rng.integers(0, len(uk) - 1))                    # two bounds between adjacent lengths: empty middle bin
        lo, hi = float(uk[b]), float(uk[b + 1])
        return [lo + (hi - lo) / 3.0, lo + 2.0 * (hi - lo) / 3.0]
    steps, prev = [], "x"
    for t in range(int(rng.integers(3, 7))):
        bb = binning()
        if t > 0 and rng.integers(0, 4) == 0:
            bb = prev                                            # the same binning again (retry after a failure)
        prev = bb
        cplx = bool(rng.integers(0, 2))
        steps.append({"binbounds": bb, "keep": bool(cplx and rng.integers(0, 3) == 0), "re": ints(rng, n),
                      "im": ints(rng, n) if cplx else None})
    if all(s["binbounds"] == steps[0]["binbounds"] for s in steps):
        steps[-1]["binbounds"] = None if steps[0]["binbounds"] is not None else [top + 1.0, top + 2.0]
        steps.append(dict(steps[-1]))
    return {"kind": "ahist", "dom": base["dom"], "spaces": sp, "steps": steps}


def gen_ohistory(rng, i):
    specs, (idx,) = gen_dom(rng, 1, False, maxtotal=100)
    nb = int(len(np.unique(np.round(np.asarray(mk_space(specs[idx]).get_unique_k_lengths(), dtype=np.float64), 12))))
    n = size_of(specs)
    steps = []
    for t in range(int(rng.integers(2, 5))):
        cplx = bool(rng.integers(0, 2))
        steps.append({"p": ints(rng, nb, 0, 12), "re": ints(rng, n), "im": ints(rng, n) if cplx else None})
    if steps[0]["p"] == steps[1]["p"]:
        steps[1]["p"] = [v + 1 for v in steps[1]["p"]]
    return {"kind": "ohist", "dom": specs, "idx": idx, "give_space": bool(rng.integers(0, 2)),
            "how": ["instance", "method", "partial"][i % 3], "steps": steps}


KINDS = ["times", "adjoint", "powop", "dof_times", "dof_adjoint", "analyze", "analyze", "exact"]


def steep_cases(rng, n):
    """Bin sums with a huge dynamic range (every member of bin b is m * 2**e_b, m a small integer, so float64 sums
    within a bin are exact whatever the other bins hold) and inf / -inf / nan in single bins."""
    out = []
    for i in range(n):
        kind = ["dof_adjoint", "adjoint", "analyze", "dof_adjoint"][i % 4]
        try:
            specs, (idx,) = gen_dom(rng, 1, False, maxtotal=100)
            sizes = [mk_space(x).size for x in specs]
            if kind == "dof_adjoint":
                nh = sizes[idx]
                nb = int(rng.integers(2, nh + 1)) if nh >= 2 else 1
                dofdex = list(range(nb)) + [int(v) for v in rng.integers(0, nb, size=nh - nb)]
                pin = [dofdex[j] for j in rng.permutation(nh)]
                case = {"kind": kind, "dom": specs, "idx": idx, "dofdex": pin}
            else:
                bb = gen_binbounds(rng, specs[idx])
                case = {"kind": kind, "dom": specs, "idx": idx, "binbounds": bb, "give_space": True}
                ps = power_space_for(case, mk_space(specs[idx]))
                pin, nb = [int(v) for v in ps.pindex.ravel()], int(ps.size)
                if kind == "analyze":
                    case = {"kind": "analyze", "dom": specs, "spaces": idx, "binbounds": bb, "keep": False}
        except Exception:  # noqa: BLE001  (the generator must not depend on the code under test)
            continue
        pre, post = int(np.prod(sizes[:idx], dtype=np.int64)), int(np.prod(sizes[idx + 1:], dtype=np.int64))
        if kind == "analyze":
            step = int(rng.choice([6, 9, 12]))
            e = step * (nb - 1 - np.arange(nb)) if rng.integers(0, 3) else step * np.arange(nb)      # |f|^2 >= 1 everywhere
        else:
            step = int(rng.choice([30, 60, 100]))
            e = (250 - step * np.arange(nb)) if rng.integers(0, 3) else (-250 + step * np.arange(nb))
            e = np.clip(e, -900, 900)

        def values():
            m = rng.integers(1, 8, size=(pre, len(pin), post)).astype(np.float64) * rng.choice([1.0, -1.0], size=(pre, len(pin), post))
            return m * np.exp2(np.asarray(e, dtype=np.float64))[np.asarray(pin)][None, :, None]
        re = values()
        cplx = bool(rng.integers(0, 2))
        im = values() if cplx else None
        if kind != "analyze" and i % 3 == 0:          # one bin holds inf / -inf / nan (in some columns)
            b = int(rng.integers(0, nb))
            members = [j for j, q in enumerate(pin) if q == b]
            for _ in range(int(rng.integers(1, 3))):
                re[int(rng.integers(0, pre)), members[int(rng.integers(0, len(members)))], int(rng.integers(0, post))] = \
                    float(rng.choice([np.inf, -np.inf, np.nan]))
        case["re"] = [float(v) for v in re.ravel()]
        case["im"] = [float(v) for v in im.ravel()] if cplx else None
        case["steep"] = True
        out.append(case)
    return out


def forced_cases(rng):
    """Input classes that random composition hits only sometimes: the acted-on sub-domain in the MIDDLE of a
    product domain with more than one pixel before and after it; several harmonic sub-domains with
    `spaces` given as the integer 0 / 1; a sub-domain without volume factors next to the analysed one."""
    out = []
    pre_pool = [["rg", [2], [0.5], False], ["gl", 2, None], ["unstructured", 3], ["rg", [3], [2.0], True], ["lm", 1, 1]]
    post_pool = [["rg", [3], [0.75], False], ["dof", [1.0, 2.0]], ["unstructured", 2], ["rg", [2, 2], [1.0, 0.5], False]]
    mids = [["rg", [4], [0.5], True], ["rg", [3, 2], [1.0, 1.0], True], ["lm", 2, 1], ["rg", [5], [1.5], True]]
    for i, kind in enumerate(["adjoint", "dof_adjoint", "times", "dof_times", "powop", "analyze", "analyze", "adjoint", "dof_adjoint", "analyze"]):
        dom = [pre_pool[int(rng.integers(0, len(pre_pool)))], mids[i % len(mids)], post_pool[int(rng.integers(0, len(post_pool)))]]
        cplx = bool(i % 2)
        sizes = [mk_space(x).size for x in dom]
        n_h = sizes[1]
        if kind == "analyze":
            case = {"kind": "analyze", "dom": dom, "spaces": 1 if i % 3 else [1], "binbounds": gen_binbounds(rng, dom[1]), "keep": bool(cplx and i % 4 == 1)}
            n_in = int(np.prod(sizes))
        elif kind.startswith("dof"):
            nb = int(rng.integers(1, n_h + 1))
            dofdex = list(range(nb)) + [int(v) for v in rng.integers(0, nb, size=n_h - nb)]
            dofdex = [dofdex[j] for j in rng.permutation(n_h)]
            case = {"kind": kind, "dom": dom, "idx": 1, "dofdex": dofdex}
            n_in = int(np.prod([sizes[0], nb, sizes[2]])) if kind == "dof_times" else int(np.prod(sizes))
        else:
            bb = gen_binbounds(rng, dom[1])
            case = {"kind": kind, "dom": dom, "idx": 1, "binbounds": bb, "give_space": True}
            nb = power_space_for(case, mk_space(dom[1])).size
            n_in = int(np.prod([sizes[0], nb, sizes[2]])) if kind == "times" else int(np.prod(sizes))
            if kind == "powop":
                case["p"] = ints(rng, nb, 0, 12)
                case["p_callable"] = False
                set_mode(rng, case, nb, "inverse")
        case["re"] = ints(rng, n_in)
        case["im"] = ints(rng, n_in) if cplx else None
        out.append(case)
    # two / three harmonic sub-domains, `spaces` an integer (0 is falsy!), a tuple in both orders, None
    for i, spaces in enumerate([0, 1, [0], [1, 0], [0, 1], None, 0, 2]):
        dom = [["rg", [4], [0.5], True], ["lm", 1, 1] if i % 2 else ["rg", [3], [1.0], True]]
        if spaces == 2:
            dom = dom + [["rg", [2, 2], [1.0, 1.0], True]]
        n_in = size_of(dom)
        cplx = bool(i % 2)
        out.append({"kind": "analyze", "dom": dom, "spaces": spaces, "binbounds": None, "keep": bool(cplx and i == 3),
                    "re": ints(rng, n_in), "im": ints(rng, n_in) if cplx else None})
    return out


def gen_cases(ctx, n, salt=10):
    rng = ctx.rng(salt)
    out = forced_cases(ctx.rng(salt + 2000)) if salt == 10 else []
    out += steep_cases(ctx.rng(salt + 3000), max(24, n // 8))
    out += [gen_case(rng, KINDS[i % len(KINDS)]) for i in range(n)]
    rng2 = ctx.rng(salt + 1000)
    for i in range(max(9, n // 16)):
        try:
            out.append(gen_ohistory(rng2, i))
        except Exception:  # noqa: BLE001  (number of bins is read from the implementation; never crash the generator)
            pass
    return out + [gen_history(rng2) for _ in range(max(6, n // 12))]


def nontrivial_key(case, obs):
    """Hashable identity of a non-trivial case (>= 2 bins, some bin with >= 2 modes), else None."""
    if case["kind"] == "ohist":
        return json.dumps(["ohist", case["dom"], case["idx"], case["how"], [st["p"] for st in case["steps"]]])
    if case["kind"] == "ahist":
        bbs = {json.dumps(st["binbounds"]) for st in case["steps"]}
        return json.dumps(["ahist", case["dom"], case["spaces"], sorted(bbs)]) if len(bbs) >= 2 else None
    if case["kind"] == "analyze":
        sp = obs.get("specs") or []
        ok = any(nb >= 2 and len(p) > nb for _, p, nb in sp)
    else:
        ok = obs.get("nbin", 0) >= 2 and len(obs.get("pindex", [])) > obs.get("nbin", 0)
    if not ok:
        return None
    return json.dumps([case["kind"], case["dom"], case.get("idx"), case.get("spaces"), case.get("binbounds"),
                       case.get("dofdex"), case.get("keep"), case.get("im") is None, case.get("mode")], sort_keys=True)


class C10(C.Check):
    prop = "C10"
    coq_dir = "C10"
    extra_targets = ["C10/Corr.vo"]
    trusted_base = [
        "Coq 8.16.1 kernel (coqc; vm_compute for the correspondence evaluation); no axioms",
        "hand-written model coq/C10/Model.v of DOFDistributor/_special_add_at/Field.weight/_single_power_analyze/power_analyze/create_power_operator (tied by correspondence, not by translation)",
        "binning (pindex, number of bins) is taken from the real PowerSpace object and fed to the model: its construction is C08's subject",
        "float64 vs exact field: gather/scatter-add/power operator compared exactly on integer data; analysis outputs within 2^-40 relative (one rounded reciprocal per weight)",
        "NumPy take/add.at/bincount as reference in the direct oracle",
    ]
    assumptions = [
        "sub-domains with several axes are contiguous blocks of the row-major array (DomainTuple.axes)",
        "all volume factors are non-zero and every bin is non-empty (the constructors reject empty bins)",
    ]

    def __init__(self):
        self.cases, self.obs = [], []

    def correspondence(self, ctx, res):
        corpus = [c["input"] if "input" in c else c for c in ctx.corpus()]
        n = 240 if ctx.quick else 1600
        self.cases = corpus + gen_cases(ctx, n)
        self.obs = [run_case(c) for c in self.cases]
        checks = [coq_check(c, o) for c, o in zip(self.cases, self.obs)]
        tag = "corr_%d" % os.getpid()          # per-process scratch names: concurrent runs do not collide
        try:
            bad = C.eval_cases(self.prop, tag, HEADER, checks, shard=60 if ctx.quick else 200, jobs=5)
        finally:
            for f in os.listdir(ctx.run_dir()):
                if f.startswith("cases_%s_" % tag) or f.startswith(".cases_%s_" % tag):
                    try:
                        os.remove(os.path.join(ctx.run_dir(), f))
                    except OSError:
                        pass
        for i in bad[:4]:
            res.add_broken("correspondence", "%s vs coq/C10/Model.v" % signature(self.cases[i])["fn"],
                           {"case": self.cases[i], "observed": {k: v for k, v in self.obs[i].items() if k in ("error", "message", "out", "specs", "pindex", "nbin", "steps")}})
        keys = {nontrivial_key(c, o) for c, o in zip(self.cases, self.obs)} - {None}
        dist = {}
        for c, o in zip(self.cases, self.obs):
            k = signature(c)["fn"] + ("/history" if c["kind"] in ("ahist", "ohist") else "/complex" if c.get("im") is not None else "/real")
            dist[k] = dist.get(k, 0) + 1
        binning = {"natural": 0, "custom": 0}
        ndom = {}
        errs = 0
        for c, o in zip(self.cases, self.obs):
            if "binbounds" in c:
                binning["natural" if c["binbounds"] is None else "custom"] += 1
            ndom[len(c["dom"])] = ndom.get(len(c["dom"]), 0) + 1
            errs += (o["error"] is not None) + sum(1 for so in o.get("steps", []) if so["error"] is not None)
        res.coverage.update({
            "evaluations": len(self.cases), "distinct_nontrivial": len(keys),
            "rule": "generated product domains (1-3 sub-domains; analysed: harmonic RGSpace 1-D sizes 1-9 / 2-D up to 5x5 with dyadic distances, LMSpace lmax<=3; passive: RG, GL, PowerSpace, DOFSpace, LM, Unstructured), natural / midpoint-subset / linear / logarithmic / deliberately empty binnings, arbitrary dofdex for DOFDistributor, integer-valued real and complex fields; bin sums with a huge dynamic range (members m*2^e_b, exponents 30-100 apart between bins, both orders) and inf / -inf / nan in single bins for the adjoint distributors (compared exactly, clean bins through C10_adjoint_bin_independent) and steep spectra for power_analyze; forced classes (acted-on sub-domain in the middle of a product domain with > 1 pixel before and after; several harmonic sub-domains with spaces = 0 / 1 / tuples / None; sub-domains without volume factors); histories of 2-4 create_power_operator / PS_field calls with ONE stateful callable (instance with __call__, bound method, functools.partial) whose parameters change between the calls; the power operator applied in all four modes (TIMES, ADJOINT_TIMES, INVERSE_TIMES, ADJOINT_INVERSE_TIMES; in the inverse modes the spectrum is +-2^k so that the float quotient is exact); histories of 3-7 power_analyze calls on ONE domain with changing binnings (natural / custom / empty bins, failing call then retry with the same binning), fields, dtypes and phase flags, every call compared with the pure model of its own arguments; non-trivial = at least 2 bins and a bin with at least 2 modes; distinct by (kind, domain, space, binning, dofdex, phase flag, dtype)",
            "samples": [{"case": {k: v for k, v in c.items() if k not in ("re", "im", "exact_p")}, "nbin": o.get("nbin"), "error": o["error"]}
                        for c, o in list(zip(self.cases, self.obs))[3:6]],
            "input_distribution": {"by_function": dist, "binning": binning, "n_subdomains": ndom, "cases_raising": errs,
                                   "power_operator_modes": {m: sum(1 for c in self.cases if c["kind"] == "powop" and c.get("mode") == m) for m in MODE_CTOR}},
            "disagreements": len(bad), "exhaustive": False,
            "comparison": "EXACT (Qc) for distributor times/adjoint, power operator, bin volumes; 2^-40 relative for power_analyze outputs; ValueError <-> None",
        })
        return bad

    def oracle(self, ctx, res, hints, budget):
        n = 0

        def report(c, o, f):
            res.add_failing(signature(c, o), f, c)

        for c, o in zip(self.cases, self.obs):
            n += 1
            f = direct_failure(c, o)
            if f:
                report(c, o, f)
                if len(res.failing) >= 3:
                    break
        # adjointness <y, D x> = <D^T y, x> on the distributor cases
        k = 0
        for c, o in zip(self.cases, self.obs):
            if c["kind"] in ("times", "adjoint", "dof_times", "dof_adjoint") and o["error"] is None:
                k += 1
                if budget == 1 and k > 40:
                    break
                n += 1
                try:
                    f = adjointness_failure(c)
                except Exception as e:  # noqa: BLE001
                    f = "adjointness test raised %s" % type(e).__name__
                if f:
                    res.add_failing(dict(signature(c), fn=signature(c)["fn"].split(".")[0] + ".adjointness"), f, dict(c, adjointness=True))
                    break
        if budget > 1 and not res.failing:
            for c in gen_cases(ctx, 1200, salt=77):
                o = run_case(c)
                n += 1
                f = direct_failure(c, o)
                if f:
                    report(c, o, f)
                    break
        res.coverage["impl_property_evaluations"] = n

    def replay(self, ctx, rp):
        c = rp["input"]
        if c.get("adjointness"):
            return adjointness_failure(c) is not None
        return direct_failure(c, run_case(c)) is not None


CHECK = C10()
