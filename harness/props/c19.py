"""C19 -- The sampled KL energy is the sample average of the Hamiltonian.

Tie: hand model coq/C19/Model.v (generic KL over C23's summation tree + rational instance with
generated polynomial Gaussian Hamiltonians) + correspondence: classic SampledKLEnergyClass /
SampledKLEnergy and JAX OptimizeVI.kl_value_and_grad / kl_metric / kl_minimize(constants) are run on
generated multi-domain models; value, gradient, metric, position, `at`, residuals and reported
samples are compared inside coqc -- EXACTLY for integer residuals with a power-of-two number of
samples, within 1e-8 for drawn (float) residuals / other sample counts.
Direct oracle: direct averaging of the implementation's own Hamiltonian over mean +- residual_i."""
import io
import contextlib
import itertools
import json
import traceback
from fractions import Fraction as Fr

import numpy as np

from .. import common as C

KEYS = ["a", "b", "c"]
TOL = 1e-8
TOLQ = "(1 # 100000000)%Q"

HEADER = ("From Coq Require Import List QArith. Import ListNotations.\n"
          "Require Import NV.C19.Model.\nOpen Scope Q_scope.\n")


def _quiet(fn):
    buf = io.StringIO()
    with contextlib.redirect_stdout(buf), contextlib.redirect_stderr(buf):
        return fn()


def _nifty_quiet():
    import logging
    try:
        import nifty.cl as ift
        ift.logger.setLevel(logging.ERROR)
    except Exception:
        pass
    try:
        import nifty.re as jft
        jft.logger.setLevel(logging.ERROR)
    except Exception:
        pass


# --------------------------------------------------------------------------------------------------
# cases
# --------------------------------------------------------------------------------------------------

def gen_case(rng, idx, api, mode):
    """mode: 'exact' (integer residuals given directly, 2^k samples), 'count' (integer residuals,
    any count, tolerance), 'drawn' (public entry point, samples drawn by the implementation)."""
    K = int(rng.integers(2, 4))
    keys = KEYS[:K]
    sizes = [int(rng.integers(1, 3)) for _ in keys]
    n = sum(sizes)
    m = int(rng.integers(2, 4))
    A = rng.integers(-1, 2, size=(m, n))
    Cm = rng.integers(-1, 2, size=(m, n)) * (rng.random((m, n)) < 0.4)
    Dm = rng.integers(-1, 2, size=(m, n)) * (rng.random((m, n)) < 0.4)
    linear = bool(rng.random() < 0.25)
    if linear:
        Cm = Cm * 0
        Dm = Dm * 0
    w = [int(x) for x in rng.choice([1, 4], size=m)]
    d = rng.integers(-2, 3, size=m)
    mean = {k: [int(x) for x in rng.integers(-2, 3, size=s)] for k, s in zip(keys, sizes)}
    mirrored = bool(rng.random() < 0.6) or api == "re"          # the JAX driver always mirrors
    if mode == "exact":
        npairs = int(rng.choice([1, 2, 4]))
    else:
        npairs = int(rng.choice([1, 2, 3, 5]))
    # every split of the keys into constants / point estimates is reachable; never all keys
    subsets = [list(c) for r in range(0, K) for c in itertools.combinations(keys, r)]
    constants = subsets[int(rng.integers(len(subsets)))]
    point_est = subsets[int(rng.integers(len(subsets)))]
    if api == "re":
        point_est = []
    res_keys = [k for k in keys if k not in point_est]
    residuals = [{k: [int(x) for x in rng.integers(-2, 3, size=s)] for k, s in zip(keys, sizes) if k in res_keys}
                 for _ in range(npairs)]
    var = [k for k in keys if k not in constants]
    tangent = {k: [int(x) for x in rng.integers(-2, 3, size=s)] for k, s in zip(keys, sizes) if k in var}
    newpos = {k: [int(x) for x in rng.integers(-2, 3, size=s)] for k, s in zip(keys, sizes) if k in var}
    oldpos = {k: [int(x) for x in rng.integers(-2, 3, size=s)] for k, s in zip(keys, sizes)}
    if all(oldpos[k] == mean[k] for k in keys):
        oldpos[keys[0]][0] += 1
    return {"idx": int(idx), "api": api, "mode": mode, "keys": keys, "sizes": sizes, "m": m,
            "A": A.tolist(), "C": Cm.tolist(), "D": Dm.tolist(), "w": w, "d": [int(x) for x in d],
            "mean": mean, "mirrored": mirrored, "npairs": npairs, "constants": constants,
            "point_estimates": point_est, "residuals": residuals, "tangent": tangent, "newpos": newpos, "oldpos": oldpos,
            "linear": linear}


def expand_samples(case):
    """(residual dicts, neg flags) in the order of the classic sample list."""
    res, neg = [], []
    for r in case["residuals"]:
        res.append(r)
        neg.append(False)
        if case["mirrored"]:
            res.append(r)
            neg.append(True)
    return res, neg


# --------------------------------------------------------------------------------------------------
# classic implementation
# --------------------------------------------------------------------------------------------------

def classic_hamiltonian(case):
    import nifty.cl as ift
    from .. import lg_common as L
    keys, sizes = case["keys"], case["sizes"]
    doms = {k: ift.UnstructuredDomain(s) for k, s in zip(keys, sizes)}
    mdom = ift.MultiDomain.make(doms)
    tgt = ift.UnstructuredDomain(case["m"])
    offs = np.concatenate([[0], np.cumsum(sizes)])

    def lin(M):
        M = np.asarray(M, dtype=np.float64)
        op = None
        for i, k in enumerate(keys):
            part = L.dense_op(doms[k], tgt, M[:, offs[i]:offs[i + 1]]) @ ift.FieldAdapter(doms[k], k)
            op = part if op is None else op + part
        return op
    f = lin(case["A"])
    if not case["linear"]:
        f = f + lin(case["C"]) * lin(case["D"])
    # make sure the operator lives on the full multi-domain even if a block is unused
    icov = ift.DiagonalOperator(ift.makeField(tgt, np.asarray(case["w"], dtype=np.float64)), sampling_dtype=np.float64)
    lh = ift.GaussianEnergy(ift.makeField(tgt, np.asarray(case["d"], dtype=np.float64)), icov) @ f
    ic = ift.AbsDeltaEnergyController(1e-14, iteration_limit=300, convergence_level=3)
    H = ift.StandardHamiltonian(lh, ic, prior_sampling_dtype=np.float64)
    return H, mdom, doms


def mfield(doms, d):
    import nifty.cl as ift
    return ift.MultiField.from_dict({k: ift.makeField(doms[k], np.asarray(v, dtype=np.float64)) for k, v in d.items()})


def mf_dict(f):
    return {k: np.asarray(v, dtype=np.float64).tolist() for k, v in f.asnumpy().items()}


def run_classic(case, seed):
    import nifty.cl as ift
    from nifty.cl.minimization.kl_energies import SampledKLEnergyClass
    from nifty.cl.minimization.sample_list import ResidualSampleList
    H, mdom, doms = classic_hamiltonian(case)
    mean = mfield(doms, case["mean"])
    consts = list(case["constants"])
    out = {}
    if case["mode"] == "drawn":
        with ift.random.Context(seed * 1000 + case["idx"]):
            kl = _quiet(lambda: ift.SampledKLEnergy(mean, H, case["npairs"], None, mirror_samples=case["mirrored"],
                                                    constants=consts, point_estimates=list(case["point_estimates"])))
        sl = kl._sample_list
        out["residuals"] = [mf_dict(r) for r in sl._r]
        out["neg"] = [bool(x) for x in sl._n]
    else:
        res, neg = expand_samples(case)
        rdoms = {k: doms[k] for k in case["keys"] if k not in case["point_estimates"]}
        sl = ResidualSampleList(mean, [mfield(rdoms, r) for r in res], neg)
        kl = SampledKLEnergyClass(sl, H, consts, None, True)
        out["residuals"] = res
        out["neg"] = neg
    out["value"] = float(kl.value)
    out["gradient"] = mf_dict(kl.gradient)
    out["position"] = mf_dict(kl.position)
    x = mfield({k: doms[k] for k in case["tangent"]}, case["tangent"])
    out["metric"] = mf_dict(kl.apply_metric(x))
    p = mfield({k: doms[k] for k in case["newpos"]}, case["newpos"])
    kl2 = kl.at(p)
    out["at_value"] = float(kl2.value)
    out["at_gradient"] = mf_dict(kl2.gradient)
    out["at_position"] = mf_dict(kl2.position)
    out["at_residuals"] = [mf_dict(r) for r in kl2._sample_list._r]
    out["at_neg"] = [bool(x) for x in kl2._sample_list._n]
    out["at_same_residual_objects"] = all(a is b for a, b in zip(kl2._sample_list._r, kl._sample_list._r))
    out["at_samples_mean"] = mf_dict(kl2.samples.mean)
    out["samples_mean"] = mf_dict(kl.samples.mean)
    out["samples"] = [mf_dict(s) for s in kl.samples.iterator()]
    # SampleListBase.average(op=None) and n_samples (model: sl_average, sl_n)
    out["samples_average"] = mf_dict(kl.samples.average())
    out["at_samples_average"] = mf_dict(kl2.samples.average())
    out["n_samples"] = int(kl.samples.n_samples)
    out["at_n_samples"] = int(kl2.samples.n_samples)
    # direct averaging on the implementation's own Hamiltonian (oracle material)
    vals, grads, mets, cste = [], [], [], []
    full_mean = kl.samples.mean
    var = [k for k in case["keys"] if k not in consts]
    xfull = mfield(doms, {k: (case["tangent"][k] if k in case["tangent"] else [0.0] * s)
                          for k, s in zip(case["keys"], case["sizes"])})
    for r, ng in zip(out["residuals"], out["neg"]):
        rf = mfield({k: doms[k] for k in r}, r) if r else None
        s = full_mean.flexible_addsub(rf, ng) if rf is not None else full_mean
        lin = H(ift.Linearization.make_var(s, want_metric=True))
        vals.append(float(lin.val.asnumpy()))
        sn = s.asnumpy()
        cste.append(0.5 * sum(float(np.sum(np.asarray(sn[k]) ** 2)) for k in consts))
        grads.append({k: lin.gradient.asnumpy()[k] for k in var})
        mx = lin.metric(xfull).asnumpy()
        mets.append({k: mx[k] for k in var})
    out["direct"] = {"value": float(np.mean(vals)), "constant_prior_energy": float(np.mean(cste)),
                     "gradient": {k: np.mean([g[k] for g in grads], axis=0).tolist() for k in var},
                     "metric": {k: np.mean([g[k] for g in mets], axis=0).tolist() for k in var}}
    return out


# --------------------------------------------------------------------------------------------------
# JAX implementation
# --------------------------------------------------------------------------------------------------

def jax_likelihood(case):
    import jax.numpy as jnp
    import nifty.re as jft
    keys, sizes = case["keys"], case["sizes"]
    A, Cm, Dm = (jnp.asarray(np.asarray(case[k], dtype=np.float64)) for k in ("A", "C", "D"))
    w = jnp.asarray(np.asarray(case["w"], dtype=np.float64))
    d = jnp.asarray(np.asarray(case["d"], dtype=np.float64))
    linear = case["linear"]

    def fwd(x):
        v = jnp.concatenate([x[k] for k in keys])
        out = A @ v
        if not linear:
            out = out + (Cm @ v) * (Dm @ v)
        return out
    dom = jft.Vector({k: jft.ShapeWithDtype((s,), jnp.float64) for k, s in zip(keys, sizes)})
    sw = jnp.sqrt(w)
    lh = jft.Gaussian(d, noise_cov_inv=lambda x: w * x, noise_std_inv=lambda x: sw * x)
    return lh.amend(fwd, domain=dom)


def vdict(v):
    t = v.tree if hasattr(v, "tree") else v
    return {k: np.asarray(a, dtype=np.float64).tolist() for k, a in t.items()}


def run_jax(case, seed):
    import jax
    import jax.numpy as jnp
    import nifty.re as jft
    from nifty.re import optimize
    keys, sizes = case["keys"], case["sizes"]
    lh = jax_likelihood(case)
    pos = jft.Vector({k: jnp.asarray(np.asarray(case["mean"][k], dtype=np.float64)) for k in keys})
    opt = jft.OptimizeVI(lh, 1, jit=False, linear_minimizer_jit=False)
    out = {}
    if case["mode"] == "drawn":
        ks = jax.random.split(jax.random.PRNGKey(seed * 1000 + case["idx"]), case["npairs"])
        smp, _ = _quiet(lambda: opt.draw_linear_samples(
            pos, ks, point_estimates=(),
            cg_kwargs=dict(resnorm=1e-12, absdelta=None, miniter=0, maxiter=100), cg_name=None))
        res = [{k: np.asarray(smp._samples.tree[k][i], dtype=np.float64).tolist() for k in keys}
               for i in range(len(smp))]
    else:
        res = []
        for r in case["residuals"]:
            res.append({k: [float(x) for x in r[k]] for k in keys})
            res.append({k: [-float(x) for x in r[k]] for k in keys})
        smp = jft.Samples(pos=pos, samples=jft.Vector(
            {k: jnp.asarray(np.array([r[k] for r in res], dtype=np.float64)) for k in keys}))
    out["residuals"] = res
    out["neg"] = [False] * len(res)
    consts = tuple(case["constants"])
    var = [k for k in keys if k not in consts]
    tang_full = jft.Vector({k: jnp.asarray(np.asarray(case["tangent"].get(k, [0.0] * s), dtype=np.float64))
                            for k, s in zip(keys, sizes)})
    v, g = opt.kl_value_and_grad(pos, primals_samples=smp)
    out["value_full"] = float(v)
    out["gradient_full"] = vdict(g)
    out["metric_full"] = vdict(opt.kl_metric(pos, tang_full, primals_samples=smp))
    # the route through kl_minimize (constants): a recording "minimiser"
    rec = {}
    newpos = case["newpos"]

    def mini(fun, x0, fun_and_grad, hessp, **kw):
        rec["x0"] = x0
        rec["vg"] = fun_and_grad(x0)
        leaves = jax.tree_util.tree_leaves(x0)
        tl = [jnp.asarray(np.asarray(case["tangent"][k], dtype=np.float64)) for k in var]
        tt = jax.tree_util.tree_unflatten(jax.tree_util.tree_structure(x0), tl)
        rec["met"] = hessp(x0, tt)
        nl = [jnp.asarray(np.asarray(newpos[k], dtype=np.float64)) for k in var]
        x = jax.tree_util.tree_unflatten(jax.tree_util.tree_structure(x0), nl)
        return optimize.OptimizeResults(x=x, success=True, status=0, fun=rec["vg"][0], jac=rec["vg"][1], nit=1)
    st = opt.kl_minimize(smp, minimize=mini, minimize_kwargs={}, constants=consts)

    def leaves_dict(t):
        ls = [np.asarray(a, dtype=np.float64).tolist() for a in jax.tree_util.tree_leaves(t)]
        if len(ls) != len(var):
            raise RuntimeError("reduced tree has %d leaves for %d variable keys" % (len(ls), len(var)))
        return dict(zip(var, ls))
    out["position"] = leaves_dict(rec["x0"])
    out["value"] = float(rec["vg"][0])
    out["gradient"] = leaves_dict(rec["vg"][1])
    out["metric"] = leaves_dict(rec["met"])
    out["at_position_full"] = vdict(st.x)
    smp2 = smp.at(st.x)
    out["at_residuals"] = [{k: np.asarray(smp2._samples.tree[k][i], dtype=np.float64).tolist() for k in keys}
                           for i in range(len(smp2))]
    v2, g2 = opt.kl_value_and_grad(st.x, primals_samples=smp2)
    out["at_value"] = float(v2)
    out["at_gradient_full"] = vdict(g2)
    # the way a minimiser calls it: new primals, the ORIGINAL samples object (expansion point moves,
    # residuals stay)
    v3, g3 = opt.kl_value_and_grad(st.x, primals_samples=smp)
    out["moved_value"] = float(v3)
    out["moved_gradient_full"] = vdict(g3)
    out["moved_metric_full"] = vdict(opt.kl_metric(st.x, tang_full, primals_samples=smp))
    # two-argument form Samples.at(new, old_pos) with old_pos != stored position: the residuals become
    # (absolute samples - old_pos); KL value / gradient / metric through the moved samples
    oldp = {k: [float(x) for x in case.get("oldpos", case["mean"])[k]] for k in keys}
    old_vec = jft.Vector({k: jnp.asarray(np.asarray(oldp[k], dtype=np.float64)) for k in keys})
    smp4 = smp.at(st.x, old_pos=old_vec)
    out["old_residuals"] = [{k: np.asarray(smp4._samples.tree[k][i], dtype=np.float64).tolist() for k in keys}
                            for i in range(len(smp4))]
    out["old_pos_new"] = vdict(smp4.pos)
    v4, g4 = opt.kl_value_and_grad(st.x, primals_samples=smp4)
    out["old_value"] = float(v4)
    out["old_gradient_full"] = vdict(g4)
    out["old_metric_full"] = vdict(opt.kl_metric(st.x, tang_full, primals_samples=smp4))
    out["samples"] = [{k: np.asarray(smp2.samples.tree[k][i], dtype=np.float64).tolist() for k in keys}
                      for i in range(len(smp2))]
    # direct averaging with the Hamiltonian of the implementation
    from nifty.re.optimize_kl import _StandardHamiltonian
    ham = _StandardHamiltonian(lh)
    vals, grads, mets = [], [], []
    for r in res:
        s = jft.Vector({k: pos.tree[k] + jnp.asarray(np.asarray(r[k], dtype=np.float64)) for k in keys})
        vv, gg = jax.value_and_grad(ham)(s)
        vals.append(float(vv))
        grads.append(vdict(gg))
        mets.append(vdict(ham.metric(s, tang_full)))
    out["direct"] = {"value": float(np.mean(vals)),
                     "gradient": {k: np.mean([g[k] for g in grads], axis=0).tolist() for k in keys},
                     "metric": {k: np.mean([g[k] for g in mets], axis=0).tolist() for k in keys}}
    vals, grads, mets = [], [], []
    for r in res:
        s = jft.Vector({k: st.x.tree[k] + jnp.asarray(np.asarray(r[k], dtype=np.float64)) for k in keys})
        vv, gg = jax.value_and_grad(ham)(s)
        vals.append(float(vv))
        grads.append(vdict(gg))
        mets.append(vdict(ham.metric(s, tang_full)))
    vals4, grads4, mets4 = [], [], []
    for r in res:
        s = jft.Vector({k: st.x.tree[k] + (pos.tree[k] + jnp.asarray(np.asarray(r[k], dtype=np.float64)) - old_vec.tree[k])
                        for k in keys})
        vv, gg = jax.value_and_grad(ham)(s)
        vals4.append(float(vv))
        grads4.append(vdict(gg))
        mets4.append(vdict(ham.metric(s, tang_full)))
    out["direct_old"] = {"value": float(np.mean(vals4)),
                         "gradient": {k: np.mean([g[k] for g in grads4], axis=0).tolist() for k in keys},
                         "metric": {k: np.mean([g[k] for g in mets4], axis=0).tolist() for k in keys}}
    out["direct_moved"] = {"value": float(np.mean(vals)),
                           "gradient": {k: np.mean([g[k] for g in grads], axis=0).tolist() for k in keys},
                           "metric": {k: np.mean([g[k] for g in mets], axis=0).tolist() for k in keys}}
    return out


def run_impl(case, seed):
    try:
        return run_classic(case, seed) if case["api"] == "cl" else run_jax(case, seed)
    except Exception as e:
        return {"error": "%s: %s" % (type(e).__name__, str(e)[:300]), "trace": traceback.format_exc()[-1500:]}


# --------------------------------------------------------------------------------------------------
# Coq terms
# --------------------------------------------------------------------------------------------------

def qv(v):
    return C.clist([C.cq(Fr(x) if isinstance(x, int) else float(x)) for x in v])


def qmat(a):
    return C.clist([qv([int(x) for x in r]) for r in a])


def kid(case, k):
    return case["keys"].index(k)


def qmf(case, d):
    """multi-field literal, entries sorted by key"""
    ks = [k for k in case["keys"] if k in d]
    return C.clist(["(%s, %s)" % (C.cnat(kid(case, k)), qv(d[k])) for k in ks])


def model_term(case):
    return "{| pA := %s; pC := %s; pD := %s; pw := %s; pd := %s |}" % (
        qmat(case["A"]), qmat(case["C"]), qmat(case["D"]), qv(case["w"]), qv(case["d"]))


def exact_case(case, out):
    n = len(out["residuals"])
    ints = all(float(x).is_integer() for r in out["residuals"] for v in r.values() for x in v)
    return ints and n in (1, 2, 4, 8, 16)


def coq_checks(case, out):
    """list of (name, boolean term)"""
    tol = "0" if exact_case(case, out) else TOLQ
    M = model_term(case)
    consts = C.clist([C.cnat(kid(case, k)) for k in case["constants"]])
    mean = qmf(case, case["mean"])
    res = C.clist([qmf(case, r) for r in out["residuals"]])
    neg = C.clist([C.cbool(b) for b in out["neg"]])
    e = "{| kl_sl := {| sl_mean := %s; sl_res := %s; sl_neg := %s |}; kl_constants := %s; kl_invariants := None |}" % (
        mean, res, neg, consts)
    x = qmf(case, case["tangent"])
    p = qmf(case, case["newpos"])
    chk = []
    if case["api"] == "cl":
        chk.append(("value", "ocmp_T %s (q_kl_value (%s) (%s)) %s" % (tol, M, e, C.cq(out["value"]))))
        chk.append(("gradient", "ocmp_mf %s (q_kl_gradient (%s) (%s)) %s" % (tol, M, e, qmf(case, out["gradient"]))))
        chk.append(("metric", "ocmp_mf %s (q_kl_apply_metric (%s) (%s) %s) %s" % (tol, M, e, x, qmf(case, out["metric"]))))
        chk.append(("position", "mfcmp 0 (kl_position Q (%s)) %s" % (e, qmf(case, out["position"]))))
        e2 = "(kl_at Q (%s) %s)" % (e, p)
        chk.append(("at.value", "ocmp_T %s (q_kl_value (%s) %s) %s" % (tol, M, e2, C.cq(out["at_value"]))))
        chk.append(("at.gradient", "ocmp_mf %s (q_kl_gradient (%s) %s) %s" % (tol, M, e2, qmf(case, out["at_gradient"]))))
        chk.append(("at.position", "mfcmp 0 (kl_position Q %s) %s" % (e2, qmf(case, out["at_position"]))))
        chk.append(("at.residuals", "lmfcmp 0 (sl_res (kl_sl %s)) %s && %s" % (
            e2, C.clist([qmf(case, r) for r in out["at_residuals"]]),
            C.cbool(out["at_neg"] == out["neg"] and out["at_same_residual_objects"]))))
        chk.append(("at.samples_mean", "mfcmp 0 (sl_mean (kl_samples Q %s)) %s" % (e2, qmf(case, out["at_samples_mean"]))))
        chk.append(("samples", "lmfcmp %s (sl_samples Q qadd qsub (kl_samples Q (%s))) %s" % (
            tol, e, C.clist([qmf(case, s) for s in out["samples"]]))))
        chk.append(("samples.average", "ocmp_mf %s (sl_average Q qadd qsub qdivn (kl_samples Q (%s))) %s" % (
            tol, e, qmf(case, out["samples_average"]))))
        chk.append(("at.samples.average", "ocmp_mf %s (sl_average Q qadd qsub qdivn (kl_samples Q %s)) %s" % (
            tol, e2, qmf(case, out["at_samples_average"]))))
        chk.append(("n_samples", "Nat.eqb (sl_n Q (kl_samples Q (%s))) %s && Nat.eqb (sl_n Q (kl_samples Q %s)) %s" % (
            e, C.cnat(out["n_samples"]), e2, C.cnat(out["at_n_samples"]))))
    else:
        chk.append(("value", "ocmp_T %s (q_jax_value (%s) %s %s) %s" % (tol, M, mean, res, C.cq(out["value"]))))
        chk.append(("value_full", "ocmp_T %s (q_jax_value (%s) %s %s) %s" % (tol, M, mean, res, C.cq(out["value_full"]))))
        chk.append(("gradient", "ocmp_mf %s (q_jax_grad (%s) %s %s %s) %s" % (tol, M, consts, mean, res, qmf(case, out["gradient"]))))
        chk.append(("gradient_full", "ocmp_mf %s (q_jax_grad (%s) [] %s %s) %s" % (tol, M, mean, res, qmf(case, out["gradient_full"]))))
        chk.append(("metric", "ocmp_mf %s (q_jax_metric (%s) %s %s %s %s) %s" % (tol, M, consts, mean, res, x, qmf(case, out["metric"]))))
        chk.append(("metric_full", "ocmp_mf %s (q_jax_metric (%s) [] %s %s %s) %s" % (tol, M, mean, res, x, qmf(case, out["metric_full"]))))
        chk.append(("position", "mfcmp 0 (reduce_field Q %s %s) %s" % (mean, consts, qmf(case, out["position"]))))
        newmean = "(union Q %s %s)" % (mean, p)
        chk.append(("at.position", "mfcmp 0 %s %s" % (newmean, qmf(case, out["at_position_full"]))))
        chk.append(("at.residuals", "lmfcmp 0 %s %s" % (res, C.clist([qmf(case, r) for r in out["at_residuals"]]))))
        chk.append(("at.value", "ocmp_T %s (q_jax_value (%s) %s %s) %s" % (tol, M, newmean, res, C.cq(out["at_value"]))))
        chk.append(("at.gradient", "ocmp_mf %s (q_jax_grad (%s) [] %s %s) %s" % (tol, M, newmean, res, qmf(case, out["at_gradient_full"]))))
        chk.append(("samples", "lmfcmp %s (jax_samples Q qadd qsub %s %s) %s" % (
            tol, newmean, res, C.clist([qmf(case, s) for s in out["samples"]]))))
        oldq = qmf(case, case.get("oldpos", case["mean"]))
        res4 = "(jax_at_old Q qadd qsub %s %s %s)" % (mean, oldq, res)
        chk.append(("at_old.residuals", "lmfcmp %s %s %s" % (tol, res4, C.clist([qmf(case, r) for r in out["old_residuals"]]))))
        chk.append(("at_old.value", "ocmp_T %s (q_jax_value (%s) %s %s) %s" % (tol, M, newmean, res4, C.cq(out["old_value"]))))
        chk.append(("at_old.gradient", "ocmp_mf %s (q_jax_grad (%s) [] %s %s) %s" % (tol, M, newmean, res4, qmf(case, out["old_gradient_full"]))))
        chk.append(("at_old.metric", "ocmp_mf %s (q_jax_metric (%s) [] %s %s %s) %s" % (tol, M, newmean, res4, x, qmf(case, out["old_metric_full"]))))
        chk.append(("moved.value", "ocmp_T %s (q_jax_value (%s) %s %s) %s" % (tol, M, newmean, res, C.cq(out["moved_value"]))))
        chk.append(("moved.gradient", "ocmp_mf %s (q_jax_grad (%s) [] %s %s) %s" % (tol, M, newmean, res, qmf(case, out["moved_gradient_full"]))))
        chk.append(("moved.metric", "ocmp_mf %s (q_jax_metric (%s) [] %s %s %s) %s" % (tol, M, newmean, res, x, qmf(case, out["moved_metric_full"]))))
    return chk


# --------------------------------------------------------------------------------------------------
# direct statement on the implementation
# --------------------------------------------------------------------------------------------------

def _close(a, b, scale=1.0):
    a, b = np.asarray(a, dtype=np.float64), np.asarray(b, dtype=np.float64)
    return a.shape == b.shape and np.all(np.abs(a - b) <= 1e-9 * max(1.0, scale, float(np.abs(b).max()) if b.size else 1.0))


def direct_failures(case, out):
    """list of (class, message): every way in which the property fails on this input"""
    if "error" in out:
        return [("raised", "implementation raised: " + out["error"])]
    fails = []
    d = out["direct"]
    if not _close(out["value"], d["value"]):
        off = d.get("constant_prior_energy", 0.0)
        if case["constants"] and off != 0.0 and _close(out["value"] + off, d["value"]):
            fails.append(("value-offset-constants",
                          "KL value %r is the sample average %r of the Hamiltonian minus the prior energy %r of the constant keys %r"
                          % (out["value"], d["value"], off, case["constants"])))
        else:
            fails.append(("value", "KL value %r is not the sample average %r of the Hamiltonian" % (out["value"], d["value"])))
    f = direct_failure(case, out)
    if f:
        fails.append(("other", f))
    return fails


def direct_failure(case, out):
    if "error" in out:
        return "implementation raised: " + out["error"]
    d = out["direct"]
    consts = case["constants"]
    var = [k for k in case["keys"] if k not in consts]
    if sorted(out["gradient"].keys()) != sorted(var):
        return "KL gradient lives on keys %r, variable keys are %r" % (sorted(out["gradient"]), var)
    for k in var:
        if not _close(out["gradient"][k], d["gradient"][k]):
            return "KL gradient[%s] is not the sample average of the Hamiltonian's gradient" % k
        if not _close(out["metric"][k], d["metric"][k]):
            return "KL metric[%s] is not the sample average of the Hamiltonian's metric" % k
    if sorted(out["position"].keys()) != sorted(var):
        return "optimised position has keys %r, variable keys are %r" % (sorted(out["position"]), var)
    for k in var:
        if out["position"][k] != [float(x) for x in case["mean"][k]]:
            return "optimised position differs from the mean on key %s" % k
    if "direct_old" in out:
        do = out["direct_old"]
        want = [{k: (np.asarray(case["mean"][k], dtype=np.float64) + np.asarray(r[k], dtype=np.float64)
                     - np.asarray(case.get("oldpos", case["mean"])[k], dtype=np.float64)) for k in case["keys"]} for r in out["residuals"]]
        for w, got in zip(want, out["old_residuals"]):
            for k in case["keys"]:
                if not _close(got[k], w[k]):
                    return "Samples.at(new, old_pos): residuals are not (absolute samples - old_pos) on key %s" % k
        if not _close(out["old_value"], do["value"]):
            return "KL value through Samples.at(new, old_pos) is not the average over new + (sample_i - old_pos)"
        for k in case["keys"]:
            if not _close(out["old_gradient_full"][k], do["gradient"][k]):
                return "KL gradient[%s] through Samples.at(new, old_pos) is not the average over new + (sample_i - old_pos)" % k
            if not _close(out["old_metric_full"][k], do["metric"][k]):
                return "KL metric[%s] through Samples.at(new, old_pos) is not the average over new + (sample_i - old_pos)" % k
    if "direct_moved" in out:
        dm = out["direct_moved"]
        if not _close(out["moved_value"], dm["value"]) or not _close(out["at_value"], dm["value"]):
            return "KL value at moved primals is not the sample average around the new expansion point"
        for k in case["keys"]:
            if not _close(out["moved_gradient_full"][k], dm["gradient"][k]):
                return "KL gradient[%s] at moved primals is not the sample average around the new expansion point" % k
            if not _close(out["moved_metric_full"][k], dm["metric"][k]):
                return "KL metric[%s] at moved primals is not the sample average around the new expansion point" % k
    # at(): residuals kept, constants kept, variable keys moved
    if case["api"] == "cl":
        if out["at_residuals"] != [{k: [float(x) for x in v] for k, v in r.items()} for r in out["residuals"]] \
                or out["at_neg"] != out["neg"]:
            return "at(new position) changed residuals or neg flags"
        atm = out["at_samples_mean"]
    else:
        if out["at_residuals"] != out["residuals"]:
            return "Samples.at(new position) changed the residuals"
        atm = out["at_position_full"]
    for k in case["keys"]:
        want = case["mean"][k] if k in consts else case["newpos"][k]
        if atm[k] != [float(x) for x in want]:
            return "after minimisation/at key %s is %r, expected %r (%s)" % (
                k, atm[k], want, "constant" if k in consts else "variable")
    # samples = mean +- residual, point-estimated keys unperturbed
    base = out["samples_mean"] if case["api"] == "cl" else out["at_position_full"]
    for s, r, ng in zip(out["samples"], out["residuals"], out["neg"]):
        for k in case["keys"]:
            rr = np.asarray(r.get(k, [0.0] * len(base[k])), dtype=np.float64)
            want = np.asarray(base[k]) + (-rr if ng else rr)
            if not _close(s[k], want):
                return "sample differs from mean +- residual on key %s" % k
    return None


def sig(case, cls):
    return {"api": case["api"], "fn": "SampledKLEnergy" if case["api"] == "cl" else "OptimizeVI.kl", "class": cls}


class C19(C.Check):
    prop = "C19"
    coq_dir = "C19"
    trusted_base = [
        "Coq 8.16.1 kernel; all C19 theorems are closed under the global context (they reuse NV.C23.Model and the unbounded tree-shape theorem NV.C23.Leaves.seq_sum_assoc)",
        "hand-written model coq/C19/Model.v of SampledKLEnergyClass / ResidualSampleList / _kl_vg / _kl_met / kl_minimize(constants) (tied by correspondence)",
        "simplify_for_constant_input is modelled by its specification (value and restricted gradient of the full Hamiltonian; property C04), checked here through the correspondence",
        "harness-side construction of the generated Hamiltonians on both APIs (harness/props/c19.py, harness/lg_common.dense_op)",
    ]
    assumptions = [
        "scalar addition is associative when the summation tree is identified with the arithmetic mean (exact for the integer/dyadic cases; float64 differences are below the 1e-8 tolerance otherwise)",
        "XLA's reduction order in jnp.mean is unspecified; compared exactly only where every order gives the same float",
    ]

    def __init__(self):
        self.obs = []

    def gen_cases(self, ctx):
        rng = ctx.rng(19)
        n_cl, n_re = (20, 5) if ctx.quick else (300, 60)
        cases = []
        for i in range(n_cl):
            mode = ["exact", "exact", "count", "drawn"][i % 4]
            cases.append(gen_case(rng, i, "cl", mode))
        for i in range(n_re):
            mode = ["exact", "exact", "count", "drawn"][i % 4]
            cases.append(gen_case(rng, 1000 + i, "re", mode))
        return cases

    def correspondence(self, ctx, res):
        _nifty_quiet()
        cases = [c["case"] for c in ctx.corpus() if "case" in c] + self.gen_cases(ctx)
        self.obs = []
        checks, meta = [], []
        for case in cases:
            out = run_impl(case, ctx.seed)
            self.obs.append((case, out))
            if "error" in out:
                checks.append("false")
                meta.append((case, "run"))
                continue
            for name, term in coq_checks(case, out):
                checks.append(term)
                meta.append((case, name))
        from .. import lg_common as L
        bad = L.eval_cases_pid(C, self.prop, HEADER, checks, 60)
        seen = set()
        for i in bad:
            case, name = meta[i]
            if (case["api"], name) in seen:
                continue
            seen.add((case["api"], name))
            out = [o for c, o in self.obs if c is case][0]
            res.add_broken("correspondence", "%s %s vs coq/C19/Model.v" % (case["api"], name),
                           {"case": case, "observable": name,
                            "impl": {k: v for k, v in out.items() if k not in ("trace", "samples", "direct")}})
            if len(seen) > 4:
                break
        exact = sum(1 for c, o in self.obs if "error" not in o and exact_case(c, o))
        splits = {(c["api"], tuple(c["constants"]), tuple(c["point_estimates"]), c["mirrored"]) for c, o in self.obs}
        res.coverage.update({
            "evaluations": len(checks),
            "distinct_nontrivial": len({json.dumps([c["A"], c["C"], c["D"], c["mean"], c["residuals"], c["constants"]])
                                        for c, o in self.obs if not c["linear"]}),
            "rule": "generated StandardHamiltonians (Gaussian likelihood of A x + (C x)*(D x), integer entries) on 2-3 keys; "
                    "every split of keys into constants / point estimates (never all), mirrored and unmirrored, 1-5 residual pairs; "
                    "observables value/gradient/metric/position/at/residuals/samples; non-trivial = non-linear signal; distinct by model+samples",
            "exact_cases": exact, "tolerance_cases": len(self.obs) - exact,
            "distinct_key_splits": len(splits),
            "samples": [{"case": c} for c, o in self.obs[1:3]],
            "input_distribution": {"classic": sum(1 for c, o in self.obs if c["api"] == "cl"),
                                   "jax": sum(1 for c, o in self.obs if c["api"] == "re"),
                                   "modes": {m: sum(1 for c, o in self.obs if c["mode"] == m) for m in ("exact", "count", "drawn")}},
            "disagreements": len(bad),
        })
        return [meta[i] for i in bad]

    def oracle(self, ctx, res, hints, budget):
        _nifty_quiet()
        n = 0
        seen = set()
        for case, out in self.obs:
            n += 1
            for cls, f in direct_failures(case, out):
                if (case["api"], cls) not in seen:
                    seen.add((case["api"], cls))
                    res.add_failing(sig(case, cls), "%s: %s" % (case["api"], f), {"case": case, "seed": ctx.seed})
        if budget > 1 and not res.failing:
            rng = ctx.rng(1919)
            apis = sorted({h[0]["api"] for h in hints}) or ["cl", "re"]
            for i in range(30 * budget):
                case = gen_case(rng, 5000 + i, apis[i % len(apis)], ["exact", "count", "drawn"][i % 3])
                out = run_impl(case, ctx.seed)
                n += 1
                fs = [x for x in direct_failures(case, out) if x[0] != "value-offset-constants"]
                if fs:
                    res.add_failing(sig(case, fs[0][0]), "%s: %s" % (case["api"], fs[0][1]), {"case": case, "seed": ctx.seed})
                    break
        res.coverage["impl_property_evaluations"] = n

    def replay(self, ctx, rp):
        _nifty_quiet()
        case = rp["input"]["case"]
        out = run_impl(case, rp["input"].get("seed", 0))
        fs = direct_failures(case, out)
        want = rp.get("signature", {}).get("class")
        if want == "value-offset-constants":
            fs = [x for x in fs if x[0] == want]
        else:
            fs = [x for x in fs if x[0] != "value-offset-constants"]
        for cls, f in fs:
            print("  [%s] %s" % (cls, f))
        return bool(fs)


CHECK = C19()
