"""C21 -- Runs are reproducible and independent of execution strategy.

Proved (coq/C21): frame/locality and restoration theorems for the seed-sequence / generator stacks of
nifty/cl/random.py under Python `with` semantics (normal and exceptional exit), spawn determinism,
getState/setState round trip; independence of the JAX VI key schedule from residual_map / kl_map / jit.

Tie (every run):
  * generated test programs (nested contexts, raw pushes and pops, spawns, draws of six kinds, raised
    and caught exceptions, getState/setState) are executed statement by statement against the real
    module; after every statement the exception class, the whole _sseq stack (entropy, spawn_key,
    n_children_spawned) and the identity of every generator on _rng are compared with the model inside
    coqc (eval_cases); the model's generator histories and draw log are printed by coqc and replayed
    through the public API on fresh generators: bit-generator states and drawn values must be equal
    bit for bit;
  * the real OptimizeVI.update / draw_samples run with recording stubs in place of the numerical
    kernels; the keys every sample computation receives (through the real residual_map, with and
    without jit), the state key and samples.keys are mapped back to split-terms and compared with the
    model inside coqc.

Direct oracle (independent of Coq):
  * leaving a context (normally / by exception) leaves the very same objects on both stacks with
    unchanged generator states; draws inside a context are identical for different enclosing states;
  * VI keys identical across residual_map / kl_map / jit and across stop-and-resume;
  * OBSERVED, not proved (differential run): small classic and JAX VI runs in two fresh processes are
    byte-identical; JAX VI results for vmap/lmap/smap x jit on/off agree to 1e-10.
"""
import copy
import time
import json
import os
import re
import subprocess

import numpy as np

from .. import common as C

KINDS = ["DU", "DN", "DP", "DUC", "DNC", "DPC"]
HEADER = ("From Coq Require Import List ZArith Arith. Import ListNotations.\n"
          "Require Import NV.C21.Model NV.C21.ModelVI.\n")


HEADER_ZIP = ("From Coq Require Import List ZArith Arith. Import ListNotations.\n"
              "Require Import NV.C21.ModelZip.\n")

PID = os.getpid()


def scratch(name):
    """per-process scratch name (several checks of the same property may run at the same time)"""
    return "%s_p%d" % (name, PID)


def cleanup_scratch(prop):
    import glob
    for f in glob.glob(os.path.join(C.run_dir(prop), "*_p%d*" % PID)) + glob.glob(os.path.join(C.run_dir(prop), ".*_p%d*" % PID)):
        try:
            os.remove(f)
        except OSError:
            pass


class UserError(Exception):
    pass


# --------------------------------------------------------------------------------------------------
# test programs: JSON form, Coq form, interpreter on the real module
# --------------------------------------------------------------------------------------------------

def pc(p):
    t = p[0]
    if t == "skip":
        return "Skip"
    if t == "seq":
        return "(Seq %s %s)" % (pc(p[1]), pc(p[2]))
    if t == "draw":
        return "(Draw %s %d)" % (KINDS[p[1]], p[2])
    if t == "spawn":
        return "(Spawn %d)" % p[1]
    if t == "spawnfrom":
        return "(SpawnFrom %d %d)" % (p[1], p[2])
    if t == "push":
        return "(Push %d)" % p[1]
    if t == "pushseed":
        return "(PushSeed %s)" % C.cz(p[1])
    if t == "pop":
        return "Pop"
    if t == "ctx":
        i = "(ISeed %s)" % C.cz(p[1][1]) if p[1][0] == "seed" else "(IVar %d)" % p[1][1]
        return "(Ctx %s %s)" % (i, pc(p[2]))
    if t == "raise":
        return "Raise"
    if t == "try":
        return "(Try %s)" % pc(p[1])
    if t == "getstate":
        return "GetState"
    if t == "setstate":
        return "SetState"
    if t == "newctx":
        return "(NewCtx %s)" % ("(ISeed %s)" % C.cz(p[1][1]) if p[1][0] == "seed" else "(IVar %d)" % p[1][1])
    if t == "enter":
        return "(Enter %d %s)" % (p[1], pc(p[2]))
    raise ValueError(t)


def seq_of(stmts):
    if not stmts:
        return ["skip"]
    p = stmts[-1]
    for s in reversed(stmts[:-1]):
        p = ["seq", s, p]
    return p


def size(p):
    if p[0] == "seq":
        return size(p[1]) + size(p[2])
    if p[0] in ("ctx", "enter"):
        return 1 + size(p[2])
    if p[0] == "try":
        return 1 + size(p[1])
    return 1


def api_draw(R, k, n):
    if k == 0:
        return R.Random.uniform(np.float64, (n,))
    if k == 1:
        return R.Random.normal(np.float64, (n,))
    if k == 2:
        return R.Random.pm1(np.int64, (n,))
    if k == 3:
        return R.Random.uniform(np.complex128, (n,))
    if k == 4:
        return R.Random.normal(np.complex128, (n,))
    return R.Random.pm1(np.complex128, (n,))


class Env:
    def __init__(self):
        self.pool = []       # newest first
        self.cpool = []      # Context objects, newest first
        self.saved = None
        self.draws = []


def run_prog(R, p, env):
    t = p[0]
    if t == "skip":
        return
    if t == "seq":
        run_prog(R, p[1], env)
        run_prog(R, p[2], env)
    elif t == "draw":
        env.draws.append(api_draw(R, p[1], p[2]))
    elif t == "spawn":
        for k in R.spawn_sseq(p[1]):
            env.pool.insert(0, k)
    elif t == "spawnfrom":
        if p[1] < len(env.pool):
            for k in R.spawn_sseq(p[2], parent=env.pool[p[1]]):
                env.pool.insert(0, k)
    elif t == "push":
        if p[1] < len(env.pool):
            R.push_sseq(env.pool[p[1]])
    elif t == "pushseed":
        R.push_sseq_from_seed(p[1])
    elif t == "pop":
        R.pop_sseq()
    elif t == "ctx":
        if p[1][0] == "seed":
            inp = p[1][1]
        elif p[1][1] < len(env.pool):
            inp = env.pool[p[1][1]]
        else:
            return
        with R.Context(inp):
            run_prog(R, p[2], env)
    elif t == "raise":
        raise UserError()
    elif t == "try":
        try:
            run_prog(R, p[1], env)
        except Exception:
            pass
    elif t == "getstate":
        env.saved = R.getState()
    elif t == "setstate":
        if env.saved is not None:
            R.setState(env.saved)
    elif t == "newctx":
        if p[1][0] == "seed":
            env.cpool.insert(0, R.Context(p[1][1]))
        elif p[1][1] < len(env.pool):
            env.cpool.insert(0, R.Context(env.pool[p[1][1]]))
    elif t == "enter":
        if p[1] < len(env.cpool):
            with env.cpool[p[1]]:
                run_prog(R, p[2], env)
    else:
        raise ValueError(t)


class Sandbox:
    """Run something on a private copy of the module state; the real state is put back afterwards."""

    def __init__(self, R, entropy):
        self.R, self.e = R, entropy

    def __enter__(self):
        R = self.R
        self.orig = (R._sseq, R._rng)
        R._sseq = [np.random.SeedSequence(self.e)]
        R._rng = [np.random.default_rng(R._sseq[-1])]
        return self

    def __exit__(self, *a):
        self.R._sseq, self.R._rng = self.orig
        return False


def exc_code(e):
    if e is None:
        return 0
    if isinstance(e, UserError):
        return 1
    if isinstance(e, IndexError):
        return 2
    if isinstance(e, RuntimeError):
        return 3
    return 9


def sseq_triple(s):
    ent = s.entropy
    if not isinstance(ent, (int, np.integer)):
        ent = -1
    return (int(ent), [int(x) for x in s.spawn_key], int(s.n_children_spawned))


def gen_ident(g):
    s = g.bit_generator.seed_seq
    ent = s.entropy
    if not isinstance(ent, (int, np.integer)):
        ent = -1
    return (int(ent), [int(x) for x in s.spawn_key])


def run_items(entropy, items):
    """Execute the top-level statements on the real module.  Returns per-statement observations
    and the drawn values."""
    import nifty.cl as ift
    R = ift.random
    env = Env()
    obs = []
    with Sandbox(R, entropy):
        for p in items:
            err = None
            try:
                run_prog(R, p, env)
            except Exception as e:      # noqa: the class is what is observed
                err = e
            obs.append({"exc": exc_code(err), "exc_repr": None if err is None else repr(err)[:120],
                        "sseq": [sseq_triple(s) for s in R._sseq],
                        "gid": [gen_ident(g) for g in R._rng],
                        "gstate": [copy.deepcopy(g.bit_generator.state) for g in R._rng]})
    return obs, env.draws


def obs_coq(o):
    ss = C.clist(["(%s, %s, %d)" % (C.cz(e), C.clist([str(k) for k in key]), n) for e, key, n in o["sseq"]])
    gs = C.clist(["(%s, %s)" % (C.cz(e), C.clist([str(k) for k in key])) for e, key in o["gid"]])
    return "(%s, %s, %s)" % (C.cz(o["exc"]), ss, gs)


# ---- decoding what coqc printed -----------------------------------------------------------------

def ints_of(s):
    if s is None:
        raise C.MachineryError("no output for an encode_run term")
    body = s.split("=", 1)[1] if "=" in s else s
    body = body.rsplit(":", 1)[0]
    return [int(x) for x in re.findall(r"-?\d+", body)]


class Cur:
    def __init__(self, l):
        self.l, self.i = l, 0

    def next(self):
        v = self.l[self.i]
        self.i += 1
        return v

    def list(self, f):
        return [f(self) for _ in range(self.next())]


def dec_key(c):
    return c.list(lambda c: c.next())


def dec_hist(c):
    return c.list(lambda c: (c.next(), c.next()))


def dec_gen(c):
    return (c.next(), dec_key(c), dec_hist(c))


def dec_drec(c):
    return (c.next(), dec_key(c), dec_hist(c), c.next(), c.next())


def decode_run(ints):
    c = Cur(ints)
    gens = c.list(lambda c: c.list(dec_gen))
    log = c.list(dec_drec)
    if c.i != len(ints):
        raise C.MachineryError("trailing integers in encode_run output")
    return gens, log


class Replayer:
    """identity + history -> (bit-generator state, next draw), through the public API on a fresh
    generator built from SeedSequence(entropy, spawn_key)."""

    def __init__(self):
        import nifty.cl as ift
        self.R = ift.random
        self.cache = {}

    def _with(self, ent, key, hist, then):
        R = self.R
        with Sandbox(R, 0):
            R.push_sseq(np.random.SeedSequence(ent, spawn_key=tuple(key)))
            for k, n in hist:
                api_draw(R, k, n)
            return then(R)

    def state(self, ent, key, hist):
        k = (ent, tuple(key), tuple(hist))
        if k not in self.cache:
            try:
                self.cache[k] = self._with(ent, key, hist, lambda R: copy.deepcopy(R.current_rng().bit_generator.state))
            except Exception as e:
                self.cache[k] = "replay raised %r" % (e,)
        return self.cache[k]

    def draw(self, ent, key, hist, kind, n):
        try:
            return self._with(ent, key, hist, lambda R: api_draw(R, kind, n))
        except Exception as e:
            return np.array(["replay raised %r" % (e,)])


def same_array(a, b):
    a, b = np.asarray(a), np.asarray(b)
    return a.dtype == b.dtype and a.shape == b.shape and a.tobytes() == b.tobytes()


# ---- generation ----------------------------------------------------------------------------------

def gen_stmt(rng, depth, flavour):
    """flavour: 'pure' (draw/spawn/raise/try/ctx-on-seed), 'scoped' (+ variables), 'wild' (everything),
    'objects' (Context objects that are created once and entered several times, nested, after exceptions)"""
    r = rng.random()
    small = lambda a, b: int(rng.integers(a, b))
    if flavour == "pure":
        table = [(0.45, "draw"), (0.10, "spawn"), (0.25, "ctxseed"), (0.08, "raise"), (0.12, "try")]
    elif flavour == "scoped":
        table = [(0.35, "draw"), (0.12, "spawn"), (0.06, "spawnfrom"), (0.12, "ctxseed"), (0.17, "ctxvar"),
                 (0.07, "raise"), (0.11, "try")]
    elif flavour == "objects":
        table = [(0.34, "draw"), (0.05, "spawn"), (0.10, "newctx"), (0.27, "enter"), (0.08, "ctxseed"),
                 (0.07, "raise"), (0.09, "try")]
    else:
        table = [(0.23, "draw"), (0.08, "spawn"), (0.05, "spawnfrom"), (0.06, "push"), (0.06, "pushseed"),
                 (0.08, "pop"), (0.08, "ctxseed"), (0.08, "ctxvar"), (0.05, "raise"), (0.08, "try"),
                 (0.03, "getstate"), (0.04, "setstate"), (0.03, "newctx"), (0.05, "enter")]
    acc = 0.0
    what = table[-1][1]
    for w, name in table:
        acc += w
        if r < acc:
            what = name
            break
    if depth <= 0 and what in ("ctxseed", "ctxvar", "try", "enter"):
        what = "draw"
    if what == "draw":
        return ["draw", small(0, 6), small(0, 4) if rng.random() < 0.1 else small(1, 4)]
    if what == "spawn":
        return ["spawn", small(1, 4)]
    if what == "spawnfrom":
        return ["spawnfrom", small(0, 4), small(1, 3)]
    if what == "push":
        return ["push", small(0, 4)]
    if what == "pushseed":
        return ["pushseed", small(0, 6)]
    if what == "pop":
        return ["pop"]
    if what == "raise":
        return ["raise"]
    if what == "getstate":
        return ["getstate"]
    if what == "setstate":
        return ["setstate"]
    if what == "newctx":
        return ["newctx", ["seed", small(0, 6)] if rng.random() < 0.75 else ["var", small(0, 3)]]
    body = seq_of([gen_stmt(rng, depth - 1, flavour) for _ in range(small(1, 4))])
    if what == "try":
        return ["try", body]
    if what == "ctxseed":
        return ["ctx", ["seed", small(0, 6)], body]
    if what == "enter":
        return ["enter", small(0, 2), body]
    return ["ctx", ["var", small(0, 4)], body]


def gen_case(rng, flavour):
    n = int(rng.integers(2, 8))
    items = []
    total = 0
    if flavour == "objects":          # make sure objects exist before they are entered
        items = [["newctx", ["seed", int(rng.integers(0, 6))]] for _ in range(int(rng.integers(1, 3)))]
        total = len(items)
    for _ in range(n):
        p = seq_of([gen_stmt(rng, 4, flavour) for _ in range(int(rng.integers(1, 4)))])
        if total + size(p) > 40:
            break
        total += size(p)
        items.append(p)
    if not items:
        items = [["draw", 1, 2]]
    return {"entropy": int(rng.choice([42, 0, 7])), "items": items}


# --------------------------------------------------------------------------------------------------
# JAX VI key schedule: real update()/draw_samples() with recording stubs
# --------------------------------------------------------------------------------------------------

MODES = ["linear_resample", "linear_sample", "nonlinear_resample", "nonlinear_sample", "nonlinear_update"]
MODES_COQ = ["LinResample", "LinSample", "NlResample", "NlSample", "NlUpdate"]
MAPS = ["vmap", "lmap", "smap"]
MAPS_COQ = {"vmap": "Vmap", "lmap": "Lmap", "smap": "Smap"}


def key_term(t):
    if t == "K0":
        return "K0"
    return "(KS %s %d %d)" % (key_term(t[0]), t[1], t[2])


def key_universe(key0, T, N):
    """bytes of a key -> split-term, for every key the schedule can produce within T iterations
    and up to N samples (plus the results of a few plausible deviations, so that a changed
    schedule is reported in terms of keys and not as 'unknown')."""
    from jax import random
    uni = {}

    def put(k, term):
        l = uni.setdefault(np.asarray(k).tobytes(), [])
        if term not in l:
            l.append(term)
    k, term = key0, "K0"
    put(k, term)
    for t in range(T + 1):
        two = random.split(k, 2)
        sk, skt = two[1], (term, 2, 1)
        put(sk, skt)
        for n in range(1, N + 1):
            ks = random.split(sk, n)
            for i in range(n):
                put(ks[i], (skt, n, i))
            ks = random.split(k, n)             # deviation: splitting the state key directly
            for i in range(n):
                put(ks[i], (term, n, i))
        k, term = two[0], (term, 2, 0)
        put(k, term)
    return uni


def vi_run(seed, rm, km, jit, cfgs, stop_at=None):
    """Run the real OptimizeVI.update over the configuration list; return per-iteration raw
    observations (numpy key data).  With stop_at=t the state is rebuilt from (nit, key) after t
    iterations, as a resumed run would do."""
    import warnings
    import jax
    import jax.numpy as jnp
    from jax import random
    import nifty.re as jft
    from nifty.re.optimize import OptimizeResults
    import logging
    jft.logger.setLevel(logging.ERROR)
    warnings.filterwarnings("ignore")

    def dlr(pos, key, **kw):
        smpl = jft.Vector({"a": key.astype(jnp.float64), "b": 1. * pos.tree["b"]})
        return smpl, jnp.concatenate([jnp.zeros(1, key.dtype), key])

    def nur(pos, smpl, key, sgn, **kw):
        return smpl, jnp.concatenate([jnp.ones(1, key.dtype), key])

    def mini(_, x0, fun_and_grad=None, hessp=None, **kw):
        x = jft.Vector({"a": x0.tree["a"], "b": x0.tree["b"] + 1.})
        return OptimizeResults(x=x, success=True, status=0, fun=0., jac=x0, nit=0)

    lh = jft.Gaussian(jnp.zeros(2))
    vi = jft.OptimizeVI(lh, len(cfgs), jit=jit, kl_map=km, residual_map=rm,
                        _draw_linear_residual=dlr, _nonlinearly_update_residual=nur)
    key0 = random.PRNGKey(seed)
    kw = dict(n_samples=lambda i: cfgs[i][1], sample_mode=lambda i: MODES[cfgs[i][0]],
              kl_kwargs=dict(minimize=mini, minimize_kwargs={}))
    st = vi.init_state(key0, **kw)
    samples = jft.Samples(pos=jft.Vector({"a": jnp.zeros(2), "b": jnp.zeros(1)}), samples=None, keys=None)
    out = []
    for i in range(len(cfgs)):
        if stop_at is not None and i == stop_at:
            st = vi.init_state(st.key, nit=st.nit, **kw)
        samples, st = vi.update(samples, st)
        o = {"key": np.asarray(st.key), "skeys": None if samples.keys is None else np.asarray(samples.keys),
             "lin": [], "nl": []}
        if samples._samples is not None and len(samples) > 0:
            a = np.asarray(samples._samples.tree["a"])
            b = np.asarray(samples._samples.tree["b"])
            if b.size and float(b[0, 0]) == float(i):          # drawn in this iteration
                if not (np.array_equal(a[0::2], -a[1::2]) and np.all(a[0::2] >= 0)):
                    o["lin"] = "not-mirrored"
                else:
                    o["lin"] = [a[j].astype(np.uint32) for j in range(0, a.shape[0], 2)]
        ss = st.sample_state
        if not isinstance(ss, int):
            ss = np.asarray(ss)
            if ss.ndim == 2 and ss.shape[0] and int(ss[0, 0]) == 1:
                o["nl"] = [ss[j, 1:] for j in range(ss.shape[0])]
            elif ss.ndim == 2 and ss.shape[0] and int(ss[0, 0]) == 0:
                lin2 = [ss[j, 1:] for j in range(ss.shape[0])]
                if o["lin"] == [] or len(lin2) != len(o["lin"]) or any(
                        not np.array_equal(x, y) for x, y in zip(lin2, o["lin"])):
                    o["lin"] = "inconsistent"
        out.append(o)
    return key0, out


def vi_obs_coq(uni, o):
    def kt(k):
        # all split-terms that evaluate to this bit pattern; an unknown key matches nothing
        return C.clist([key_term(t) for t in uni.get(np.asarray(k, dtype=np.uint32).tobytes(), [])])

    def kl(l):
        if isinstance(l, str):
            return "[[]]"
        return C.clist([kt(k) for k in l])
    sk = "None" if o["skeys"] is None else "(Some %s)" % kl(list(o["skeys"]))
    return "(%s, %s, %s, %s)" % (kl(o["lin"]), kl(o["nl"]), kt(o["key"]), sk)


def vi_obs_plain(o):
    f = lambda l: l if isinstance(l, str) else [np.asarray(k).tolist() for k in l]
    return {"key": o["key"].tolist(), "skeys": None if o["skeys"] is None else o["skeys"].tolist(),
            "lin": f(o["lin"]), "nl": f(o["nl"])}


def gen_vi_case(rng):
    T = int(rng.integers(3, 7))
    cfgs = []
    for _ in range(T):
        r = rng.random()
        n = 0 if r < 0.12 else int(rng.integers(1, 4))
        cfgs.append([int(rng.integers(0, 5)), n])
    # make sure that runs of constant n exist, so that the *_sample / update modes re-use keys
    for i in range(1, T):
        if rng.random() < 0.45:
            cfgs[i][1] = cfgs[i - 1][1]
    return {"cfgs": cfgs, "rm": MAPS[int(rng.integers(0, 3))], "km": MAPS[int(rng.integers(0, 3))],
            "jit": bool(rng.integers(0, 2)), "seed": int(rng.integers(0, 1000))}


# --------------------------------------------------------------------------------------------------
# differential runs in fresh processes
# --------------------------------------------------------------------------------------------------

QUICK_CONFIGS = [["vmap", "vmap", True], ["lmap", "smap", False], ["smap", "vmap", True], ["vmap", "lmap", False]]
ALL_CONFIGS = [[a, b, j] for a in MAPS for b in MAPS for j in (True, False) if not (b == "lmap" and j)]


# variants: [linear_minimizer_jit, nonlinear_minimizer_jit, residual_map, jit]; the FIRST is the reference
# (everything eager: cg / _newton_cg, Python-loop map)
EAGER = [False, False, "lmap", True]
STRAT_ALL = [EAGER, [True, True, "lmap", True], [True, True, "vmap", True], [True, False, "smap", True],
             [False, False, "lmap", False], [True, False, "lmap", True], [False, True, "vmap", True]]
# relative tolerance per form: tight solver options -> round-off of the solver (measured 1e-13 .. 1e-15 on
# the clean tree); no option given -> both flavours use the default criterion: solver accuracy
STRAT_TOL = {"lin:absdelta": 1e-9, "lin:resnorm": 1e-9, "lin:both": 1e-9, "lin:neither": 1e-3,
             "nl:xtol": 1e-9, "nl:absdelta": 1e-9, "nl:both": 1e-9, "nl:neither": 1e-6,
             # non-default miniter / maxiter: the number of steps is fixed by the bounds (clean tree: <= 2.3e-14)
             "lin:miniter": 1e-9, "lin:maxiter": 1e-9, "lin:miniter_abs": 1e-9,
             "nl:miniter": 1e-9, "nl:miniter1": 1e-9, "nl:miniter_abs": 1e-9, "nl:maxiter": 1e-9}


def strategy_entries(ctx):
    if not ctx.quick:
        few = [EAGER, [True, True, "lmap", True], [True, True, "vmap", True], [True, False, "smap", True]]
        return ([["lin", f, STRAT_ALL] for f in ("absdelta", "resnorm", "both", "neither")]
                + [["nl", f, STRAT_ALL] for f in ("xtol", "absdelta", "both", "neither")]
                + [["lin", f, few] for f in ("miniter", "maxiter", "miniter_abs")]
                + [["nl", f, few] for f in ("miniter", "miniter1", "miniter_abs", "maxiter")])
    r = ctx.seed % 3
    rot = [[True, True, "lmap", True], [True, True, "vmap", True], [True, False, "smap", True]]
    return [["lin", "absdelta", [EAGER, rot[r], [False, False, "lmap", False]]],
            ["lin", "resnorm", [EAGER, rot[(r + 1) % 3]]],
            ["lin", "both", [EAGER, rot[(r + 2) % 3]]],
            ["lin", "neither", [EAGER, rot[r]]],
            ["nl", "xtol", [EAGER, rot[(r + 1) % 3]]],
            ["nl", "absdelta", [EAGER, rot[r]]],
            ["nl", ["miniter", "miniter1"][ctx.seed % 2], [EAGER, rot[(r + 2) % 3]]],
            ["lin", ["maxiter", "miniter", "miniter_abs"][r], [EAGER, rot[(r + 1) % 3]]]]


def resume_entries(ctx):
    """[sample_mode, n_samples, total iterations, iterations after which the run is stopped and resumed]"""
    if ctx.quick:
        c = [[1], [2], [1, 2]]
        return [["nonlinear_resample", 2, 3, c[ctx.seed % 3]], ["linear_resample", 2, 3, c[(ctx.seed + 1) % 3]],
                # per-iteration callables whose values change between iterations
                [["linear_resample", "nonlinear_resample"][ctx.seed % 2], 2, 3, c[(ctx.seed + 2) % 3], True]]
    return [["nonlinear_resample", 2, 4, [1, 3]], ["linear_resample", 2, 3, [2]], ["linear_resample", 3, 3, [1, 2]],
            ["nonlinear_sample", 2, 3, [1]], ["nonlinear_update", 2, 3, [2]], ["linear_resample", 0, 3, [1]],
            ["linear_resample", 2, 4, [1, 3], True], ["nonlinear_resample", 2, 4, [2], True], ["linear_sample", 2, 3, [1], True],
            ["nonlinear_update", 2, 3, [2], True], ["nonlinear_resample", 1, 3, [1, 2], True]]


def runs_spec(ctx):
    if ctx.quick:
        return {"seed": 7 + ctx.seed, "classic": True, "jax_modes": [["nonlinear_resample", 3]],
                "jax_configs": QUICK_CONFIGS, "strategy": strategy_entries(ctx), "resume": resume_entries(ctx)}
    return {"seed": 7 + ctx.seed, "classic": True,
            "jax_modes": [["nonlinear_resample", 3], ["linear_resample", 2], ["nonlinear_sample", 2]],
            "jax_configs": ALL_CONFIGS, "strategy": strategy_entries(ctx), "resume": resume_entries(ctx)}


def start_runs(ctx, spec, tag):
    d = ctx.run_dir()
    sp = os.path.join(d, "runs_spec_%s.json" % tag)
    json.dump(spec, open(sp, "w"))
    procs = []
    for i in range(2):
        out = os.path.join(d, "runs_%s_%d.json" % (tag, i))
        if os.path.exists(out):
            os.remove(out)
        log = open(os.path.join(d, "runs_%s_%d.log" % (tag, i)), "w")
        p = subprocess.Popen(["/venv/bin/python", "-m", "harness.props.c21_runs", sp, out, str(i)],
                             cwd=C.HOME, stdout=log, stderr=subprocess.STDOUT)
        procs.append((p, out, log))
    return procs


def finish_runs(procs, timeout):
    outs = []
    for p, out, log in procs:
        try:
            p.wait(timeout=timeout)
        except subprocess.TimeoutExpired:
            p.kill()
            raise C.MachineryError("differential run timed out")
        log.close()
        if p.returncode != 0 or not os.path.exists(out):
            raise C.MachineryError("differential run failed: " + open(log.name).read()[-1500:])
        outs.append(json.load(open(out)))
    return outs


def compare_runs(outs):
    """-> list of (signature, what, input)"""
    from .c21_runs import unhx
    fails = []
    a, b = outs
    for k, res in sorted(a.get("strategy", {}).items()):
        names = list(res)
        ref = unhx(res[names[0]])
        scale = float(np.max(np.abs(ref))) if ref.size and np.all(np.isfinite(ref)) else float("nan")
        for nm in names[1:]:
            x = unhx(res[nm])
            rel = float(np.max(np.abs(x - ref))) / scale if x.shape == ref.shape and np.all(np.isfinite(x)) else float("inf")
            if not rel <= STRAT_TOL[k]:
                fails.append(({"part": "sampling_strategy", "form": k},
                              "samples for solver options `%s` with %s differ from %s by %.2e (relative; allowed %.0e)"
                              % (k, nm, names[0], rel, STRAT_TOL[k]), {"form": k, "variant": nm, "reference": names[0]}))
                break
    for k, r in sorted(b.get("resume", {}).items()):
        if json.dumps(r["uninterrupted"], sort_keys=True) != json.dumps(r["segmented"], sort_keys=True):
            diff = [f for f in r["uninterrupted"] if r["uninterrupted"][f] != r["segmented"][f]]
            fails.append(({"part": "jax_stop_resume", "mode": k.split(":")[0]},
                          "JAX optimize_kl %s: stopped + resumed run is not bit-identical to the uninterrupted run "
                          "with the same seed (differs in %s)" % (k, ", ".join(diff)), {"entry": k}))
    for k in sorted(a):
        if k == "strategy":
            continue                      # computed by the first process only
        if json.dumps(a[k], sort_keys=True) != json.dumps(b.get(k), sort_keys=True):
            fails.append(({"part": "fresh_process", "run": k.split(":")[0]},
                          "run %s is not bit-identical in two fresh processes" % k, {"run": k}))
    for k in sorted(a):
        if not k.startswith("jax:"):
            continue
        cfgs = sorted(a[k])
        ref = a[k][cfgs[0]]
        for c in cfgs[1:]:
            cur = a[k][c]
            worst = 0.0
            for f in ("pos", "samples"):
                x, y = unhx(ref[f]), unhx(cur[f])
                if x.shape != y.shape or not (np.all(np.isfinite(x)) and np.all(np.isfinite(y))):
                    worst = float("inf")
                else:
                    worst = max(worst, float(np.max(np.abs(x - y))) if x.size else 0.0)
            keys_equal = ref["keys"] == cur["keys"] and ref["state_key"] == cur["state_key"]
            if worst > 1e-10 or not keys_equal:
                fails.append(({"part": "jax_strategy", "run": k},
                              "JAX VI result for %s differs from %s (max abs diff %.3g, keys equal: %s)"
                              % (c, cfgs[0], worst, keys_equal), {"run": k, "config": c, "reference": cfgs[0]}))
    return fails


# --------------------------------------------------------------------------------------------------
# direct oracle on nifty.cl.random
# --------------------------------------------------------------------------------------------------

def outer_setup(R, variant):
    """Different enclosing RNG states."""
    if variant == 1:
        R.push_sseq_from_seed(123)
        api_draw(R, 1, 5)
    elif variant == 2:
        api_draw(R, 0, 3)
        R.push_sseq(R.spawn_sseq(2)[1])
        R.push_sseq_from_seed(5)
        api_draw(R, 4, 2)


def oracle_restore(entropy, variant, inp_seed, body):
    """`with Context(seed): body` must leave both stacks as they were.  None if it does."""
    import nifty.cl as ift
    R = ift.random
    env = Env()
    with Sandbox(R, entropy):
        outer_setup(R, variant)
        before_s = list(R._sseq)
        before_g = list(R._rng)
        before_state = [copy.deepcopy(g.bit_generator.state) for g in R._rng]
        before_cnt = [s.n_children_spawned for s in R._sseq]
        err = None
        try:
            with R.Context(inp_seed):
                run_prog(R, body, env)
        except UserError as e:
            err = e
        except Exception as e:
            return "leaving the context raised %r" % (e,)
        if len(R._sseq) != len(before_s) or len(R._rng) != len(before_g):
            return "stack depth %d/%d after the context, %d before (exception inside: %s)" % (
                len(R._sseq), len(R._rng), len(before_s), err is not None)
        if any(x is not y for x, y in zip(R._sseq, before_s)) or any(x is not y for x, y in zip(R._rng, before_g)):
            return "a stack entry was replaced"
        if [g.bit_generator.state for g in R._rng] != before_state:
            return "an outer generator was advanced inside the context"
        if [s.n_children_spawned for s in R._sseq] != before_cnt:
            return "an outer seed sequence spawned children inside the context"
    return None


def oracle_local(inp_seed, body):
    """Draws inside `with Context(seed): body` must not depend on the enclosing state."""
    import nifty.cl as ift
    R = ift.random
    res = []
    for entropy, variant in ((42, 0), (3, 1), (42, 2)):
        env = Env()
        with Sandbox(R, entropy):
            outer_setup(R, variant)
            try:
                with R.Context(inp_seed):
                    run_prog(R, body, env)
            except Exception as e:
                env.draws.append(np.array([exc_code(e)]))
        res.append(env.draws)
    for other in res[1:]:
        if len(other) != len(res[0]) or any(not same_array(x, y) for x, y in zip(other, res[0])):
            return "draws inside the context differ between enclosing states"
    return None


def oracle_reentry(seed, spawned, body1, body2, mode):
    """One Context object entered twice: the second entry must draw what a fresh inline context
    on the same seed draws.  mode: 0 plain, 1 first entry left by an exception, 2 second entry nested
    in another context, 3 an unrelated context (and draws from the outer generator) in between."""
    import nifty.cl as ift
    R = ift.random

    def mk():
        if spawned:
            return np.random.SeedSequence(seed, spawn_key=(3, 1))
        return seed
    with Sandbox(R, 42):
        ref = Env()
        try:
            with R.Context(mk()):
                run_prog(R, body2, ref)
        except UserError:
            ref.draws.append(np.array([1]))
        depth = len(R._sseq)
        ctx = R.Context(mk())
        e1 = Env()
        try:
            with ctx:
                run_prog(R, body1, e1)
                if mode == 1:
                    raise UserError()
        except UserError:
            pass
        if len(R._sseq) != depth:
            return "stack depth changed by the first entry"
        if mode == 3:
            api_draw(R, 0, 2)
            with R.Context(99):
                api_draw(R, 1, 3)
        e2 = Env()
        try:
            if mode == 2:
                with R.Context(5):
                    api_draw(R, 0, 1)
                    with ctx:
                        run_prog(R, body2, e2)
            else:
                with ctx:
                    run_prog(R, body2, e2)
        except UserError:
            e2.draws.append(np.array([1]))
        if len(R._sseq) != depth or len(R._rng) != depth:
            return "stack depth changed by the second entry"
        if len(e2.draws) != len(ref.draws) or any(not same_array(x, y) for x, y in zip(e2.draws, ref.draws)):
            return "second entry of a Context object does not draw what its seed alone determines (depends on the first entry)"
    return None


def bracket(rng):
    """exception-safe hand-written push ... pop"""
    inner = seq_of([gen_stmt(rng, 2, "scoped") for _ in range(int(rng.integers(1, 3)))])
    return ["seq", ["pushseed", int(rng.integers(0, 6))], ["seq", ["try", inner], ["pop"]]]


# --------------------------------------------------------------------------------------------------

class C21(C.Check):
    prop = "C21"
    coq_dir = "C21"
    trusted_base = [
        "Coq 8.16.1 kernel (coqc, vm_compute for the correspondence evaluation); no axioms: all C21 theorems are closed under the global context",
        "hand-written models coq/C21/Model.v (nifty/cl/random.py) and coq/C21/ModelVI.v (key handling of OptimizeVI.update / draw_samples), tied by correspondence; push_sseq/push_sseq_from_seed/pop_sseq/spawn_sseq/Context.__init__/__enter__/__exit__ additionally by the fail-closed translator tr/c21_random.py (statement whitelist of coq/C21/Stmt.v) + theorem C21_source_tie",
        "coq/C21/Stmt.v: the meaning given to the whitelisted statements and to Python's with-protocol",
        "numpy: a Generator is determined by (entropy, spawn_key) of its SeedSequence and the sequence of draws made on it (checked on every run by replay on fresh generators, bit for bit); SeedSequence.spawn appends the running child counter to spawn_key (observed on every run)",
        "the test-program interpreter in harness/props/c21.py (Python `with`/`try` semantics are Python's own; missing variables are skipped, as in the model)",
        "jax.random.split treated as an uninterpreted function; real keys are mapped back to split-terms by enumerating the terms reachable within the run",
        "differential runs (two fresh processes byte-identical; vmap/lmap/smap x jit within 1e-10) are OBSERVATIONS on a tiny model, not proofs",
    ]
    assumptions = [
        "numpy Generators are deterministic functions of their seed sequence and call history",
        "pickle round-trips SeedSequence and Generator objects faithfully (observed through setState cases)",
        "the numerical kernels of the JAX driver receive PRNG keys only through the arguments recorded by the stubs",
    ]

    def __init__(self):
        self.procs = None
        self.cases = []
        self.vi_cases = []

    def translate(self, ctx):
        from tr import c21_random
        text, sha = c21_random.translate(ctx.repo)
        C.write_if_changed(os.path.join(C.COQ, "C21", "Gen_Random.v"), text)
        self.gen_sha = sha

    # ---- correspondence ----
    def check_cases(self, cases, name):
        """-> list of (index, reason) disagreements"""
        obs_all = []
        checks = []
        terms = []
        for c in cases:
            obs, draws = run_items(c["entropy"], c["items"])
            obs_all.append((obs, draws))
            progs = C.clist([pc(p) for p in c["items"]])
            checks.append("items_ok %s %s %s" % (C.cz(c["entropy"]), progs, C.clist([obs_coq(o) for o in obs])))
            terms.append("encode_run %s %s" % (C.cz(c["entropy"]), progs))
        bad = {i: "stack observations (exception class, _sseq entries, generator identities) differ from the model"
               for i in C.eval_cases(self.prop, name, HEADER, checks)}
        printed = C.eval_terms(self.prop, name, HEADER, terms)
        rp = Replayer()
        for i, (c, (obs, draws)) in enumerate(zip(cases, obs_all)):
            if i in bad:
                continue
            gens, log = decode_run(ints_of(printed[i]))
            why = None
            if len(gens) != len(obs):
                why = "number of statements"
            for o, gl in zip(obs, gens):
                if why:
                    break
                if len(gl) != len(o["gstate"]):
                    why = "generator stack depth"
                    break
                for (ent, key, hist), stt in zip(gl, o["gstate"]):
                    if rp.state(ent, key, hist) != stt:
                        why = "state of a generator on the stack is not that of a fresh generator after the model's history"
                        break
            if not why and len(log) != len(draws):
                why = "number of draws"
            if not why:
                for (ent, key, hist, kind, n), val in zip(log, draws):
                    if not same_array(rp.draw(ent, key, hist, kind, n), val):
                        why = "a drawn value is not what the generator named by the model yields"
                        break
            if why:
                bad[i] = why
        return sorted(bad.items()), obs_all

    def check_vi(self, vcases, name):
        checks = []
        plain = []
        for c in vcases:
            key0, out = vi_run(c["seed"], c["rm"], c["km"], c["jit"], c["cfgs"])
            uni = key_universe(key0, len(c["cfgs"]), 3)
            im = "(mkImpl %s %s %s true false)" % (MAPS_COQ[c["rm"]], MAPS_COQ[c["km"]], C.cbool(c["jit"]))
            cfg = C.clist(["(%s, %d)" % (MODES_COQ[m], n) for m, n in c["cfgs"]])
            checks.append("vi_ok %s %s %s" % (im, cfg, C.clist([vi_obs_coq(uni, o) for o in out])))
            plain.append([vi_obs_plain(o) for o in out])
        return C.eval_cases(self.prop, name, HEADER, checks), plain

    def check_zip(self, ctx, name):
        """nifty/re/evi.py:concatenate_zip on generated arrays vs coq/C21/ModelZip.v (czip, sgns)."""
        import jax.numpy as jnp
        from jax import random
        from nifty.re.evi import concatenate_zip
        rng = ctx.rng(24)
        zl = lambda l: C.clist(["(%d)%%Z" % int(x) for x in l])
        enc = lambda a: [int(r[0]) * 2**32 + int(r[1]) for r in np.asarray(a, dtype=np.uint32).reshape(-1, 2)]
        checks, cases = [], []
        for i in range(12 if ctx.quick else 60):
            n = int(rng.integers(1, 7))
            kind = ["int1d", "keys", "sgn", "keys_self"][i % 4]
            try:
                if kind == "int1d":
                    a = rng.integers(-50, 50, size=n)
                    b = rng.integers(-50, 50, size=n)
                    r = np.asarray(concatenate_zip(jnp.asarray(a), jnp.asarray(b)))
                    ok = r.shape == (2 * n,)
                    checks.append("czip_ok %s %s %s" % (zl(a), zl(b), zl(r.reshape(-1))) if ok else "false")
                elif kind in ("keys", "keys_self"):
                    sd = int(rng.integers(0, 1000))
                    ka = random.split(random.PRNGKey(sd), n)
                    kb = ka if kind == "keys_self" else random.split(random.PRNGKey(sd + 1), n)
                    r = np.asarray(concatenate_zip(*((ka,) * 2)) if kind == "keys_self" else concatenate_zip(ka, kb))
                    ok = r.shape == (2 * n, 2)
                    checks.append("czip_ok %s %s %s" % (zl(enc(ka)), zl(enc(kb)), zl(enc(r))) if ok else "false")
                else:
                    sgn = jnp.ones(n)
                    r = np.asarray(concatenate_zip(sgn, -sgn))
                    ok = r.shape == (2 * n,) and bool(np.all(r == np.round(r)))
                    checks.append("sgns_ok %d %s" % (n, zl(r)) if ok else "false")
                cases.append({"kind": kind, "n": n, "result": np.asarray(r).tolist()})
            except Exception as e:                      # the real function failing is a disagreement
                checks.append("false")
                cases.append({"kind": kind, "n": n, "error": repr(e)[:200]})
        return C.eval_cases(self.prop, name, HEADER_ZIP, checks), cases

    def correspondence(self, ctx, res):
        self.procs = start_runs(ctx, runs_spec(ctx), scratch("main"))      # runs while coqc works
        t0 = time.time()
        rng = ctx.rng(21)
        corpus = ctx.corpus()
        cases = [c["case"] for c in corpus if c.get("kind") == "program"]
        n = 160 if ctx.quick else 1600
        for i in range(n):
            cases.append(gen_case(rng, ["wild", "objects", "scoped", "pure", "wild", "objects"][i % 6]))
        self.cases = cases
        bad, obs_all = self.check_cases(cases, scratch("corr"))
        for i, why in bad[:4]:
            res.add_broken("correspondence", "nifty/cl/random.py vs coq/C21/Model.v",
                           {"case_kind": "program", "why": why, "case": cases[i],
                            "observed": [{k: o[k] for k in ("exc", "exc_repr", "sseq", "gid")} for o in obs_all[i][0]]})
        t1 = time.time()
        vcases = [c["case"] for c in corpus if c.get("kind") == "vi"]
        rngv = ctx.rng(22)
        for i in range(6 if ctx.quick else 60):
            vcases.append(gen_vi_case(rngv))
        self.vi_cases = vcases
        vbad, plain = self.check_vi(vcases, scratch("vi"))
        for i in vbad[:3]:
            res.add_broken("correspondence", "OptimizeVI.update key schedule vs coq/C21/ModelVI.v",
                           {"case_kind": "vi", "case": vcases[i], "observed": plain[i]})

        zbad, zcases = self.check_zip(ctx, scratch("zip"))
        for i in zbad[:3]:
            res.add_broken("correspondence", "nifty/re/evi.py:concatenate_zip vs coq/C21/ModelZip.v",
                           {"case_kind": "zip", "case": zcases[i]})
        res.notes.append("concatenate_zip correspondence: %d cases, %d disagreements" % (len(zcases), len(zbad)))

        res.notes.append("timing: program correspondence %.1fs, VI key correspondence %.1fs" % (t1 - t0, time.time() - t1))

        def nontrivial(c):
            s = json.dumps(c["items"])
            return ('"ctx"' in s or '"enter"' in s) and '"draw"' in s
        distinct = len({json.dumps(c, sort_keys=True) for c in cases if nontrivial(c)})
        distinct_vi = len({json.dumps(c, sort_keys=True) for c in vcases})
        nstm = sum(len(c["items"]) for c in cases)
        nexc = sum(1 for o, _ in obs_all for x in o if x["exc"] != 0)
        res.coverage.update({
            "evaluations": len(cases) + len(vcases),
            "distinct_nontrivial": distinct + distinct_vi,
            "rule": "random test programs (<= 40 operations, nesting <= 5; flavours wild/scoped/pure) run statement by "
                    "statement on the real module: non-trivial = contains a context and a draw, distinct by program text; "
                    "plus random (sample_mode, n_samples) schedules of 3-6 iterations with random residual_map/kl_map/jit "
                    "through the real OptimizeVI.update with recording stubs",
            "samples": [cases[len(corpus)], vcases[-1]],
            "input_distribution": {"programs": len(cases), "statements_observed": nstm,
                                   "statements_ending_in_exception": nexc,
                                   "draws_replayed": sum(len(d) for _, d in obs_all),
                                   "vi_schedules": len(vcases), "concatenate_zip_cases": len(zcases), "corpus": len(corpus)},
            "disagreements": len(bad) + len(vbad) + len(zbad),
            "exhaustive": False,
        })
        return {"bad": [cases[i] for i, _ in bad], "vbad": [vcases[i] for i in vbad]}

    # ---- direct oracle ----
    def oracle_rng(self, ctx, res, budget):
        rng = ctx.rng(23)
        n = (900 if ctx.quick else 6000) * budget
        count = 0
        for c in ctx.corpus():
            if c.get("kind") == "oracle":
                f = self.run_oracle_input(c["input"])
                count += 1
                if f:
                    res.add_failing(c["signature"], f, c["input"])
        for i in range(n):
            flavour = ["scoped", "pure", "bracket"][i % 3]
            if flavour == "bracket":
                body = seq_of([bracket(rng) if rng.random() < 0.6 else gen_stmt(rng, 3, "scoped")
                               for _ in range(int(rng.integers(1, 4)))])
            else:
                body = seq_of([gen_stmt(rng, 3, flavour) for _ in range(int(rng.integers(1, 5)))])
            if i % 5 == 0:
                body = ["seq", body, ["raise"]]
            seed = int(rng.integers(0, 50))
            inp = {"test": "restore", "entropy": 42, "variant": i % 3, "seed": seed, "body": body}
            f = self.run_oracle_input(inp)
            count += 1
            if f:
                res.add_failing({"part": "context_restore", "exception": '"raise"' in json.dumps(body)}, f, inp)
            if flavour == "pure":
                inp = {"test": "local", "seed": seed, "body": body}
                f = self.run_oracle_input(inp)
                count += 1
                if f:
                    res.add_failing({"part": "context_local"}, f, inp)
                # no spawns here: spawning legitimately advances the counter of the re-used seed sequence
                nospawn = lambda: seq_of([x for x in (gen_stmt(rng, 2, "pure") for _ in range(int(rng.integers(1, 4))))
                                          if '"spawn"' not in json.dumps(x)] or [["draw", 1, 2]])
                inp = {"test": "reentry", "seed": seed, "spawned": bool(i % 2), "body1": nospawn(),
                       "body2": nospawn(), "mode": (i // 3) % 4}
                f = self.run_oracle_input(inp)
                count += 1
                if f:
                    res.add_failing({"part": "context_reentry"}, f, inp)
            if len(res.failing) >= 3:
                break
        return count

    def run_oracle_input(self, inp):
        try:
            return self.run_oracle_input_(inp)
        except C.MachineryError:
            raise
        except Exception as e:      # an implementation that raises where it must not
            return "unexpected exception %r" % (e,)

    def run_oracle_input_(self, inp):
        if inp["test"] == "restore":
            return oracle_restore(inp["entropy"], inp["variant"], inp["seed"], inp["body"])
        if inp["test"] == "local":
            return oracle_local(inp["seed"], inp["body"])
        if inp["test"] == "reentry":
            return oracle_reentry(inp["seed"], inp["spawned"], inp["body1"], inp["body2"], inp["mode"])
        if inp["test"] == "vi_strategy":
            return self.oracle_vi_one(inp)
        raise ValueError(inp["test"])

    def oracle_vi_one(self, inp):
        ref = None
        for rm, km, jit in inp["impls"]:
            _, out = vi_run(inp["seed"], rm, km, jit, inp["cfgs"])
            p = [vi_obs_plain(o) for o in out]
            if ref is None:
                ref = p
            elif p != ref:
                return "keys handed out with residual_map=%s kl_map=%s jit=%s differ from %s" % (rm, km, jit, inp["impls"][0])
        T = len(inp["cfgs"])
        for t in range(1, T):
            _, out = vi_run(inp["seed"], *inp["impls"][0], inp["cfgs"], stop_at=t)
            # the samples object survives a stop in this stub run; the schedule must continue unchanged
            if [vi_obs_plain(o) for o in out] != ref:
                return "keys after resuming at iteration %d differ from the uninterrupted run" % t
        return None

    def oracle(self, ctx, res, hints, budget):
        try:
            return self.oracle_(ctx, res, hints, budget)
        finally:
            cleanup_scratch(self.prop)

    def oracle_(self, ctx, res, hints, budget):
        t0 = time.time()
        n = self.oracle_rng(ctx, res, budget)
        t1 = time.time()
        rng = ctx.rng(24)
        nv = 0
        for i in range((2 if ctx.quick else 12) * budget):
            c = gen_vi_case(rng)
            impls = [[c["rm"], c["km"], c["jit"]]]
            for rm in MAPS:
                for jit in (True, False):
                    if [rm, c["km"], jit] not in impls:
                        impls.append([rm, c["km"], jit])
            inp = {"test": "vi_strategy", "seed": c["seed"], "cfgs": c["cfgs"], "impls": impls}
            f = self.run_oracle_input(inp)
            nv += 1
            if f:
                res.add_failing({"part": "vi_keys"}, f, inp)
                break
        t2 = time.time()
        # differential runs (observed)
        if self.procs is None:
            self.procs = start_runs(ctx, runs_spec(ctx), scratch("main"))
        outs = finish_runs(self.procs, 280 if ctx.quick else 1100)
        self.procs = None
        res.notes.append("timing: oracle rng %.1fs, oracle vi keys %.1fs, waiting for differential runs %.1fs"
                         % (t1 - t0, t2 - t1, time.time() - t2))
        fails = compare_runs(outs)
        for sig, what, inp in fails[:3]:
            inp = dict(inp)
            inp["test"] = "runs"
            inp["spec"] = runs_spec(ctx)
            res.add_failing(sig, what, inp)
        res.coverage["impl_property_evaluations"] = n + nv + sum(
            len(v) if k.startswith("jax:") else (sum(len(x) for x in v.values()) if k == "strategy" else 1)
            for k, v in outs[0].items()) + 2 * len(outs[1].get("resume", {}))
        res.coverage["jax_stop_resume"] = sorted(outs[1].get("resume", {}))
        res.coverage["sampling_strategy_pairs"] = {k: list(v) for k, v in outs[0].get("strategy", {}).items()}
        cleanup_scratch(self.prop)
        res.coverage["differential_runs"] = {"runs": sorted(outs[0]), "jax_configs": sorted(
            {c for k, v in outs[0].items() if k.startswith("jax:") for c in v}),
            "label": "observed, not proved", "tolerance": 1e-10}

    # ---- replay ----
    def replay(self, ctx, rp):
        try:
            return self.replay_(ctx, rp)
        finally:
            cleanup_scratch(self.prop)

    def replay_(self, ctx, rp):
        if rp.get("kind") == "no-failing-input-found":
            still = False
            for b in rp.get("broken", []):
                d = b.get("detail", {})
                if b.get("kind") != "correspondence":
                    return True            # a proof / translator breakage: rerun the whole check
                if d.get("case_kind") == "program":
                    bad, _ = self.check_cases([d["case"]], scratch("replay"))
                    still = still or bool(bad)
                elif d.get("case_kind") == "vi":
                    bad, _ = self.check_vi([d["case"]], scratch("replay"))
                    still = still or bool(bad)
            return still
        inp = rp["input"]
        if inp["test"] == "runs":
            outs = finish_runs(start_runs(ctx, inp["spec"], scratch("replay")), 1100)
            return bool(compare_runs(outs))
        return self.run_oracle_input(inp) is not None


CHECK = C21()
