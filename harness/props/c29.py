"""C29 -- Gauss-Markov processes have the exact continuous-time covariance.

Tie: hand model coq/C29/Model.v + correspondence.  The real wiener_process /
integrated_wiener_process / ornstein_uhlenbeck_process / scalar_ and discrete_gauss_markov_process
are run on generated step sequences, amplitudes, damping rates, initial states and excitations, and
on all basis excitations (the functions are linear in xi, so this gives the implementation's
response matrix exactly).  Outputs travel as exact dyadic rationals and are compared inside coqc
with the model: EXACT for the Wiener process and the scalar generic generator (dt, sigma chosen as
squares of dyadics / dyadics, so every float64 operation is exact), within 1e-9*scale for IWP and
OU, whose sqrt(dt^2/12 + asperity), exp(-gamma dt), sqrt(1 - e^2) are taken from the
implementation's own float values (the theorems state the relations these have to satisfy).
Direct oracle (NumPy only): A A^T of the implementation equals the closed-form continuous-time
covariance, is unchanged under refinement of the grid, and the generic generator agrees with the
specialised ones."""
import json
import math
from fractions import Fraction

import numpy as np

from .. import common as C
from .. import fasteval

HEADER = ("From Coq Require Import QArith Qcanon List Bool ZArith. Import ListNotations.\n"
          "Require Import NV.C29.Model.\nOpen Scope Q_scope.\n")
NS = (1, 2, 3, 5, 8)
TOL = 1e-9


# --------------------------------------------------------------------------------------------------
# literals
# --------------------------------------------------------------------------------------------------

def q(x):
    fr = Fraction(float(x))
    return "(%d#%d)" % (fr.numerator, fr.denominator) if fr.numerator >= 0 else "(-%d#%d)" % (-fr.numerator, fr.denominator)


def ql(v):
    return "[" + ";".join(q(x) for x in v) + "]"


def qll(m):
    return "[" + ";".join(ql(r) for r in m) + "]"


def qp(p):
    return "(%s,%s)" % (q(p[0]), q(p[1]))


def qpl(v):
    return "[" + ";".join(qp(p) for p in v) + "]"


def qpll(m):
    return "[" + ";".join(qpl(r) for r in m) + "]"


def qm(m):
    return "((%s,%s),(%s,%s))" % (q(m[0][0]), q(m[0][1]), q(m[1][0]), q(m[1][1]))


def qml(v):
    return "[" + ";".join(qm(m) for m in v) + "]"


# --------------------------------------------------------------------------------------------------
# running the implementation
# --------------------------------------------------------------------------------------------------

_JIT = {}


def jfn(name):
    import jax
    from nifty.re import gauss_markov as gm
    if name not in _JIT:
        _JIT[name] = jax.jit(getattr(gm, name))
    return _JIT[name]


def bc(x, n):
    """Scalar parameters broadcast to one value per step (the model always takes lists)."""
    x = np.asarray(x, dtype=np.float64)
    return np.full(n, float(x)) if x.ndim == 0 else x


def run_case(c):
    """Run the implementation for one case description (dict of plain floats / lists)."""
    kind = c["kind"]
    n = c["n"]
    xi = np.array(c["xi"], dtype=np.float64)
    par = {k: (np.array(v, dtype=np.float64) if isinstance(v, list) else float(v)) for k, v in c["par"].items()}

    def f(xi_, x0_):
        if kind == "wiener":
            return jfn("wiener_process")(xi_, x0_, par["sigma"], par["dt"])
        if kind == "gmp1":
            return jfn("scalar_gauss_markov_process")(xi_, x0_, par["drift"], par["amp"])
        if kind == "ou":
            return jfn("ornstein_uhlenbeck_process")(xi_, x0_, par["sigma"], par["gamma"], par["dt"])
        if kind == "iwp":
            return jfn("integrated_wiener_process")(xi_, x0_, par["sigma"], par["dt"], par["asperity"])
        if kind == "gmp2":
            return jfn("discrete_gauss_markov_process")(xi_, x0_, par["drift"], par["diffamp"])
        raise ValueError(kind)
    two = kind in ("iwp", "gmp2")
    x0 = np.array(c["x0"], dtype=np.float64) if two else float(c["x0"])
    out = {"res": np.asarray(f(xi, x0), dtype=np.float64)}
    # response to the unit excitations (x0 components first, then xi entries in C order)
    zero_x0 = np.zeros(2) if two else 0.0
    zero_xi = np.zeros_like(xi)
    base = np.asarray(f(zero_xi, zero_x0), dtype=np.float64)
    cols = []
    if two:
        for j in range(2):
            e = np.zeros(2)
            e[j] = 1.0
            cols.append(np.asarray(f(zero_xi, e)) - base)
        for k in range(n):
            for j in range(2):
                e = np.zeros_like(xi)
                e[k, j] = 1.0
                cols.append(np.asarray(f(e, zero_x0)) - base)
    else:
        cols.append(np.asarray(f(zero_xi, 1.0)) - base)
        for k in range(n):
            e = np.zeros_like(xi)
            e[k] = 1.0
            cols.append(np.asarray(f(e, zero_x0)) - base)
    out["base"] = base
    out["A"] = np.stack(cols, axis=-1)      # scalar: (n+1, n+1);  2-D: (n+1, 2, 2+2n)
    return out


def float_witnesses(c):
    """sqrt / exp values exactly as the implementation computes them (float64, same formulas)."""
    import jax.numpy as jnp
    par = c["par"]
    n = c["n"]
    w = {}
    if c["kind"] in ("wiener", "iwp"):
        dt = bc(par["dt"], n)
        w["s"] = np.asarray(jnp.sqrt(jnp.asarray(dt)))
        w["dt"] = dt
        w["sigma"] = bc(par["sigma"], n)
    if c["kind"] == "iwp":
        asp = bc(par["asperity"], n)
        w["asp"] = asp
        w["r"] = np.asarray(jnp.sqrt(jnp.asarray(dt) ** 2 / 12.0 + jnp.asarray(asp)))
    if c["kind"] == "ou":
        dt = bc(par["dt"], n)
        gam = bc(par["gamma"], n)
        e = np.asarray(jnp.exp(-jnp.asarray(gam) * jnp.asarray(dt)))
        w["e"] = e
        w["q"] = np.asarray(jnp.sqrt(1.0 - jnp.asarray(e) ** 2))
        w["sigma"] = bc(par["sigma"], n)
        w["dt"] = dt
        w["gamma"] = gam
    return w


def stacked(m, n):
    """Time-independent (2-D) matrices as the per-step stack the model takes."""
    m = np.array(m, dtype=np.float64)
    return np.broadcast_to(m, (n, 2, 2)) if m.ndim == 2 else m


def scale_of(*arrs):
    return max([1.0] + [float(np.max(np.abs(a))) for a in arrs if np.size(a)])


def checks_for(c, o):
    """Coq boolean terms for one case: model == implementation (numeric run and response matrix)."""
    kind, n = c["kind"], c["n"]
    w = float_witnesses(c)
    res, A = o["res"], o["A"]
    out = []
    if kind == "wiener":
        out.append(("wiener", "chk_wiener %s %s %s %s %s" % (ql(c["xi"]), q(c["x0"]), ql(w["sigma"]), ql(w["s"]), ql(res))))
        out.append(("wiener-rows", "chk_wiener_rows %s %s %s" % (ql(w["sigma"]), ql(w["s"]), qll(A))))
    elif kind == "gmp1":
        d, a = bc(c["par"]["drift"], n), bc(c["par"]["amp"], n)
        out.append(("gmp1", "chk_gmp1 %s %s %s %s %s" % (ql(d), ql(a), ql(c["xi"]), q(c["x0"]), ql(res))))
        out.append(("gmp1-rows", "chk_gmp1_rows %s %s %s" % (ql(d), ql(a), qll(A))))
        if np.ndim(c["par"]["drift"]) == 0:
            # scalar drift: the implementation takes the `else drift` branch; model gmp1_cd mirrors it
            out.append(("gmp1-const-drift", "chk_gmp1_cd %s %s %s %s %s" % (q(float(c["par"]["drift"])), ql(a), ql(c["xi"]), q(c["x0"]), ql(res))))
    elif kind == "ou":
        tol = q(TOL * scale_of(res, A))
        out.append(("ou", "chk_ou %s %s %s %s %s %s %s" % (tol, ql(c["xi"]), q(c["x0"]), ql(w["sigma"]), ql(w["e"]), ql(w["q"]), ql(res))))
        out.append(("ou-rows", "chk_ou_rows %s %s %s %s %s" % (tol, ql(w["sigma"]), ql(w["e"]), ql(w["q"]), qll(A))))
    elif kind == "iwp":
        tol = q(TOL * scale_of(res, A))
        out.append(("iwp", "chk_iwp %s %s %s %s %s %s %s %s" % (tol, qpl(c["xi"]), qp(c["x0"]), ql(w["sigma"]), ql(w["s"]), ql(w["dt"]), ql(w["r"]), qpl(res))))
        cols = [[(A[k, 0, j], A[k, 1, j]) for j in range(A.shape[2])] for k in range(n + 1)]
        out.append(("iwp-cols", "chk_iwp_cols %s %s %s %s %s %s" % (tol, ql(w["sigma"]), ql(w["s"]), ql(w["dt"]), ql(w["r"]), qpll(cols))))
        if np.ndim(c["par"]["sigma"]) == 0 and np.ndim(c["par"]["asperity"]) == 0:
            xcols = [[(A[k, 0, j], A[k, 1, j]) for j in range(2, A.shape[2])] for k in range(n + 1)]
            t = float(np.sum(w["dt"]))
            tol2 = q(TOL * max(1.0, float(c["par"]["sigma"]) ** 2 * (t ** 3 + t + float(c["par"]["asperity"]) * t)))
            out.append(("iwp-marginals", "chk_iwp_marginals %s %s %s %s %s" % (tol2, q(c["par"]["sigma"]), q(c["par"]["asperity"]), ql(w["dt"]), qpll(xcols))))
    elif kind == "gmp2":
        tol = q(TOL * scale_of(res, A))
        F, G = stacked(c["par"]["drift"], n), stacked(c["par"]["diffamp"], n)
        out.append(("gmp2", "chk_gmp2 %s %s %s %s %s %s" % (tol, qml(F), qml(G), qpl(c["xi"]), qp(c["x0"]), qpl(res))))
        cols = [[(A[k, 0, j], A[k, 1, j]) for j in range(A.shape[2])] for k in range(n + 1)]
        out.append(("gmp2-cols", "chk_gmp2_cols %s %s %s %s" % (tol, qml(F), qml(G), qpll(cols))))
    return out


# --------------------------------------------------------------------------------------------------
# the property, directly on the implementation
# --------------------------------------------------------------------------------------------------

def _cov_from_A(A_xi):
    """A_xi: (states, excitations) -> covariance for iid standard normal excitations."""
    return A_xi @ A_xi.T


def iwp_reference_cov(dt, sigma, asp, P0=None):
    """Covariance of (x, v) at all grid points of dx = v dt + sigma sqrt(asp) dW1, dv = sigma dW2
    with piecewise constant parameters, from the continuous-time transition formulas."""
    n = len(dt)
    P = [np.zeros((2, 2)) if P0 is None else np.asarray(P0, dtype=float)]
    Fs = []
    for k in range(n):
        d, s2, a = dt[k], sigma[k] ** 2, asp[k]
        F = np.array([[1.0, d], [0.0, 1.0]])
        Q = s2 * np.array([[d ** 3 / 3 + a * d, d ** 2 / 2], [d ** 2 / 2, d]])
        Fs.append(F)
        P.append(F @ P[-1] @ F.T + Q)
    cov = np.zeros((n + 1, 2, n + 1, 2))
    for i in range(n + 1):
        Phi = np.eye(2)
        for j in range(i, n + 1):
            if j > i:
                Phi = Fs[j - 1] @ Phi
            cov[j, :, i, :] = Phi @ P[i]
            cov[i, :, j, :] = (Phi @ P[i]).T
    return cov.reshape(2 * (n + 1), 2 * (n + 1))


def refine(c, m=2):
    """The same process on a grid where every step is split into m equal parts."""
    par = dict(c["par"])
    n = c["n"]
    out = {"kind": c["kind"], "n": n * m, "x0": c["x0"], "par": {}}
    for k, v in par.items():
        if k == "dt":
            out["par"][k] = np.repeat(bc(v, n) / m, m).tolist()
        else:
            out["par"][k] = np.repeat(bc(v, n), m).tolist() if np.ndim(v) else v
    out["xi"] = np.zeros((n * m, 2)).tolist() if c["kind"] == "iwp" else np.zeros(n * m).tolist()
    return out


def direct_failures(c, o=None):
    """Ways in which the implementation violates C29 on this case (list of (signature, what, input))."""
    fails = []
    kind, n = c["kind"], c["n"]

    def fail(fn, what):
        fails.append(({"fn": fn, "kind": kind}, what, {"case": c}))
    o = o or run_case(c)
    res, A, base = o["res"], o["A"], o["base"]
    w = float_witnesses(c)
    xi = np.array(c["xi"], dtype=np.float64)
    two = kind in ("iwp", "gmp2")
    # linearity: result = response to x0 and xi
    if two:
        lin = A[:, :, 0] * c["x0"][0] + A[:, :, 1] * c["x0"][1] + np.einsum("ksj,j->ks", A[:, :, 2:], xi.reshape(-1)) + base
    else:
        lin = A[:, 0] * c["x0"] + A[:, 1:] @ xi + base
    sc = scale_of(res)
    if not np.allclose(lin, res, rtol=0, atol=1e-10 * sc) or np.max(np.abs(base)) != 0.0:
        fail("linearity", "%s is not linear in (x0, xi)" % kind)
    if kind == "wiener":
        var = np.concatenate([[0.0], np.cumsum(w["sigma"] ** 2 * w["dt"])])
        ref = np.minimum.outer(var, var)
        cov = _cov_from_A(A[:, 1:])
        if not np.allclose(cov, ref, rtol=0, atol=1e-10 * scale_of(ref)):
            i, j = np.unravel_index(np.argmax(np.abs(cov - ref)), cov.shape)
            fail("wiener-cov", "Wiener covariance Cov(x_%d, x_%d) = %r, continuous-time value %r" % (i, j, float(cov[i, j]), float(ref[i, j])))
        if not np.allclose(A[:, 0], 1.0):
            fail("wiener-x0", "Wiener process does not start from x0")
    if kind == "ou":
        e = np.exp(-w["gamma"] * w["dt"])
        # stationary start x0 ~ N(0, sigma_0^2); transition variance sigma_k^2 (1 - e_k^2)
        P = [w["sigma"][0] ** 2]
        for k in range(n):
            P.append(e[k] ** 2 * P[-1] + w["sigma"][k] ** 2 * (1 - e[k] ** 2))
        ref = np.zeros((n + 1, n + 1))
        for i in range(n + 1):
            phi = 1.0
            for j in range(i, n + 1):
                if j > i:
                    phi *= e[j - 1]
                ref[i, j] = ref[j, i] = phi * P[i]
        Afull = np.concatenate([A[:, :1] * w["sigma"][0], A[:, 1:]], axis=1)
        cov = _cov_from_A(Afull)
        if not np.allclose(cov, ref, rtol=0, atol=1e-10 * scale_of(ref)):
            i, j = np.unravel_index(np.argmax(np.abs(cov - ref)), cov.shape)
            fail("ou-cov", "OU covariance Cov(x_%d, x_%d) = %r, continuous-time value %r" % (i, j, float(cov[i, j]), float(ref[i, j])))
        if np.ndim(c["par"]["sigma"]) == 0:
            s2 = float(c["par"]["sigma"]) ** 2
            if not np.allclose(np.diag(cov), s2, rtol=0, atol=1e-10 * max(1.0, s2)):
                fail("ou-stationary", "OU variance is not stationary: %s vs sigma^2 = %r" % (np.diag(cov).tolist(), s2))
    if kind == "iwp":
        ref = iwp_reference_cov(w["dt"], w["sigma"], w["asp"])
        Ax = A[:, :, 2:].reshape(2 * (n + 1), -1)
        cov = _cov_from_A(Ax)
        if not np.allclose(cov, ref, rtol=0, atol=1e-10 * scale_of(ref)):
            i, j = np.unravel_index(np.argmax(np.abs(cov - ref)), cov.shape)
            fail("iwp-cov", "IWP covariance entry (%d,%d) = %r, continuous-time value %r" % (i, j, float(cov[i, j]), float(ref[i, j])))
        # deterministic part: straight line from x0
        t = np.concatenate([[0.0], np.cumsum(w["dt"])])
        if not (np.allclose(A[:, 0, 0], 1) and np.allclose(A[:, 1, 0], 0) and np.allclose(A[:, 0, 1], t) and np.allclose(A[:, 1, 1], 1)):
            fail("iwp-drift", "IWP without excitation is not the straight line x0 + v0 t")
        # the generic generator with F, G agrees
        F = np.array([[[1.0, d], [0.0, 1.0]] for d in w["dt"]])
        G = np.array([[[sg * s * r, sg * s * d / 2], [0.0, sg * s]] for sg, s, d, r in zip(w["sigma"], w["s"], w["dt"], w["r"])])
        g = np.asarray(jfn("discrete_gauss_markov_process")(xi, np.array(c["x0"], dtype=np.float64), F, G))
        if not np.allclose(g, res, rtol=0, atol=1e-10 * sc):
            fail("generic-agrees", "discrete_gauss_markov_process(F, G) differs from integrated_wiener_process")
    if kind == "gmp2":
        # documented: res_{i+1} = drift_i @ res_i + diffamp_i @ xi_i, transition covariance diffamp_i @ diffamp_i.T
        F, G = stacked(c["par"]["drift"], n), stacked(c["par"]["diffamp"], n)
        P = [np.zeros((2, 2))]
        for k in range(n):
            P.append(F[k] @ P[-1] @ F[k].T + G[k] @ G[k].T)
        ref = np.zeros((n + 1, 2, n + 1, 2))
        for i in range(n + 1):
            Phi = np.eye(2)
            for j in range(i, n + 1):
                if j > i:
                    Phi = F[j - 1] @ Phi
                ref[j, :, i, :] = Phi @ P[i]
                ref[i, :, j, :] = (Phi @ P[i]).T
        ref = ref.reshape(2 * (n + 1), 2 * (n + 1))
        cov = _cov_from_A(A[:, :, 2:].reshape(2 * (n + 1), -1))
        if not np.allclose(cov, ref, rtol=0, atol=1e-10 * scale_of(ref)):
            i, j = np.unravel_index(np.argmax(np.abs(cov - ref)), cov.shape)
            fail("gmp2-cov", "generic generator: covariance entry (%d,%d) = %r, F P F^T + G G^T recursion gives %r" % (i, j, float(cov[i, j]), float(ref[i, j])))
    if kind == "iwp" and len(set(w["dt"].tolist())) == 1 and np.ndim(c["par"]["sigma"]) == 0 and np.ndim(c["par"]["asperity"]) == 0:
        # uniform grid: the generic generator with time-independent 2-D matrices agrees as well
        F2 = np.array([[1.0, w["dt"][0]], [0.0, 1.0]])
        G2 = np.array([[w["sigma"][0] * w["s"][0] * w["r"][0], w["sigma"][0] * w["s"][0] * w["dt"][0] / 2], [0.0, w["sigma"][0] * w["s"][0]]])
        g = np.asarray(jfn("discrete_gauss_markov_process")(xi, np.array(c["x0"], dtype=np.float64), F2, G2))
        if not np.allclose(g, res, rtol=0, atol=1e-10 * sc):
            fail("generic-agrees", "discrete_gauss_markov_process with time-independent 2-D (F, G) differs from integrated_wiener_process on a uniform grid")
    if kind in ("wiener", "ou", "iwp"):
        # refinement of the grid does not change the covariance at the original grid points
        c2 = refine(c)
        o2 = run_case(c2)
        if two:
            A2 = o2["A"][::2, :, 2:].reshape(2 * (n + 1), -1)
            A1 = A[:, :, 2:].reshape(2 * (n + 1), -1)
        else:
            A2, A1 = o2["A"][::2, 1:], A[:, 1:]
            if kind == "ou":        # include the stationary start
                A2 = np.concatenate([o2["A"][::2, :1] * w["sigma"][0], A2], axis=1)
                A1 = np.concatenate([A[:, :1] * w["sigma"][0], A1], axis=1)
        c1, c2m = _cov_from_A(A1), _cov_from_A(A2)
        if not np.allclose(c1, c2m, rtol=0, atol=1e-10 * scale_of(c1)):
            i, j = np.unravel_index(np.argmax(np.abs(c1 - c2m)), c1.shape)
            fail("refinement", "%s: covariance entry (%d,%d) changes under refinement of the grid: %r -> %r" % (kind, i, j, float(c1[i, j]), float(c2m[i, j])))
    if kind == "wiener":
        g = np.asarray(jfn("scalar_gauss_markov_process")(xi, float(c["x0"]), 1.0, w["s"] * w["sigma"]))
        if not np.allclose(g, res, rtol=0, atol=1e-12 * sc):
            fail("generic-agrees", "scalar_gauss_markov_process(drift=1) differs from wiener_process")
    if kind == "ou":
        g = np.asarray(jfn("scalar_gauss_markov_process")(xi, float(c["x0"]), w["e"], w["sigma"] * w["q"]))
        if not np.allclose(g, res, rtol=0, atol=1e-12 * sc):
            fail("generic-agrees", "scalar_gauss_markov_process differs from ornstein_uhlenbeck_process")
    return fails


def model_class_failures():
    """The GaussMarkovProcess model classes call the process functions with the documented arguments."""
    import nifty.re as jft
    fails = []
    dts = np.array([0.25, 1.0, 0.0625])
    xi = np.array([1.0, -2.0, 0.5])
    gp = jft.WienerProcess(0.5, 2.0, dts)
    a = np.asarray(gp({"wp": xi}))
    b = np.asarray(jfn("wiener_process")(xi, 0.5, 2.0, dts))
    if a.shape != b.shape or not np.allclose(a, b, rtol=1e-13, atol=1e-13):
        fails.append(({"fn": "WienerProcess", "kind": "model"}, "WienerProcess model differs from wiener_process", {"case": "model-wiener"}))
    gp = jft.OrnsteinUhlenbeckProcess(2.0, 0.5, dts, x0=0.5)
    a = np.asarray(gp({"oup": xi}))
    b = np.asarray(jfn("ornstein_uhlenbeck_process")(xi, 0.5, 2.0, 0.5, dts))
    if a.shape != b.shape or not np.allclose(a, b, rtol=1e-13, atol=1e-13):
        fails.append(({"fn": "OrnsteinUhlenbeckProcess", "kind": "model"}, "OrnsteinUhlenbeckProcess model differs from the function", {"case": "model-ou"}))
    x2 = np.array([[1.0, -2.0], [0.5, 0.25], [0.0, 1.0]])
    gp = jft.IntegratedWienerProcess(np.array([0.5, -1.0]), 2.0, dts, asperity=0.125)
    a = np.asarray(gp({"iwp": x2}))
    b = np.asarray(jfn("integrated_wiener_process")(x2, np.array([0.5, -1.0]), 2.0, dts, 0.125))
    if a.shape != b.shape or not np.allclose(a, b, rtol=1e-13, atol=1e-13):
        fails.append(({"fn": "IntegratedWienerProcess", "kind": "model"}, "IntegratedWienerProcess model differs from the function", {"case": "model-iwp"}))
    return fails


def x0_forms():
    """Every documented form of the start value, incl. the boundary value 0 in all its spellings.
    (label, constructor argument, start mean, coefficient of the start's own latent excitation or
    None = "sigma_0" (steady state), extra latent keys relative to `name`)"""
    import jax.numpy as jnp
    import nifty.re as jft
    return [
        ("int0", 0, 0.0, 0.0, []), ("float0", 0.0, 0.0, 0.0, []), ("npfloat0", np.float64(0), 0.0, 0.0, []),
        ("0d-array0", np.zeros(()), 0.0, 0.0, []), ("jnp0", jnp.zeros(()), 0.0, 0.0, []),
        ("nonzero", 0.75, 0.75, 0.0, []), ("negative", -0.5, -0.5, 0.0, []),
        ("tuple", (0.25, 0.5), 0.25, 0.5, ["_x0"]), ("tuple-mean0", (0.0, 2.0), 0.0, 2.0, ["_x0"]),
        ("lazymodel", jft.NormalPrior(-0.25, 1.5, name="my_start"), -0.25, 1.5, ["=my_start"]),
    ]


def model_form_observations():
    """WienerProcess / OrnsteinUhlenbeckProcess for every x0 form (and x0=None for OU): latent keys,
    value at zero excitation, response matrix w.r.t. (start latent, xi).  Returns a list of dicts."""
    import nifty.re as jft
    dts = np.array([0.25, 1.0, 0.0625, 0.5625])
    n = dts.size
    sig = np.array([0.5, 2.0, 1.25, 0.75])
    gam = np.array([0.5, 0.125, 1.0, 0.25])
    obs = []
    forms = x0_forms()
    for proc in ("ou", "wiener"):
        name = "oup" if proc == "ou" else "wp"
        fl = list(forms) + ([("none", None, 0.0, None, ["_x0"])] if proc == "ou" else [])
        for label, x0, mean, c0, extra in fl:
            try:
                if proc == "ou":
                    gp = jft.OrnsteinUhlenbeckProcess(sig, gam, dts, name=name, x0=x0)
                else:
                    gp = jft.WienerProcess(x0, sig, dts, name=name)
                keys = sorted(gp.domain.keys())
                want_keys = sorted([name] + [(e[1:] if e.startswith("=") else name + e) for e in extra])
                start_key = [k for k in keys if k != name]
                zero = {k: np.zeros(np.shape(jft.zeros_like(gp.domain)[k])) for k in keys}
                base = np.asarray(gp(zero), dtype=np.float64)
                cols = []
                if len(start_key) == 1:
                    e = dict(zero)
                    e[start_key[0]] = np.ones(())
                    cols.append(np.asarray(gp(e)) - base)
                else:
                    cols.append(np.zeros(n + 1))
                for k in range(n):
                    e = dict(zero)
                    v = np.zeros(n)
                    v[k] = 1.0
                    e[name] = v
                    cols.append(np.asarray(gp(e)) - base)
                obs.append({"proc": proc, "form": label, "keys": keys, "want_keys": want_keys, "base": base,
                            "A": np.stack(cols, axis=-1), "mean": mean, "c0": (float(sig[0]) if c0 is None else c0),
                            "sigma": sig, "gamma": gam, "dt": dts, "error": None})
            except Exception as e:
                obs.append({"proc": proc, "form": label, "error": repr(e)[:200]})
    return obs


def model_form_checks(obs):
    """Coq terms: response rows of the model classes = model rows with the documented start coefficient;
    value at zero excitation = the process function's noise-free path from the start mean."""
    import jax.numpy as jnp
    out = []
    for o in obs:
        tag = "%s-model-x0=%s" % (o["proc"], o["form"])
        if o["error"] is not None:
            out.append((tag, "false"))
            continue
        n = o["dt"].size
        tol = q(TOL * scale_of(o["A"], o["base"]))
        if o["proc"] == "ou":
            e = np.asarray(jnp.exp(-jnp.asarray(o["gamma"]) * jnp.asarray(o["dt"])))
            qq = np.asarray(jnp.sqrt(1.0 - jnp.asarray(e) ** 2))
            out.append((tag + "-rows", "chk_ou_start_rows %s %s %s %s %s %s" % (tol, q(o["c0"]), ql(o["sigma"]), ql(e), ql(qq), qll(o["A"]))))
            out.append((tag + "-mean", "chk_ou %s %s %s %s %s %s %s" % (tol, ql(np.zeros(n)), q(o["mean"]), ql(o["sigma"]), ql(e), ql(qq), ql(o["base"]))))
        else:
            s_ = np.asarray(jnp.sqrt(jnp.asarray(o["dt"])))
            out.append((tag + "-rows", "chk_wiener_start_rows %s %s %s %s %s" % (tol, q(o["c0"]), ql(o["sigma"]), ql(s_), qll(o["A"]))))
            out.append((tag + "-mean", "chk_wiener %s %s %s %s %s" % (ql(np.zeros(n)), q(o["mean"]), ql(o["sigma"]), ql(s_), ql(o["base"]))))
        out.append((tag + "-keys", C.cbool(o["keys"] == o["want_keys"])))
    return out


def model_form_failures(obs):
    """Direct statement: latent keys as documented, Var[x_0] and the whole covariance as documented."""
    fails = []
    for o in obs:
        sig = {"fn": "OrnsteinUhlenbeckProcess" if o["proc"] == "ou" else "WienerProcess", "kind": "model-x0-form"}
        inp = {"case": "model-form", "proc": o["proc"], "form": o["form"]}
        if o["error"] is not None:
            fails.append((sig, "%s(x0 form %s) raised %s" % (sig["fn"], o["form"], o["error"]), inp))
            continue
        if o["keys"] != o["want_keys"]:
            fails.append((sig, "%s with x0 form `%s`: latent keys %s, documented %s" % (sig["fn"], o["form"], o["keys"], o["want_keys"]), inp))
            continue
        n = o["dt"].size
        cov = o["A"] @ o["A"].T
        if o["proc"] == "ou":
            e = np.exp(-o["gamma"] * o["dt"])
            P = [o["c0"] ** 2]
            for k in range(n):
                P.append(e[k] ** 2 * P[-1] + o["sigma"][k] ** 2 * (1 - e[k] ** 2))
            phis = e
        else:
            P = [o["c0"] ** 2]
            for k in range(n):
                P.append(P[-1] + o["sigma"][k] ** 2 * o["dt"][k])
            phis = np.ones(n)
        ref = np.zeros((n + 1, n + 1))
        for i in range(n + 1):
            phi = 1.0
            for j in range(i, n + 1):
                if j > i:
                    phi *= phis[j - 1]
                ref[i, j] = ref[j, i] = phi * P[i]
        if not np.allclose(cov, ref, rtol=0, atol=1e-10 * scale_of(ref)):
            i, j = np.unravel_index(np.argmax(np.abs(cov - ref)), cov.shape)
            fails.append((sig, "%s with x0 form `%s`: Cov(x_%d, x_%d) = %r, documented %r" % (sig["fn"], o["form"], i, j, float(cov[i, j]), float(ref[i, j])), inp))
        elif abs(o["base"][0] - o["mean"]) > 1e-12:
            fails.append((sig, "%s with x0 form `%s`: E[x_0] = %r, documented %r" % (sig["fn"], o["form"], float(o["base"][0]), o["mean"]), inp))
    return fails


# --------------------------------------------------------------------------------------------------
# model classes: every parameter in every documented form, in combination, priors at non-zero latents
# --------------------------------------------------------------------------------------------------

COMBO_DT = np.array([0.25, 1.0, 0.0625])


def _lognormal_ref(mean, std, xi):
    """Documented meaning of a (mean, std) tuple / LogNormalPrior: log-normal with these moments."""
    ls = np.sqrt(np.log1p((std / mean) ** 2))
    return np.exp(np.log(mean) - 0.5 * ls ** 2 + ls * np.asarray(xi, dtype=np.float64))


def positive_forms(tag, name):
    """Forms of sigma / gamma / asperity: (label, argument, latent dict, documented value)."""
    import nifty.re as jft
    n = COMBO_DT.size
    lat1 = {"sigma": 0.7, "gamma": -0.4, "asperity": 0.3}[tag]
    latn = np.array([0.7, -0.3, 0.2]) * (1.0 if tag != "gamma" else -1.0)
    sc = {"sigma": 1.25, "gamma": 0.375, "asperity": 0.125}[tag]
    sq = {"sigma": np.array([0.5, 2.0, 1.25]), "gamma": np.array([0.5, 0.125, 1.0]), "asperity": np.array([0.0, 0.25, 0.0625])}[tag]
    tp = {"sigma": (1.5, 0.5), "gamma": (0.5, 0.25), "asperity": (0.25, 0.125)}[tag]
    lz = {"sigma": (0.75, 0.25), "gamma": (0.25, 0.5), "asperity": (0.5, 0.25)}[tag]
    return [
        ("scalar", sc, {}, np.full(n, sc)),
        ("sequence", sq, {}, sq),
        ("tuple", tp, {name + "_" + tag: lat1}, np.full(n, _lognormal_ref(tp[0], tp[1], lat1))),
        ("lazymodel", jft.LogNormalPrior(lz[0], lz[1], name=tag + "_model"), {tag + "_model": lat1}, np.full(n, _lognormal_ref(lz[0], lz[1], lat1))),
        ("lazymodel-seq", jft.LogNormalPrior(lz[0], lz[1], shape=(n,), name=tag + "_seqmodel"), {tag + "_seqmodel": latn}, _lognormal_ref(lz[0], lz[1], latn)),
    ]


def start_forms(proc, name):
    """Forms of x0: (label, argument, start latent key or None, documented mean, documented coefficient(s)
    of the start latent; None = steady state sigma_0)."""
    import nifty.re as jft
    if proc == "iwp":
        return [
            ("array", np.array([0.5, -1.0]), None, np.array([0.5, -1.0]), np.zeros(2)),
            ("array0", np.zeros(2), None, np.zeros(2), np.zeros(2)),
            ("tuple", (np.array([0.25, -0.5]), np.array([0.5, 2.0])), name + "_x0", np.array([0.25, -0.5]), np.array([0.5, 2.0])),
            ("lazymodel", jft.NormalPrior(np.array([1.0, 0.0]), np.array([2.0, 0.25]), shape=(2,), name="my_start"), "my_start", np.array([1.0, 0.0]), np.array([2.0, 0.25])),
        ]
    out = [("float0", 0.0, None, 0.0, 0.0), ("nonzero", 0.75, None, 0.75, 0.0),
           ("tuple", (0.25, 0.5), name + "_x0", 0.25, 0.5),
           ("lazymodel", jft.NormalPrior(-0.25, 1.5, name="my_start"), "my_start", -0.25, 1.5)]
    if proc == "ou":
        out.append(("omitted", None, name + "_x0", 0.0, None))
    return out


def combo_plan(quick, seed):
    """(proc, i_x0, i_sigma, i_third): thorough = full product; quick = every PAIR of forms of every two
    parameters (third parameter cycling with the seed)."""
    plan = []
    for proc, nx, third in (("ou", 5, 5), ("wiener", 4, 1), ("iwp", 4, 6)):
        full = [(a, b, c) for a in range(nx) for b in range(5) for c in range(third)]
        if not quick or third == 1:
            plan += [(proc,) + t for t in full]
            continue
        chosen = set()
        for a in range(nx):
            for b in range(5):
                chosen.add((a, b, (a + 2 * b + seed) % third))
        for a in range(nx):
            for c in range(third):
                chosen.add((a, (a + c + seed) % 5, c))
        for b in range(5):
            for c in range(third):
                chosen.add(((b + 2 * c + seed) % nx, b, c))
        plan += [(proc,) + t for t in sorted(chosen)]
    return plan


def combo_observations(quick, seed):
    import jax
    import nifty.re as jft
    n = COMBO_DT.size
    obs = []
    for proc, ia, ib, ic in combo_plan(quick, seed):
        name = {"ou": "oup", "wiener": "wp", "iwp": "iwp"}[proc]
        xl, x0, skey, mean, c0 = start_forms(proc, name)[ia]
        sl, sarg, slat, sval = positive_forms("sigma", name)[ib]
        o = {"proc": proc, "forms": {"x0": xl, "sigma": sl}, "error": None}
        lat, want = dict(slat), {name} | set(slat) | ({skey} if skey else set())
        try:
            if proc == "ou":
                gl, garg, glat, gval = positive_forms("gamma", name)[ic]
                o["forms"]["gamma"] = gl
                lat.update(glat)
                want |= set(glat)
                gp = jft.OrnsteinUhlenbeckProcess(sarg, garg, COMBO_DT, name=name, x0=x0)
                o["gamma"] = gval
            elif proc == "wiener":
                gp = jft.WienerProcess(x0, sarg, COMBO_DT, name=name)
            else:
                af = [("none", None, {}, np.zeros(n))] + positive_forms("asperity", name)
                al, aarg, alat, aval = af[ic]
                o["forms"]["asperity"] = al
                lat.update(alat)
                want |= set(alat)
                gp = jft.IntegratedWienerProcess(x0, sarg, COMBO_DT, name=name, asperity=aarg)
                o["asperity"] = aval
            keys = set(gp.domain.keys())
            o.update({"keys": sorted(keys), "want_keys": sorted(want), "sigma": sval, "mean": mean,
                      "c0": (float(sval[0]) if c0 is None else c0)})
            if keys != want:
                obs.append(o)
                continue
            zero = {k: np.zeros(np.shape(v)) for k, v in jft.zeros_like(gp.domain).items()}
            for k, v in lat.items():
                zero[k] = np.asarray(v, dtype=np.float64) + zero[k]
            rows = [zero]
            two = proc == "iwp"
            if skey:
                for j in range(2 if two else 1):
                    e = dict(zero)
                    u = np.zeros(np.shape(zero[skey]))
                    if two:
                        u[j] = 1.0
                    else:
                        u = u + 1.0
                    e[skey] = u
                    rows.append(e)
            for k in range(n):
                for j in range(2 if two else 1):
                    e = dict(zero)
                    u = np.zeros(np.shape(zero[name]))
                    if two:
                        u[k, j] = 1.0
                    else:
                        u[k] = 1.0
                    e[name] = u
                    rows.append(e)
            batch = {k: np.stack([r[k] for r in rows]) for k in zero}
            out = np.asarray(jax.jit(jax.vmap(gp))(batch), dtype=np.float64)
            base, resp = out[0], out[1:] - out[0]
            nstart = (2 if two else 1)
            if not skey:
                resp = np.concatenate([np.zeros((nstart,) + base.shape), resp], axis=0)
            o["base"], o["A"] = base, np.moveaxis(resp, 0, -1)      # scalar: (n+1, 1+n); iwp: (n+1, 2, 2+2n)
        except Exception as e:
            o["error"] = repr(e)[:240]
        obs.append(o)
    return obs


def combo_checks(obs):
    import jax.numpy as jnp
    out = []
    n = COMBO_DT.size
    dt = COMBO_DT
    s_ = np.asarray(jnp.sqrt(jnp.asarray(dt)))
    for o in obs:
        tag = "%s-combo-%s" % (o["proc"], ",".join("%s=%s" % kv for kv in sorted(o["forms"].items())))
        if o["error"] is not None:
            out.append((tag, "false", o))
            continue
        out.append((tag + "-keys", C.cbool(o["keys"] == o["want_keys"]), o))
        if "A" not in o:
            continue
        tol = q(TOL * scale_of(o["A"], o["base"]))
        if o["proc"] == "ou":
            e = np.asarray(jnp.exp(-jnp.asarray(o["gamma"]) * jnp.asarray(dt)))
            qq = np.asarray(jnp.sqrt(1.0 - jnp.asarray(e) ** 2))
            out.append((tag + "-rows", "chk_ou_start_rows %s %s %s %s %s %s" % (tol, q(o["c0"]), ql(o["sigma"]), ql(e), ql(qq), qll(o["A"])), o))
            out.append((tag + "-mean", "chk_ou %s %s %s %s %s %s %s" % (tol, ql(np.zeros(n)), q(o["mean"]), ql(o["sigma"]), ql(e), ql(qq), ql(o["base"])), o))
        elif o["proc"] == "wiener":
            out.append((tag + "-rows", "chk_wiener_start_rows %s %s %s %s %s" % (tol, q(o["c0"]), ql(o["sigma"]), ql(s_), qll(o["A"])), o))
            out.append((tag + "-mean", "list_eqb (qc_close (Q2Qc %s)) (wiener (qcl %s) (Q2Qc %s) (qcl %s) (qcl %s)) (qcl %s)" % (
                tol, ql(np.zeros(n)), q(o["mean"]), ql(o["sigma"]), ql(s_), ql(o["base"])), o))
        else:
            r = np.asarray(jnp.sqrt(jnp.asarray(dt) ** 2 / 12.0 + jnp.asarray(o["asperity"])))
            A = o["A"]
            cols = [[(A[k, 0, j], A[k, 1, j]) for j in range(A.shape[2])] for k in range(n + 1)]
            out.append((tag + "-cols", "chk_iwp_cols_start %s %s %s %s %s %s %s %s" % (tol, q(o["c0"][0]), q(o["c0"][1]), ql(o["sigma"]), ql(s_), ql(dt), ql(r), qpll(cols)), o))
            out.append((tag + "-mean", "chk_iwp %s %s %s %s %s %s %s %s" % (tol, qpl(np.zeros((n, 2))), qp(o["mean"]), ql(o["sigma"]), ql(s_), ql(dt), ql(r), qpl(o["base"])), o))
    return out


def combo_failures(obs):
    """Direct statement on the implementation: documented latent keys; A A^T = covariance of the documented
    process with the documented parameter values (priors evaluated at the chosen non-zero latents)."""
    fails = []
    n = COMBO_DT.size
    dt = COMBO_DT
    for o in obs:
        cls = {"ou": "OrnsteinUhlenbeckProcess", "wiener": "WienerProcess", "iwp": "IntegratedWienerProcess"}[o["proc"]]
        sig = {"fn": cls, "kind": "model-parameter-forms"}
        inp = {"case": "model-combo", "proc": o["proc"], "forms": o["forms"]}
        desc = "%s(%s)" % (cls, ", ".join("%s as %s" % kv for kv in sorted(o["forms"].items())))
        if o["error"] is not None:
            fails.append((sig, "%s raised %s" % (desc, o["error"]), inp))
            continue
        if o["keys"] != o["want_keys"]:
            fails.append((sig, "%s: latent keys %s, documented %s" % (desc, o["keys"], o["want_keys"]), inp))
            continue
        if o["proc"] == "iwp":
            P0 = np.diag(np.asarray(o["c0"], dtype=float) ** 2)
            ref = iwp_reference_cov(dt, o["sigma"], o["asperity"], P0)
            cov = _cov_from_A(o["A"].reshape(2 * (n + 1), -1))
            mean_ok = np.allclose(o["base"][0], o["mean"], atol=1e-12)
        else:
            phis = np.exp(-o["gamma"] * dt) if o["proc"] == "ou" else np.ones(n)
            tv = o["sigma"] ** 2 * (1 - phis ** 2) if o["proc"] == "ou" else o["sigma"] ** 2 * dt
            P = [o["c0"] ** 2]
            for k in range(n):
                P.append(phis[k] ** 2 * P[-1] + tv[k])
            ref = np.zeros((n + 1, n + 1))
            for i in range(n + 1):
                phi = 1.0
                for j in range(i, n + 1):
                    if j > i:
                        phi *= phis[j - 1]
                    ref[i, j] = ref[j, i] = phi * P[i]
            cov = _cov_from_A(o["A"])
            mean_ok = abs(o["base"][0] - o["mean"]) <= 1e-12
        if not np.allclose(cov, ref, rtol=0, atol=1e-9 * scale_of(ref)):
            i, j = np.unravel_index(np.argmax(np.abs(cov - ref)), cov.shape)
            fails.append((sig, "%s: covariance entry (%d,%d) = %r, documented process gives %r" % (desc, i, j, float(cov[i, j]), float(ref[i, j])), inp))
        elif not mean_ok:
            fails.append((sig, "%s: E[x_0] = %s, documented %s" % (desc, np.asarray(o["base"][0]).tolist(), np.asarray(o["mean"]).tolist()), inp))
    return fails


# --------------------------------------------------------------------------------------------------
# case generation
# --------------------------------------------------------------------------------------------------

def gen_cases(ctx):
    """Steered generation: per process kind the parameter forms cycle deterministically through
    scalar / per-interval SEQUENCE (with at least two different entries) so that every run has, for
    every process, time-varying sigma / gamma / asperity on >= 2 steps, uniform and non-uniform
    grids, and for the generic generator constant 2-D as well as stacked 3-D non-symmetric matrices."""
    rng = ctx.rng(29)
    cases = [c["case"] for c in ctx.corpus() if isinstance(c.get("case"), dict)]
    nper = 8 if ctx.quick else 40

    def dts(n, uniform):
        m = np.full(n, rng.integers(1, 13)) if uniform else rng.integers(1, 13, size=n)
        if not uniform and n >= 2 and len(set(m.tolist())) == 1:
            m[0] = m[0] % 12 + 1
        return ((m / 8.0) ** 2).tolist()

    def par(n, seq, lo, hi, den):
        if not seq:
            return float(rng.integers(lo, hi)) / den
        v = rng.integers(lo, hi, size=n)
        if n >= 2 and len(set(v.tolist())) == 1:
            v[-1] = lo + (v[-1] - lo + 1) % (hi - lo)
        return (v / den).tolist()

    def nonsym(shape):
        m = rng.integers(-4, 5, size=shape)
        m[..., 0, 1] = m[..., 1, 0] + 1 + rng.integers(0, 3, size=m[..., 0, 1].shape)      # never symmetric
        return (m / 4.0).tolist()
    ns = (2, 3, 5, 8, 1)
    for kind in ("wiener", "gmp1", "ou", "iwp", "gmp2"):
        for i in range(nper):
            n = int(ns[i % len(ns)])
            b0, b1, b2 = bool(i & 1), bool(i & 2), bool(i & 4)
            c = {"kind": kind, "n": n}
            if kind in ("iwp", "gmp2"):
                c["xi"] = (rng.integers(-4, 5, size=(n, 2)) / 2.0).tolist()
                c["x0"] = (rng.integers(-4, 5, size=2) / 4.0).tolist()
            else:
                c["xi"] = (rng.integers(-4, 5, size=n) / 2.0).tolist()
                c["x0"] = float(rng.integers(-4, 5)) / 4.0
            if kind == "wiener":
                c["par"] = {"sigma": par(n, not b0, 1, 9, 4.0), "dt": dts(n, b1)}
            elif kind == "gmp1":
                c["par"] = {"drift": par(n, not b0, -4, 5, 4.0), "amp": par(n, not b1, -4, 9, 4.0)}
            elif kind == "ou":
                c["par"] = {"sigma": par(n, not b0, 1, 9, 4.0), "gamma": par(n, not b1, 1, 17, 8.0), "dt": dts(n, b2)}
            elif kind == "iwp":
                asp = par(n, True, 0, 9, 16.0) if b1 else [0.0, 0.125, 0.3, 0.0][i % 4]
                c["par"] = {"sigma": par(n, not b0, 1, 9, 4.0), "dt": dts(n, b2), "asperity": asp}
            else:
                # constant 2-D (time-independent) or stacked 3-D matrices, all four combinations
                c["par"] = {"drift": nonsym((2, 2)) if b0 else nonsym((n, 2, 2)),
                            "diffamp": nonsym((2, 2)) if not b1 else nonsym((n, 2, 2))}
            cases.append(c)
    return cases


def nontrivial(c):
    return c["n"] >= 2 and any(np.ndim(v) >= 1 and len(set(np.ravel(v).tolist())) > 1 for v in c["par"].values())


class C29(C.Check):
    prop = "C29"
    coq_dir = "C29"
    trusted_base = [
        "Coq 8.16.1 kernel (coqc, vm_compute for the correspondence evaluation); all C29 theorems are closed under the global context",
        "hand-written model coq/C29/Model.v of gauss_markov.py (tied by correspondence on numeric runs AND on the full response matrices from basis excitations)",
        "covariance of a linear map of iid standard normal excitations is A A^T (the one step of probability theory used; not formalised)",
        "sqrt/exp values are the implementation's own float64 results; the theorems assume s^2 = dt, r^2 = dt^2/12 + asperity, amp^2 = sigma^2 (1 - e^2) exactly, the check verifies them to 1e-15 relative",
        "JAX out-of-bounds semantics (scatter-add dropped, used by the fori_loop overrun) as modelled by upd_add",
    ]
    assumptions = [
        "asperity enters the transition variance linearly (sigma^2 * asperity * dt), as coded and as NIFTy's own test states it; the docstring writes the noise amplitude as sigma * asperity",
        "sigma of the OU process is the stationary standard deviation (amp = sigma sqrt(1 - e^2)), as coded",
        "excitations are iid standard normal",
    ]

    def __init__(self):
        self.cases = []
        self.obs = []

    def correspondence(self, ctx, res):
        fasteval.enable_jax_cache()
        self.cases = gen_cases(ctx)
        self.obs = []
        checks, meta = [], []
        wit_bad = 0
        for c in self.cases:
            try:
                o = run_case(c)
            except Exception as e:
                res.add_broken("correspondence", "implementation raised", {"case": c, "error": repr(e)[:300]})
                self.obs.append(None)
                continue
            self.obs.append(o)
            w = float_witnesses(c)
            # the relations the theorems assume, on the float witnesses
            if "s" in w and not np.allclose(w["s"] ** 2, w["dt"], rtol=1e-15, atol=0):
                wit_bad += 1
            if "r" in w and not np.allclose(w["r"] ** 2, w["dt"] ** 2 / 12 + w["asp"], rtol=1e-15, atol=0):
                wit_bad += 1
            if "q" in w and not np.allclose(w["q"] ** 2, 1 - w["e"] ** 2, rtol=1e-15, atol=0):
                wit_bad += 1
            for what, t in checks_for(c, o):
                meta.append({"what": what, "case": c})
                checks.append(t)
        self.form_obs = model_form_observations()
        for what, t in model_form_checks(self.form_obs):
            meta.append({"what": what, "case": {"kind": "model-form", "n": 4, "par": {}}})
            checks.append(t)
        self.combo_obs = combo_observations(ctx.quick, ctx.seed)
        for what, t, o in combo_checks(self.combo_obs):
            meta.append({"what": what, "case": {"kind": "model-form", "n": 3, "par": {}, "forms": o["forms"], "proc": o["proc"]}})
            checks.append(t)
        bad = fasteval.eval_bools(self.prop, "corr", HEADER, checks, jobs=3)
        hints = []
        for i in bad[:6]:
            res.add_broken("correspondence", "gauss_markov.py vs coq/C29/Model.v: %s" % meta[i]["what"], meta[i])
        for i in bad:
            if meta[i]["case"] not in hints:
                hints.append(meta[i]["case"])
        if wit_bad:
            res.add_broken("correspondence", "float witnesses of sqrt/exp violate their defining relation", {"count": wit_bad})
        dist = {}
        for c in self.cases:
            dist[c["kind"]] = dist.get(c["kind"], 0) + 1
        res.coverage.update({
            "evaluations": len(checks),
            "distinct_nontrivial": len({json.dumps(c, sort_keys=True) for c in self.cases if nontrivial(c)}),
            "rule": "one evaluation = one numeric run or one full response matrix (all basis excitations) of one process on one generated grid; non-trivial = at least 2 steps and a time-varying parameter (non-uniform dt, sigma, gamma, asperity or matrices); distinct by case description",
            "samples": [self.cases[i] for i in (1, len(self.cases) // 2, len(self.cases) - 1)],
            "input_distribution": dist,
            "steps": sorted({c["n"] for c in self.cases}),
            "model_class_form_combinations": len(getattr(self, "combo_obs", [])),
            "model_class_x0_spellings": len(getattr(self, "form_obs", [])),
            "exact_comparisons": sum(1 for m in meta if m["what"].startswith(("wiener", "gmp1"))),
            "tolerance_comparisons": sum(1 for m in meta if not m["what"].startswith(("wiener", "gmp1"))),
            "disagreements": len(bad),
        })
        return hints

    def oracle(self, ctx, res, hints, budget):
        n = 0
        hints = [c for c in hints if c.get("kind") != "model-form"]
        order = [c for c in hints] + [c for c in self.cases if c not in hints]
        obs = {json.dumps(c, sort_keys=True): o for c, o in zip(self.cases, self.obs)}
        for c in order:
            try:
                fs = direct_failures(c, obs.get(json.dumps(c, sort_keys=True)))
            except Exception as e:
                fs = [({"fn": "exception", "kind": c["kind"]}, "the implementation raised: %r" % (e,), {"case": c})]
            n += 1
            for sig, what, inp in fs[:2]:
                res.add_failing(sig, what, inp)
            if len(res.failing) >= 4:
                break
        if not res.failing:
            for sig, what, inp in model_form_failures(getattr(self, "form_obs", None) or model_form_observations())[:2]:
                res.add_failing(sig, what, inp)
        if not res.failing:
            for sig, what, inp in combo_failures(getattr(self, "combo_obs", None) or combo_observations(ctx.quick, ctx.seed))[:2]:
                res.add_failing(sig, what, inp)
        if not res.failing:
            for sig, what, inp in model_class_failures():
                res.add_failing(sig, what, inp)
        if budget > 1 and not res.failing:
            ctx2 = C.Ctx(self.prop, "thorough", ctx.seed + 1000)
            for c in gen_cases(ctx2):
                n += 1
                fs = direct_failures(c)
                if fs:
                    res.add_failing(*fs[0])
                    break
        res.coverage["impl_property_evaluations"] = n

    def replay(self, ctx, rp):
        c = rp["input"].get("case")
        if c == "model-combo":
            return any(f[2]["forms"] == rp["input"]["forms"] and f[2]["proc"] == rp["input"]["proc"]
                       for f in combo_failures(combo_observations(False, 0)))
        if c == "model-form":
            return any(f[2]["form"] == rp["input"]["form"] and f[2]["proc"] == rp["input"]["proc"]
                       for f in model_form_failures(model_form_observations()))
        if isinstance(c, dict):
            return bool(direct_failures(c))
        return bool(model_class_failures())


CHECK = C29()
