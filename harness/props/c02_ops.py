"""C02 -- catalogue of the library linear operator classes of nifty.cl.

Per class: `gen(rng) -> cfg` (JSON-able constructor arguments), `build(ift, cfg) -> operator`,
`ref(cfg) -> dense complex TIMES matrix (or real 2m x 2n form for real-linear classes)` written as
explicit loops over multi-indices from the documented definition (independent of Coq and of the
implementation), and for the modelled classes `coq(cfg) -> dict` with the Coq terms of the spec.
Fields on MultiDomains are flattened with the keys in sorted order."""
from fractions import Fraction

import numpy as np

# ---------------------------------------------------------------------------------------------
# domains
# ---------------------------------------------------------------------------------------------
DISTS = [0.5, 1.0, 2.0, 0.25]


def mk_space(ift, s):
    k = s["k"]
    if k == "RG":
        return ift.RGSpace(tuple(s["shape"]), distances=tuple(s["dist"]), harmonic=bool(s.get("harm", False)))
    if k == "U":
        return ift.UnstructuredDomain(tuple(s["shape"]))
    if k == "GL":
        return ift.GLSpace(s["nlat"])
    if k == "HP":
        return ift.HPSpace(s["nside"])
    if k == "LM":
        return ift.LMSpace(s["lmax"])
    raise ValueError(k)


def mk_dom(ift, d):
    return ift.DomainTuple.make(tuple(mk_space(ift, s) for s in d))


def sp_shape(s):
    k = s["k"]
    if k in ("RG", "U"):
        return list(s["shape"])
    if k == "GL":
        return [s["nlat"] * (2 * s["nlat"] - 1)]
    if k == "HP":
        return [12 * s["nside"] ** 2]
    if k == "LM":
        return [(s["lmax"] + 1) ** 2]
    raise ValueError(k)


def shapes_of(d):
    return [sp_shape(s) for s in d]


def flat_shape(d):
    return [a for sh in shapes_of(d) for a in sh]


def prod(l):
    r = 1
    for a in l:
        r *= int(a)
    return r


def dsize(d):
    return prod(flat_shape(d))


def dvol(s):
    """scalar pixel volume of an RGSpace (documented: product of the distances)."""
    assert s["k"] == "RG"
    r = 1.0
    for a in s["dist"]:
        r *= a
    return r


def rg(rng, ndim=None, maxlen=4, minlen=1, harm=False):
    ndim = ndim or int(rng.integers(1, 3))
    shape = [int(rng.integers(minlen, maxlen + 1)) for _ in range(ndim)]
    return {"k": "RG", "shape": shape, "dist": [DISTS[int(rng.integers(len(DISTS)))] for _ in range(ndim)], "harm": harm}


def un(rng, ndim=None, maxlen=4, minlen=1):
    ndim = ndim or int(rng.integers(1, 3))
    return {"k": "U", "shape": [int(rng.integers(minlen, maxlen + 1)) for _ in range(ndim)]}


def gen_dom(rng, nmin=1, nmax=3, kinds=("RG", "U"), maxsize=30, maxlen=4, minlen=1, ndim=None):
    for _ in range(200):
        n = int(rng.integers(nmin, nmax + 1))
        d = []
        for _ in range(n):
            k = kinds[int(rng.integers(len(kinds)))]
            d.append(rg(rng, ndim, maxlen, minlen) if k == "RG" else un(rng, ndim, maxlen, minlen))
        if dsize(d) <= maxsize:
            return d
    return [rg(rng, 1, 3, minlen)]


def rav(shape, idx):
    f = 0
    for s, i in zip(shape, idx):
        f = f * s + i
    return f


def axes_of(d):
    """for each sub-domain the list of its array axes"""
    out, a = [], 0
    for sh in shapes_of(d):
        out.append(list(range(a, a + len(sh))))
        a += len(sh)
    return out


def spaces_list(spaces, n):
    if spaces is None:
        return list(range(n))
    if isinstance(spaces, int):
        return [spaces]
    return list(spaces)


def pick_spaces(rng, n, allow_none=True, nonempty=True):
    """a random way of naming a subset of the n sub-domains: None, int or tuple"""
    r = int(rng.integers(4))
    if r == 0 and allow_none:
        return None
    if r == 1:
        return int(rng.integers(n))
    k = int(rng.integers(1 if nonempty else 0, n + 1))
    return sorted(int(a) for a in rng.choice(n, size=k, replace=False))


# ---------------------------------------------------------------------------------------------
# Coq literals (scalars are Qc: `q num den`)
# ---------------------------------------------------------------------------------------------
def cl(xs):
    return "[" + "; ".join(xs) + "]"


def cn(n):
    n = int(n)
    assert 0 <= n < 100000
    return "%d" % n


def cnl(xs):
    return cl([cn(a) for a in xs])


def cshs(shs):
    return cl([cnl(sh) for sh in shs])


def cb(b):
    return "true" if b else "false"


def cbl(bs):
    return cl([cb(b) for b in bs])


def cz(z):
    return "(%d)%%Z" % int(z)


def coz(z):
    return "None" if z is None else "(Some %s)" % cz(z)


def cq(x):
    fr = Fraction(x)
    if fr == 1:
        return "U"
    if fr.denominator == 1:
        return "(z (%d))" % fr.numerator
    return "(q (%d) %d)" % (fr.numerator, fr.denominator)


def cqp(c):
    c = complex(c)
    return "(%s, %s)" % (cq(c.real), cq(c.imag))


def ctrip(M, tol=0.0):
    """sparse triplet literal of a real matrix"""
    M = np.asarray(M)
    out = []
    for o, i in zip(*np.nonzero(M)):
        out.append("(%d, %d, %s)" % (o, i, cq(float(M[o, i]))))
    return cl(out)


def rform(Mc):
    """real 2m x 2n form (re/im interleaved) of a complex matrix"""
    Mc = np.asarray(Mc, dtype=complex)
    m, n = Mc.shape
    R = np.zeros((2 * m, 2 * n))
    R[0::2, 0::2] = Mc.real
    R[0::2, 1::2] = -Mc.imag
    R[1::2, 0::2] = Mc.imag
    R[1::2, 1::2] = Mc.real
    return R


# ---------------------------------------------------------------------------------------------
# the classes
# ---------------------------------------------------------------------------------------------
class K:
    name = None
    modelled = False
    real_linear = False      # True: ref() returns the real 2m x 2n form
    real_only = {}           # mode -> True when only real input is admissible in that mode
    complex_only = {}
    exported = True
    tol = 0.0                # tolerance of the dense comparison with ref (0 = exact)
    check_inverse = True

    def gen(self, rng):
        raise NotImplementedError

    def build(self, ift, cfg):
        raise NotImplementedError

    def ref(self, cfg):
        return None

    def inv_ref(self, cfg):
        return None

    def coq(self, cfg):
        return None

    def nontrivial(self, cfg):
        return True

    def decl(self, cfg):
        """documented domain/target sub-domains: {"target": [...], "domain": [...]} with entries
        ("same", i) = the i-th sub-domain of the other side, ("U", shape), ("RG", shape, distances or None, harmonic or None),
        ("cls", class name, shape)"""
        return None


def same_all(d):
    return [("same", i) for i in range(len(d))]


def kron_all(blocks):
    M = np.ones((1, 1))
    for b in blocks:
        M = np.kron(M, b)
    return M


class Contraction(K):
    name = "ContractionOperator"
    modelled = True

    def decl(self, c):
        sp = spaces_list(c["spaces"], len(c["dom"]))
        return {"target": [("same", i) for i in range(len(c["dom"])) if i not in sp]}

    def gen(self, rng):
        power = [0, 0, 1, 1, 2, -1][int(rng.integers(6))]
        d = gen_dom(rng, 1, 3, kinds=("RG",) if power else ("RG", "U"))
        return {"dom": d, "spaces": pick_spaces(rng, len(d)), "power": power,
                "integration": bool(power == 1 and rng.integers(2))}

    def build(self, ift, c):
        if c.get("integration"):
            return ift.IntegrationOperator(mk_dom(ift, c["dom"]), c["spaces"])
        return ift.ContractionOperator(mk_dom(ift, c["dom"]), c["spaces"], c["power"])

    def ref(self, c):
        d = c["dom"]
        sp = spaces_list(c["spaces"], len(d))
        shs = shapes_of(d)
        tsh = [a for i, sh in enumerate(shs) if i not in sp for a in sh]
        ax = axes_of(d)
        keep = [a for i in range(len(d)) if i not in sp for a in ax[i]]
        w = 1.0
        for i in sp:
            if c["power"]:
                w *= dvol(d[i]) ** c["power"]
        ish = flat_shape(d)
        M = np.zeros((prod(tsh), prod(ish)))
        for idx in np.ndindex(*ish):
            M[rav(tsh, [idx[a] for a in keep]), rav(ish, idx)] += w
        return M

    def coq(self, c):
        d = c["dom"]
        sp = spaces_list(c["spaces"], len(d))
        sel = [i in sp for i in range(len(d))]
        dv = [cq(dvol(s)) if s["k"] == "RG" else cq(1) for s in d]
        shs = shapes_of(d)
        return {"spec": "(X_contraction %s %s %s %s)" % (cshs(shs), cbl(sel), cl(dv), cz(c["power"])),
                "tgt": "(tgt_contraction %s %s)" % (cshs(shs), cbl(sel))}

    def nontrivial(self, c):
        return dsize(c["dom"]) > 1


class DOFDist(K):
    name = "DOFDistributor"
    modelled = True

    def decl(self, c):
        k = c["space"]
        return {"domain": [("same", i) if i != k else ("cls", "DOFSpace", [max(c["dofdex"]) + 1]) for i in range(len(c["tdom"]))]}

    def gen(self, rng):
        for _ in range(100):
            d = gen_dom(rng, 1, 3)
            cand = [i for i, s in enumerate(d) if s["k"] == "RG"]
            if cand:
                break
        else:
            d, cand = [rg(rng, 1)], [0]
        k = cand[int(rng.integers(len(cand)))]
        n = prod(sp_shape(d[k]))
        nb = int(rng.integers(1, n + 1))
        dof = list(range(nb)) + [int(a) for a in rng.integers(0, nb, size=n - nb)]
        dof = [int(a) for a in rng.permutation(dof)]
        return {"tdom": d, "space": k, "dofdex": dof, "give_space": bool(len(d) > 1 or rng.integers(2))}

    def build(self, ift, c):
        d = mk_dom(ift, c["tdom"])
        k = c["space"]
        dd = ift.Field.from_raw(d[k], np.array(c["dofdex"], dtype=np.int64).reshape(d[k].shape))
        return ift.DOFDistributor(dd, target=d, space=k if c["give_space"] else None)

    def ref(self, c, dofdex=None):
        d, k = c["tdom"], c["space"]
        dof = c["dofdex"] if dofdex is None else dofdex
        shs = shapes_of(d)
        a = prod([x for sh in shs[:k] for x in sh])
        n = prod(shs[k])
        p = prod([x for sh in shs[k + 1:] for x in sh])
        nb = max(dof) + 1
        M = np.zeros((a * n * p, a * nb * p))
        for i1 in range(a):
            for j in range(n):
                for i3 in range(p):
                    M[(i1 * n + j) * p + i3, (i1 * nb + dof[j]) * p + i3] = 1
        return M

    def coq(self, c, dofdex=None):
        dof = c["dofdex"] if dofdex is None else dofdex
        shs = shapes_of(c["tdom"])
        return {"spec": "(X_dofdist %s %s %s)" % (cshs(shs), cn(c["space"]), cnl(dof)),
                "dom": "(dom_dofdist %s %s %s)" % (cshs(shs), cn(c["space"]), cnl(dof))}


class PowerDist(DOFDist):
    name = "PowerDistributor"
    modelled = True

    def decl(self, c):
        k = c["space"]
        return {"domain": [("same", i) if i != k else ("cls", "PowerSpace", None) for i in range(len(c["tdom"]))]}

    def gen(self, rng):
        d = gen_dom(rng, 1, 3, maxsize=40)
        k = int(rng.integers(len(d)))
        d[k] = rg(rng, None, 5, 1, harm=True)
        while dsize(d) > 60:
            d = [d[k]]
            k = 0
        return {"tdom": d, "space": k, "give_space": bool(len(d) > 1 or rng.integers(2))}

    def build(self, ift, c):
        d = mk_dom(ift, c["tdom"])
        return ift.PowerDistributor(d, space=c["space"] if c["give_space"] else None)

    def pindex(self, ift, c):
        d = mk_dom(ift, c["tdom"])
        return [int(a) for a in ift.PowerSpace(d[c["space"]]).pindex.reshape(-1)]

    # ref / coq need the pindex of the PowerSpace (a parameter here; its definition is C08/C10)
    def ref(self, c):
        import nifty.cl as ift
        return DOFDist.ref(self, c, self.pindex(ift, c))

    def coq(self, c):
        import nifty.cl as ift
        r = DOFDist.coq(self, c, self.pindex(ift, c))
        return r


class Padder(K):
    name = "FieldZeroPadder"
    modelled = True

    def decl(self, c):
        k = c["space"]
        s = c["dom"][k]
        return {"target": [("same", i) if i != k else ("RG", c["new_shape"], s["dist"], s["harm"]) for i in range(len(c["dom"]))]}

    def gen(self, rng):
        for _ in range(100):
            d = gen_dom(rng, 1, 3, maxsize=16)
            cand = [i for i, s in enumerate(d) if s["k"] == "RG"]
            if cand:
                break
        else:
            d, cand = [rg(rng, 1)], [0]
        k = cand[int(rng.integers(len(cand)))]
        new = [int(a + rng.integers(0, 4)) for a in d[k]["shape"]]
        return {"dom": d, "space": k, "new_shape": new, "central": bool(rng.integers(2))}

    def build(self, ift, c):
        return ift.FieldZeroPadder(mk_dom(ift, c["dom"]), tuple(c["new_shape"]), space=c["space"], central=c["central"])

    def ref(self, c):
        d, k = c["dom"], c["space"]
        shs = shapes_of(d)
        blocks = []
        for i, sh in enumerate(shs):
            if i != k:
                blocks.append(np.eye(prod(sh)))
                continue
            for n, m in zip(sh, c["new_shape"]):
                B = np.zeros((m, n))
                if n == m:
                    B = np.eye(n)
                elif not c["central"]:
                    for j in range(n):
                        B[j, j] = 1           # padding at the end of the axis
                else:
                    ny = n // 2               # padding in the middle: [0..Nyquist] stay, the last Nyquist go to the end
                    for j in range(ny + 1):
                        B[j, j] = 1
                    for j in range(1, ny + 1):
                        B[m - j, n - j] = 1
                blocks.append(B)
        return kron_all(blocks)

    def coq(self, c):
        shs = shapes_of(c["dom"])
        return {"spec": "(X_padder %s %s %s %s)" % (cshs(shs), cn(c["space"]), cnl(c["new_shape"]), cb(c["central"])),
                "tgt": "(tgt_padder %s %s %s)" % (cshs(shs), cn(c["space"]), cnl(c["new_shape"]))}

    def nontrivial(self, c):
        return c["new_shape"] != c["dom"][c["space"]]["shape"]


class Mask(K):
    name = "MaskOperator"
    modelled = True

    def decl(self, c):
        return {"target": [("U", [sum(1 for f in c["flags"] if not f)])]}

    def gen(self, rng):
        d = gen_dom(rng, 1, 3)
        n = dsize(d)
        p = [0.0, 0.3, 0.5, 0.8, 1.0][int(rng.integers(5))]
        return {"dom": d, "flags": [bool(a) for a in (rng.random(n) < p)], "fdtype": ["bool", "int", "float"][int(rng.integers(3))]}

    def build(self, ift, c):
        d = mk_dom(ift, c["dom"])
        fl = np.array(c["flags"]).reshape(d.shape)
        fl = fl.astype({"bool": bool, "int": np.int64, "float": np.float64}[c["fdtype"]])
        return ift.MaskOperator(ift.Field.from_raw(d, fl))

    def ref(self, c):
        keep = [j for j, f in enumerate(c["flags"]) if not f]
        M = np.zeros((len(keep), len(c["flags"])))
        for o, j in enumerate(keep):
            M[o, j] = 1
        return M

    def coq(self, c):
        return {"spec": "(X_mask %s)" % cbl(c["flags"]), "tgt": "(tgt_mask %s)" % cbl(c["flags"])}

    def nontrivial(self, c):
        return any(c["flags"]) and not all(c["flags"])


class Slice(K):
    name = "SliceOperator"
    modelled = True

    def decl(self, c):
        out = []
        for i, (s, new) in enumerate(zip(c["dom"], self.newshapes(c))):
            if new == list(s["shape"]):
                out.append(("same", i))
            elif s["k"] == "RG":
                out.append(("RG", new, s["dist"] if c["preserve_dist"] else None, s["harm"]))
            else:
                out.append(("U", new))
        return {"target": out}

    def gen(self, rng):
        d = gen_dom(rng, 1, 3, maxsize=36)
        new = []
        for s in d:
            r = int(rng.integers(4))
            if r == 0:
                new.append(None)
            else:
                sh = [int(rng.integers(1, a + 1)) if rng.integers(3) else a for a in s["shape"]]
                new.append(sh[0] if (len(sh) == 1 and rng.integers(2)) else sh)
        return {"dom": d, "new_shape": new, "center": bool(rng.integers(2)), "preserve_dist": bool(rng.integers(2))}

    def build(self, ift, c):
        new = tuple(None if a is None else (a if isinstance(a, int) else tuple(a)) for a in c["new_shape"])
        return ift.SliceOperator(mk_dom(ift, c["dom"]), new, center=c["center"], preserve_dist=c["preserve_dist"])

    def newshapes(self, c):
        out = []
        for s, a in zip(c["dom"], c["new_shape"]):
            out.append(list(s["shape"]) if a is None else ([a] if isinstance(a, int) else list(a)))
        return out

    def ref(self, c):
        ish = flat_shape(c["dom"])
        osh = [a for sh in self.newshapes(c) for a in sh]
        st = [int(np.floor((n - l) / 2.)) if c["center"] else 0 for n, l in zip(ish, osh)]
        M = np.zeros((prod(osh), prod(ish)))
        for o in np.ndindex(*osh):
            M[rav(osh, o), rav(ish, [a + b for a, b in zip(o, st)])] = 1
        return M

    def coq(self, c):
        shs = shapes_of(c["dom"])
        new = cl(["None" if a is None else "(Some %s)" % cnl([a] if isinstance(a, int) else a) for a in c["new_shape"]])
        return {"spec": "(X_slice %s %s %s)" % (cshs(shs), new, cb(c["center"])),
                "tgt": "(tgt_slice %s %s)" % (cshs(shs), new)}

    def nontrivial(self, c):
        return self.newshapes(c) != shapes_of(c["dom"])


def py_slice_indices(n, a, b, s):
    return list(range(n))[slice(a, b, s)]


class Split(K):
    name = "SplitOperator"
    modelled = True

    def gen(self, rng):
        # sliced sub-domains are one-dimensional (see test_selection_operators.py: "do not work on a
        # multi-dimensional RGSpace yet"); multi-axis sub-domains only with None
        d = gen_dom(rng, 1, 3, maxsize=24, maxlen=5)
        nk = int(rng.integers(1, 4))
        keys = {}
        one_d = [i for i, s in enumerate(d) if len(s["shape"]) == 1]
        if one_d and rng.integers(4) == 0:
            # a partition of one sub-domain among the keys (as in test_selection_operators.py);
            # only then intersecting_slices=False is admissible
            sp = one_d[int(rng.integers(len(one_d)))]
            n = d[sp]["shape"][0]
            perm = [int(a) for a in rng.permutation(n)]
            cuts = sorted(int(a) for a in rng.integers(0, n + 1, size=nk - 1))
            parts = [perm[a:b] for a, b in zip([0] + cuts, cuts + [n])]
            for kk, part in enumerate(parts):
                if not part:
                    continue
                keys["k%d" % kk] = [None] * sp + [["list", part, ["list", "tuple", "ndarray"][int(rng.integers(3))]]]
            if keys:
                return {"dom": d, "keys": keys, "intersecting": bool(rng.integers(2))}
        for kk in range(nk):
            items = []
            adv = False
            hasint = False
            for s in d:
                n = prod(s["shape"])
                r = int(rng.integers(7))
                if len(s["shape"]) > 1 or r == 0:
                    items.append(None)
                elif r in (1, 2):
                    def ob():
                        t = int(rng.integers(4))
                        return None if t == 0 else int(rng.integers(-n - 1, n + 2))
                    st = [None, 1, 2, 3, -1, -2][int(rng.integers(6))]
                    items.append(["slice", ob(), ob(), st])
                elif r == 3 and not adv and not hasint:
                    adv = True
                    items.append(["mask", [bool(a) for a in rng.integers(0, 2, size=n)]])
                elif r in (4, 5) and not adv and not hasint:
                    adv = True
                    ln = int(rng.integers(1, n + 1))
                    idx = [int(a) for a in rng.choice(n, size=ln, replace=False)]
                    items.append(["list", idx, ["list", "tuple", "ndarray"][int(rng.integers(3))]])
                elif r == 6 and not adv:
                    hasint = True
                    items.append(["int", int(rng.integers(n))])
                else:
                    items.append(None)
            ncut = int(rng.integers(0, 2))
            while ncut and items and items[-1] is None:
                items.pop()       # a shorter tuple: the remaining sub-domains are kept whole
            keys["k%d" % kk] = items
        return {"dom": d, "keys": keys, "intersecting": True}

    def build(self, ift, c):
        sk = {}
        for k, items in c["keys"].items():
            t = []
            for it in items:
                if it is None:
                    t.append(None)
                elif it[0] == "slice":
                    t.append(slice(it[1], it[2], it[3]))
                elif it[0] == "mask":
                    t.append(np.array(it[1], dtype=bool))
                elif it[0] == "list":
                    t.append({"list": list, "tuple": tuple, "ndarray": np.array}[it[2]](it[1]))
                elif it[0] == "int":
                    t.append(int(it[1]))
            sk[k] = tuple(t)
        return ift.SplitOperator(mk_dom(ift, c["dom"]), sk, intersecting_slices=c["intersecting"])

    def key_blocks(self, c, items):
        d = c["dom"]
        items = list(items) + [None] * (len(d) - len(items))
        blocks, tsh = [], []
        for s, it in zip(d, items):
            n = prod(s["shape"])
            if it is None:
                idx = list(range(n))
                tsh.append(list(s["shape"]))
            elif it[0] == "slice":
                idx = py_slice_indices(n, it[1], it[2], it[3])
                tsh.append([len(idx)])
            elif it[0] == "mask":
                idx = [j for j, b in enumerate(it[1]) if b]
                tsh.append([len(idx)])
            elif it[0] == "list":
                idx = list(it[1])
                tsh.append([len(idx)])
            else:
                idx = [it[1]]
            B = np.zeros((len(idx), n))
            for o, j in enumerate(idx):
                B[o, j] = 1
            blocks.append(B)
        return kron_all(blocks), tsh

    def ref(self, c):
        return np.vstack([self.key_blocks(c, c["keys"][k])[0] for k in sorted(c["keys"])])

    def coq(self, c):
        shs = shapes_of(c["dom"])
        ks = []
        for k in sorted(c["keys"]):
            items = list(c["keys"][k]) + [None] * (len(shs) - len(c["keys"][k]))
            its = []
            for it in items:
                if it is None:
                    its.append("SNone")
                elif it[0] == "slice":
                    its.append("(SSlice %s %s %s)" % (coz(it[1]), coz(it[2]), coz(it[3])))
                elif it[0] == "mask":
                    its.append("(SMask %s)" % cbl(it[1]))
                elif it[0] == "list":
                    its.append("(SList %s)" % cnl(it[1]))
                else:
                    its.append("(SInt %s)" % cn(it[1]))
            ks.append(cl(its))
        return {"spec": "(X_split %s %s)" % (cshs(shs), cl(ks)),
                "tgt_keys": ["(tgt_split_key %s %s)" % (cshs(shs), k) for k in ks]}

    def nontrivial(self, c):
        return any(it is not None for items in c["keys"].values() for it in items)


class ValueIns(K):
    name = "ValueInserter"
    modelled = True

    def decl(self, c):
        return {"domain": []}

    def gen(self, rng):
        d = gen_dom(rng, 1, 3)
        return {"tdom": d, "index": [int(rng.integers(a)) for a in flat_shape(d)]}

    def build(self, ift, c):
        return ift.ValueInserter(mk_dom(ift, c["tdom"]), tuple(c["index"]))

    def ref(self, c):
        sh = flat_shape(c["tdom"])
        M = np.zeros((prod(sh), 1))
        M[rav(sh, c["index"]), 0] = 1
        return M

    def coq(self, c):
        return {"spec": "(X_value_inserter %s %s)" % (cnl(flat_shape(c["tdom"])), cnl(c["index"]))}

    def nontrivial(self, c):
        return dsize(c["tdom"]) > 1


class DTFI(K):
    name = "DomainTupleFieldInserter"
    modelled = True

    def decl(self, c):
        return {"domain": [("same", i) for i in range(len(c["tdom"])) if i != c["space"]]}

    def gen(self, rng):
        d = gen_dom(rng, 1, 3)
        k = int(rng.integers(len(d)))
        return {"tdom": d, "space": k, "index": [int(rng.integers(a)) for a in sp_shape(d[k])]}

    def build(self, ift, c):
        return ift.DomainTupleFieldInserter(mk_dom(ift, c["tdom"]), c["space"], tuple(c["index"]))

    def ref(self, c):
        d, k = c["tdom"], c["space"]
        shs = shapes_of(d)
        ish = [a for i, sh in enumerate(shs) if i != k for a in sh]
        osh = flat_shape(d)
        ax = axes_of(d)
        M = np.zeros((prod(osh), prod(ish)))
        for i in np.ndindex(*ish):
            i = list(i)
            o = i[:ax[k][0]] + list(c["index"]) + i[ax[k][0]:]
            M[rav(osh, o), rav(ish, i)] = 1
        return M

    def coq(self, c):
        shs = shapes_of(c["tdom"])
        return {"spec": "(X_dtfi %s %s %s)" % (cshs(shs), cn(c["space"]), cnl(c["index"])),
                "dom": "(dom_dtfi %s %s)" % (cshs(shs), cn(c["space"]))}


CVALS = [1, -1, 2, 0.5, -0.25, 1j, -2j, 1 + 1j, 2 - 1j, 0.5 + 0.25j, 3, 0]
RVALS = [1, -1, 2, 0.5, -0.25, 3, 4, -2, 0.125, 0]


def cvals(rng, n, cplx):
    src = CVALS if cplx else RVALS
    return [complex(src[int(rng.integers(len(src)))]) for _ in range(n)]


def jc(v):
    return [[complex(a).real, complex(a).imag] for a in v]


def uc(v):
    return [complex(a[0], a[1]) for a in v]


class Outer(K):
    name = "OuterProduct"
    modelled = True

    def gen(self, rng):
        d = gen_dom(rng, 1, 2, maxsize=8)
        fd = gen_dom(rng, 1, 2, maxsize=6)
        cplx = bool(rng.integers(2))
        return {"dom": d, "fdom": fd, "field": jc(cvals(rng, dsize(fd), cplx)), "cplx": cplx}

    def build(self, ift, c):
        fd = mk_dom(ift, c["fdom"])
        v = np.array(uc(c["field"]))
        if not c["cplx"]:
            v = v.real
        return ift.OuterProduct(mk_dom(ift, c["dom"]), ift.Field.from_raw(fd, v.reshape(fd.shape)))

    def ref(self, c):
        n = dsize(c["dom"])
        f = uc(c["field"])
        M = np.zeros((len(f) * n, n), dtype=complex)
        for a, w in enumerate(f):
            for j in range(n):
                M[a * n + j, j] = w
        return M

    def coq(self, c):
        n = dsize(c["dom"])
        f = uc(c["field"])
        return {"spec": "(%s, %s, X_outer %s %s)" % (cn(2 * len(f) * n), cn(2 * n), cn(n), cl([cqp(w) for w in f])),
                "rform": True,
                "tgt": "(%s ++ %s)" % (cshs(shapes_of(c["fdom"])), cshs(shapes_of(c["dom"])))}


class Vdot(K):
    name = "VdotOperator"
    modelled = True

    def decl(self, c):
        return {"target": []}

    def gen(self, rng):
        d = gen_dom(rng, 1, 3, maxsize=12)
        cplx = bool(rng.integers(2))
        return {"dom": d, "field": jc(cvals(rng, dsize(d), cplx)), "cplx": cplx}

    def build(self, ift, c):
        d = mk_dom(ift, c["dom"])
        v = np.array(uc(c["field"]))
        if not c["cplx"]:
            v = v.real
        return ift.VdotOperator(ift.Field.from_raw(d, v.reshape(d.shape)))

    def ref(self, c):
        return np.conj(np.array(uc(c["field"]))).reshape(1, -1)

    def coq(self, c):
        f = uc(c["field"])
        return {"spec": "(2, %s, X_vdot %s)" % (cn(2 * len(f)), cl([cqp(w) for w in f])), "rform": True, "tgt": "[]"}


class Transpose(K):
    name = "TransposeOperator"
    modelled = True

    def decl(self, c):
        return {"target": [("same", i) for i in c["indices"]]}

    def gen(self, rng):
        d = gen_dom(rng, 1, 4, maxsize=36)
        return {"dom": d, "indices": [int(a) for a in rng.permutation(len(d))]}

    def build(self, ift, c):
        return ift.TransposeOperator(mk_dom(ift, c["dom"]), tuple(c["indices"]))

    def ref(self, c):
        d = c["dom"]
        ax = axes_of(d)
        ish = flat_shape(d)
        axes = [a for ind in c["indices"] for a in ax[ind]]
        osh = [ish[a] for a in axes]
        M = np.zeros((prod(osh), prod(ish)))
        for o in np.ndindex(*osh):
            i = [0] * len(ish)
            for k, a in enumerate(axes):
                i[a] = o[k]
            M[rav(osh, o), rav(ish, i)] = 1
        return M

    def inv_ref(self, c):
        return self.ref(c).T

    def coq(self, c):
        shs = shapes_of(c["dom"])
        s = "(X_transpose %s %s)" % (cshs(shs), cnl(c["indices"]))
        return {"spec": s, "inv": "(btr _ %s)" % s, "tgt": "(tgt_transpose %s %s)" % (cshs(shs), cnl(c["indices"]))}

    def nontrivial(self, c):
        return c["indices"] != sorted(c["indices"])


class Squeeze(K):
    name = "SqueezeOperator"
    modelled = True

    def decl(self, c):
        out = []
        for i, s in enumerate(c["dom"]):
            sh = list(s["shape"])
            if sh == [1]:
                continue
            if c["aggressive"] and 1 in sh:
                keep = [j for j, a in enumerate(sh) if a != 1]
                if s["k"] == "RG":
                    out.append(("RG", [sh[j] for j in keep], [s["dist"][j] for j in keep], s["harm"]))
                else:
                    out.append(("U", [sh[j] for j in keep]))
            else:
                out.append(("same", i))
        return {"target": out}

    def gen(self, rng):
        for _ in range(200):
            d = gen_dom(rng, 1, 4, maxsize=24, maxlen=3)
            for s in d:
                if rng.integers(2):
                    s["shape"][int(rng.integers(len(s["shape"])))] = 1
            aggr = bool(rng.integers(2))
            ok = any(s["shape"] == [1] for s in d) or (aggr and any(1 in s["shape"] for s in d))
            # an RGSpace whose axes all have length 1 cannot be squeezed aggressively (RGSpace(()) is refused)
            bad = aggr and any(s["k"] == "RG" and len(s["shape"]) > 1 and all(a == 1 for a in s["shape"]) for s in d)
            if ok and not bad:
                return {"dom": d, "aggressive": aggr}
        return {"dom": [{"k": "U", "shape": [1]}, rg(rng, 1)], "aggressive": False}

    def build(self, ift, c):
        return ift.SqueezeOperator(mk_dom(ift, c["dom"]), aggressive=c["aggressive"])

    def ref(self, c):
        return np.eye(dsize(c["dom"]))

    def inv_ref(self, c):
        return np.eye(dsize(c["dom"]))

    def coq(self, c):
        shs = shapes_of(c["dom"])
        s = "(X_squeeze %s)" % cshs(shs)
        return {"spec": s, "inv": "(btr _ %s)" % s,
                "tgt": "(tgt_squeeze %s %s %s)" % (cshs(shs), cbl([True] * len(shs)), cb(c["aggressive"]))}


class GeoRemover(K):
    name = "GeometryRemover"
    modelled = True

    def decl(self, c):
        # "space: The index of the subdomain on which the operator should act. If None, it acts on all spaces."
        return {"target": [("U", sp_shape(s)) if (c["space"] is None or c["space"] == i) else ("same", i)
                           for i, s in enumerate(c["dom"])]}

    def gen(self, rng):
        # mostly several sub-domains with structured ones among them, and every way of naming the
        # sub-domain (None, 0, 1, ...) equally often: `space=0` must not behave like `space=None`
        d = gen_dom(rng, 2, 3, kinds=("RG", "RG", "U")) if rng.integers(5) else gen_dom(rng, 1, 1)
        choices = [None] + list(range(len(d)))
        return {"dom": d, "space": choices[int(rng.integers(len(choices)))]}

    def build(self, ift, c):
        return ift.GeometryRemover(mk_dom(ift, c["dom"]), c["space"])

    def ref(self, c):
        return np.eye(dsize(c["dom"]))

    def coq(self, c):
        sp = "None" if c["space"] is None else "(Some %s)" % cn(c["space"])
        return {"spec": "(X_reshape %s)" % cn(dsize(c["dom"])), "tgt": cshs(shapes_of(c["dom"])),
                "unstructured": "(geo_unstructured %s %s)" % (cn(len(c["dom"])), sp)}

    def nontrivial(self, c):
        return dsize(c["dom"]) > 1


class Reshaper(K):
    name = "DomainChangerAndReshaper"
    modelled = True

    def gen(self, rng):
        d = gen_dom(rng, 1, 3, maxsize=24)
        n = dsize(d)
        fs = [a for a in range(1, n + 1) if n % a == 0]
        a = fs[int(rng.integers(len(fs)))]
        t = [{"k": "U", "shape": [a]}, {"k": "RG", "shape": [n // a], "dist": [0.5], "harm": False}]
        if rng.integers(2):
            t = t[::-1]
        if rng.integers(3) == 0:
            t = [{"k": "U", "shape": [a, n // a]}]
        return {"dom": d, "tdom": t}

    def build(self, ift, c):
        return ift.DomainChangerAndReshaper(mk_dom(ift, c["dom"]), mk_dom(ift, c["tdom"]))

    def ref(self, c):
        return np.eye(dsize(c["dom"]))

    def coq(self, c):
        return {"spec": "(X_reshape %s)" % cn(dsize(c["dom"])), "tgt": cshs(shapes_of(c["tdom"]))}

    def nontrivial(self, c):
        return dsize(c["dom"]) > 1


class Extract(K):
    name = "ExtractAtIndices"
    modelled = True

    def decl(self, c):
        return {"target": [("same", i) if i != c["space"] else ("U", [len(c["pix"])]) for i in range(len(c["dom"]))]}

    def gen(self, rng):
        d = gen_dom(rng, 1, 3, maxsize=24)
        k = int(rng.integers(len(d)))
        npix = int(rng.integers(1, 6))
        pix = [[int(rng.integers(a)) for a in d[k]["shape"]] for _ in range(npix)]
        return {"dom": d, "space": k, "pix": pix, "kind": ["list", "tuple", "ndarray"][int(rng.integers(3))]}

    def build(self, ift, c):
        conv = {"list": list, "tuple": tuple, "ndarray": np.array}[c["kind"]]
        nd = len(c["dom"][c["space"]]["shape"])
        inds = tuple(conv([p[a] for p in c["pix"]]) for a in range(nd))
        return ift.ExtractAtIndices(mk_dom(ift, c["dom"]), inds, space=c["space"])

    def ref(self, c):
        d, k = c["dom"], c["space"]
        shs = shapes_of(d)
        a = prod([x for sh in shs[:k] for x in sh])
        n = prod(shs[k])
        p = prod([x for sh in shs[k + 1:] for x in sh])
        L = len(c["pix"])
        M = np.zeros((a * L * p, a * n * p))
        for i1 in range(a):
            for o, px in enumerate(c["pix"]):
                for i3 in range(p):
                    M[(i1 * L + o) * p + i3, (i1 * n + rav(shs[k], px)) * p + i3] = 1
        return M

    def coq(self, c):
        shs = shapes_of(c["dom"])
        pix = cl([cnl(p) for p in c["pix"]])
        return {"spec": "(X_extract %s %s %s)" % (cshs(shs), cn(c["space"]), pix),
                "tgt": "(tgt_extract %s %s %s)" % (cshs(shs), cn(c["space"]), pix)}


class Weight(K):
    name = "WeightApplier"
    modelled = True
    exported = False

    def decl(self, c):
        return {"target": same_all(c["dom"])}

    def gen(self, rng):
        d = gen_dom(rng, 1, 3, kinds=("RG",), maxsize=16)
        return {"dom": d, "spaces": pick_spaces(rng, len(d)), "power": int(rng.integers(-2, 3))}

    def build(self, ift, c):
        from nifty.cl.operators.simple_linear_operators import WeightApplier     # not re-exported by nifty.cl
        return WeightApplier(mk_dom(ift, c["dom"]), c["spaces"], c["power"])

    def w(self, c, sign=1):
        w = 1.0
        for i in spaces_list(c["spaces"], len(c["dom"])):
            w *= dvol(c["dom"][i]) ** (sign * c["power"])
        return w

    def ref(self, c):
        return np.eye(dsize(c["dom"])) * self.w(c)

    def inv_ref(self, c):
        return np.eye(dsize(c["dom"])) * self.w(c, -1)

    def coq(self, c):
        d = c["dom"]
        sp = spaces_list(c["spaces"], len(d))
        sel = cbl([i in sp for i in range(len(d))])
        dv = cl([cq(dvol(s)) for s in d])
        shs = cshs(shapes_of(d))
        return {"spec": "(X_weight %s %s %s %s)" % (shs, sel, dv, cz(c["power"])),
                "inv": "(X_weight %s %s %s %s)" % (shs, sel, dv, cz(-c["power"])), "tgt": shs}

    def nontrivial(self, c):
        return self.w(c) != 1.0


class FFTShift(K):
    name = "FFTShiftOperator"
    modelled = True

    def decl(self, c):
        return {"target": same_all(c["dom"])}

    def gen(self, rng):
        d = gen_dom(rng, 1, 3, maxsize=30, maxlen=5)
        cand = [i for i, s in enumerate(d) if s["k"] == "RG"]
        if not cand:
            d = [rg(rng, None, 5)]
            cand = [0]
        if len(cand) == len(d) and rng.integers(3) == 0:
            sp = None
        else:
            k = int(rng.integers(1, len(cand) + 1))
            sp = sorted(int(a) for a in rng.choice(cand, size=k, replace=False))
            if len(sp) == 1 and rng.integers(2):
                sp = sp[0]
            elif rng.integers(3) == 0:
                sp = [a - len(d) for a in sp]      # negative space indices are accepted
        return {"dom": d, "spaces": sp}

    def build(self, ift, c):
        sp = c["spaces"]
        return ift.FFTShiftOperator(mk_dom(ift, c["dom"]), tuple(sp) if isinstance(sp, list) else sp)

    def sel(self, c):
        n = len(c["dom"])
        sp = c["spaces"]
        sp = list(range(n)) if sp is None else ([sp] if isinstance(sp, int) else sp)
        sp = [a % n for a in sp]
        return [i in sp for i in range(n)]

    def ref(self, c, inverse=False):
        # numpy.fft.fftshift: "Shift the zero-frequency component to the center": out[(i + n//2) % n] = in[i]
        blocks = []
        for s, on in zip(c["dom"], self.sel(c)):
            for n in sp_shape(s):
                B = np.zeros((n, n))
                for i in range(n):
                    if on:
                        if inverse:
                            B[i, (i + n // 2) % n] = 1
                        else:
                            B[(i + n // 2) % n, i] = 1
                    else:
                        B[i, i] = 1
                blocks.append(B)
        return kron_all(blocks)

    def inv_ref(self, c):
        return self.ref(c, True)

    def coq(self, c):
        shs = cshs(shapes_of(c["dom"]))
        sel = cbl(self.sel(c))
        n = dsize(c["dom"])
        # the inverse is compared with the documented ifftshift AND with the transpose of the fftshift spec
        return {"spec": "(X_fftshift %s %s false)" % (shs, sel), "inv": "(X_fftshift %s %s true)" % (shs, sel), "tgt": shs,
                "extra": "meq %d %d (bmat Qc (X_fftshift %s %s true)) (tr Qc (bmat Qc (X_fftshift %s %s false)))" % (n, n, shs, sel, shs, sel)}

    def nontrivial(self, c):
        return any(on and any(a > 1 for a in sp_shape(s)) for s, on in zip(c["dom"], self.sel(c)))


class MatProd(K):
    name = "MatrixProductOperator"
    modelled = True

    def decl(self, c):
        return {"target": same_all(c["dom"])}

    def gen(self, rng):
        d = gen_dom(rng, 1, 3, maxsize=16, maxlen=3)
        n = len(d)
        cplx = bool(rng.integers(2))
        r = int(rng.integers(4))
        flatten, sparse = False, False
        if r == 0:
            spaces, act = None, list(range(n))
            flatten = True
            sparse = bool(rng.integers(6) == 0)
        elif r == 1:
            spaces, act = None, list(range(n))      # spaces=None without flatten: acts on everything
        else:
            k1 = int(rng.integers(n))
            k2 = int(rng.integers(k1 + 1, n + 1))
            act = list(range(k1, k2))
            spaces = act if (len(act) > 1 or rng.integers(2)) else act[0]
            if isinstance(spaces, list) and rng.integers(4) == 0:
                act = [int(a) for a in rng.permutation(act)]     # any order / subset: direct oracle only
                spaces = act
        if isinstance(spaces, int):
            # the constructor iterates over `spaces`: an int is not admissible for len(domain) > 1
            spaces = [spaces]
        shs = shapes_of(d)
        sz = prod([a for i in act for a in shs[i]])
        mat = [jc(cvals(rng, sz, cplx)) for _ in range(sz)]
        return {"dom": d, "spaces": spaces, "flatten": flatten, "sparse": sparse, "cplx": cplx, "matrix": mat}

    def act(self, c):
        return list(range(len(c["dom"]))) if c["spaces"] is None else list(c["spaces"])

    def build(self, ift, c):
        d = mk_dom(ift, c["dom"])
        shs = shapes_of(c["dom"])
        act = self.act(c)
        ash = [a for i in act for a in shs[i]]
        m = np.array([uc(r) for r in c["matrix"]])
        if not c["cplx"]:
            m = m.real
        if c["flatten"]:
            if c["sparse"]:
                import scipy.sparse
                m = scipy.sparse.csr_matrix(m)
        else:
            m = m.reshape(ash + ash)
        sp = None if c["spaces"] is None else tuple(c["spaces"])
        return ift.MatrixProductOperator(d, m, spaces=sp, flatten=c["flatten"])

    def ref(self, c):
        shs = shapes_of(c["dom"])
        ax = axes_of(c["dom"])
        act = self.act(c)
        aax = [a for i in act for a in ax[i]]
        ish = flat_shape(c["dom"])
        ash = [ish[a] for a in aax]
        m = np.array([uc(r) for r in c["matrix"]])
        N = prod(ish)
        M = np.zeros((N, N), dtype=complex)
        for o in np.ndindex(*ish):
            for i in np.ndindex(*ish):
                if all(o[a] == i[a] for a in range(len(ish)) if a not in aax):
                    M[rav(ish, o), rav(ish, i)] = m[rav(ash, [o[a] for a in aax]), rav(ash, [i[a] for a in aax])]
        return M

    def coq(self, c):
        act = self.act(c)
        if act != list(range(act[0], act[0] + len(act))):
            return None
        shs = shapes_of(c["dom"])
        rows = cl([cl([cqp(w) for w in uc(r)]) for r in c["matrix"]])
        n = dsize(c["dom"])
        return {"spec": "(let '(m, n, M) := X_matprod %s %s %s %s in (2 * m, 2 * n, M))" % (cshs(shs), cn(act[0]), cn(act[0] + len(act)), rows),
                "rform": True, "tgt": cshs(shs)}


class Regrid(K):
    name = "RegriddingOperator"
    modelled = True
    # (n_old, n_new) with a dyadic ratio n_old/n_new, so that the float arithmetic of the constructor is exact
    PAIRS = [(2, 1), (2, 2), (3, 2), (3, 3), (4, 1), (4, 2), (4, 4), (5, 4), (6, 3), (6, 4), (7, 4), (8, 4), (8, 2), (5, 5), (6, 6), (3, 1)]

    def decl(self, c):
        k = c["space"]
        s = c["dom"][k]
        nd = [d * n / m for d, n, m in zip(s["dist"], s["shape"], c["new_shape"])]
        return {"target": [("same", i) if i != k else ("RG", c["new_shape"], nd, None) for i in range(len(c["dom"]))]}

    def gen(self, rng):
        for _ in range(100):
            d = gen_dom(rng, 1, 3, maxsize=12, maxlen=3)
            k = int(rng.integers(len(d)))
            nd = int(rng.integers(1, 3))
            pr = [self.PAIRS[int(rng.integers(len(self.PAIRS)))] for _ in range(nd)]
            d[k] = {"k": "RG", "shape": [p[0] for p in pr], "dist": [DISTS[int(rng.integers(len(DISTS)))] for _ in range(nd)], "harm": False}
            if dsize(d) <= 64:
                return {"dom": d, "space": k, "new_shape": [p[1] for p in pr]}
        return {"dom": [{"k": "RG", "shape": [4], "dist": [0.5], "harm": False}], "space": 0, "new_shape": [2]}

    def build(self, ift, c):
        return ift.RegriddingOperator(mk_dom(ift, c["dom"]), tuple(c["new_shape"]), space=c["space"])

    def ref(self, c):
        # linear interpolation of the fine grid at the positions k*newdist of the coarse pixels,
        # newdist = dist*n_old/n_new; the last cell [n_old-2, n_old-1] is used beyond (extrapolation)
        d, k = c["dom"], c["space"]
        blocks = []
        for i, s in enumerate(d):
            if i != k:
                blocks.append(np.eye(prod(sp_shape(s))))
                continue
            for n, m in zip(s["shape"], c["new_shape"]):
                B = np.zeros((m, n))
                for o in range(m):
                    pos = Fraction(o * n, m)
                    b = min(n - 2, int(pos))
                    f = pos - b
                    B[o, b] += float(1 - f)
                    B[o, b + 1] += float(f)
                blocks.append(B)
        return kron_all(blocks)

    def coq(self, c):
        shs = shapes_of(c["dom"])
        ax = cl(["(%s, %s)" % (cn(n), cn(m)) for n, m in zip(c["dom"][c["space"]]["shape"], c["new_shape"])])
        return {"spec": "(X_regrid %s %s %s)" % (cshs(shs), cn(c["space"]), ax),
                "tgt": "(replace_nth %s %s %s)" % (cn(c["space"]), cnl(c["new_shape"]), cshs(shs))}


class Interp(K):
    name = "LinearInterpolator"
    modelled = True

    def decl(self, c):
        return {"target": [("U", [len(c["points"][0])])]}

    def gen(self, rng):
        nd = int(rng.integers(1, 3))
        nsp = 1 if nd == 2 else int(rng.integers(1, 3))
        d = [rg(rng, nd, 4, 1) for _ in range(nsp)]
        while dsize(d) > 30:
            d = d[:1]
        dims = len(flat_shape(d))
        npts = int(rng.integers(1, 5))
        # positions on a dyadic lattice (multiples of 1/8), also outside the box (periodic wrapping)
        pts = [[float(rng.integers(-16, 48)) / 8.0 for _ in range(npts)] for _ in range(dims)]
        return {"dom": d, "points": pts}

    def build(self, ift, c):
        return ift.LinearInterpolator(mk_dom(ift, c["dom"]), np.array(c["points"], dtype=np.float64))

    def ref(self, c):
        d = c["dom"]
        sh = flat_shape(d)
        dist = [a for s in d for a in s["dist"]]
        pts = c["points"]
        npts = len(pts[0])
        M = np.zeros((npts, prod(sh)))
        for o in range(npts):
            lo, ex = [], []
            for a in range(len(sh)):
                pos = Fraction(pts[a][o]) / Fraction(dist[a])
                fl = pos.numerator // pos.denominator
                lo.append(fl)
                ex.append(pos - fl)
            for corner in np.ndindex(*([2] * len(sh))):
                w = Fraction(1)
                idx = []
                for a, cbit in enumerate(corner):
                    w *= ex[a] if cbit else (1 - ex[a])
                    idx.append((lo[a] + cbit) % sh[a])
                M[o, rav(sh, idx)] += float(w)
        return M

    def coq(self, c):
        d = c["dom"]
        sh = flat_shape(d)
        dist = [a for s in d for a in s["dist"]]
        pts = c["points"]
        npts = len(pts[0])
        P = cl([cl(["(%s, %s)" % (cq(pts[a][o]), cq(dist[a])) for a in range(len(sh))]) for o in range(npts)])
        return {"spec": "(X_interp %s %s)" % (cnl(sh), P), "tgt": cshs([[npts]])}


class Realizer(K):
    name = "Realizer"
    modelled = True
    real_linear = True

    def decl(self, c):
        return {"target": same_all(c["dom"])}

    def gen(self, rng):
        return {"dom": gen_dom(rng, 1, 3, maxsize=12)}

    def build(self, ift, c):
        return ift.Realizer(mk_dom(ift, c["dom"]))

    def ref(self, c):
        n = dsize(c["dom"])
        R = np.zeros((2 * n, 2 * n))
        for j in range(n):
            R[2 * j, 2 * j] = 1
        return R

    def coq(self, c):
        n = dsize(c["dom"])
        return {"spec": "(%s, %s, X_realizer %s)" % (cn(2 * n), cn(2 * n), cn(n)), "rform": True, "tgt": cshs(shapes_of(c["dom"]))}


class Imaginizer(Realizer):
    name = "Imaginizer"
    complex_only = {1: True}
    real_only = {2: True}

    def build(self, ift, c):
        return ift.Imaginizer(mk_dom(ift, c["dom"]))

    def ref(self, c):
        n = dsize(c["dom"])
        R = np.zeros((2 * n, 2 * n))
        for j in range(n):
            R[2 * j, 2 * j + 1] = 1
        return R

    def coq(self, c):
        n = dsize(c["dom"])
        return {"spec": "(%s, %s, X_imaginizer %s)" % (cn(2 * n), cn(2 * n), cn(n)), "rform": True, "tgt": cshs(shapes_of(c["dom"]))}


class Conjugation(Realizer):
    name = "ConjugationOperator"

    def build(self, ift, c):
        return ift.ConjugationOperator(mk_dom(ift, c["dom"]))

    def ref(self, c):
        n = dsize(c["dom"])
        return np.diag([1.0, -1.0] * n)

    def inv_ref(self, c):
        return self.ref(c)

    def coq(self, c):
        n = dsize(c["dom"])
        s = "(%s, %s, X_conjugation %s)" % (cn(2 * n), cn(2 * n), cn(n))
        return {"spec": s, "inv": s, "rform": True, "tgt": cshs(shapes_of(c["dom"]))}


# ---- key plumbing on MultiDomains -------------------------------------------------------------
def gen_mdom(rng, nmin=1, nmax=3):
    n = int(rng.integers(nmin, nmax + 1))
    names = ["a", "b", "c", "d"]
    return {names[i]: gen_dom(rng, 1, 2, maxsize=6) for i in range(n)}


def mk_mdom(ift, md):
    return ift.MultiDomain.make({k: mk_dom(ift, d) for k, d in md.items()})


class KeyOp(K):
    modelled = True

    def sizes(self, md):
        return [dsize(md[k]) for k in sorted(md)]

    def sel_ref(self, sizes, keep):
        pos, off = [], 0
        for s, b in zip(sizes, keep):
            if b:
                pos += list(range(off, off + s))
            off += s
        M = np.zeros((len(pos), sum(sizes)))
        for o, j in enumerate(pos):
            M[o, j] = 1
        return M


class FieldAdapterK(KeyOp):
    name = "FieldAdapter"

    def gen(self, rng):
        md = gen_mdom(rng, 1, 3)
        keys = sorted(md)
        return {"mdom": md, "name": keys[int(rng.integers(len(keys)))], "via": ["FieldAdapter_dt", "FieldAdapter_md", "ducktape_l", "ducktape_r"][int(rng.integers(4))]}

    def build(self, ift, c):
        md = mk_mdom(ift, c["mdom"])
        nm = c["name"]
        if c["via"] == "FieldAdapter_dt":      # target DomainTuple: domain = {name: target}
            return ift.FieldAdapter(md[nm], nm)
        if c["via"] == "FieldAdapter_md":      # target = restriction of the MultiDomain to name
            return ift.FieldAdapter(md, nm)
        if c["via"] == "ducktape_l":
            return ift.ducktape(md[nm], md, nm)     # MultiDomain -> DomainTuple (extract)
        return ift.ducktape(md, md[nm], nm)         # DomainTuple -> MultiDomain (insert, zero elsewhere)

    def ref(self, c):
        md = c["mdom"]
        keys = sorted(md)
        n = dsize(md[c["name"]])
        if c["via"] in ("FieldAdapter_dt", "FieldAdapter_md"):
            return np.eye(n)
        keep = [k == c["name"] for k in keys]
        M = self.sel_ref(self.sizes(md), keep)
        return M if c["via"] == "ducktape_l" else M.T

    def coq(self, c):
        md = c["mdom"]
        keys = sorted(md)
        n = dsize(md[c["name"]])
        if c["via"] in ("FieldAdapter_dt", "FieldAdapter_md"):
            return {"spec": "(X_reshape %s)" % cn(n)}
        s = "(X_extract_keys %s %s)" % (cnl(self.sizes(md)), cbl([k == c["name"] for k in keys]))
        return {"spec": s if c["via"] == "ducktape_l" else "(btr _ %s)" % s}

    def nontrivial(self, c):
        return len(c["mdom"]) > 1 and c["via"].startswith("ducktape")


class PartialExtractorK(KeyOp):
    name = "PartialExtractor"

    def gen(self, rng):
        md = gen_mdom(rng, 1, 4)
        keys = sorted(md)
        keep = [bool(rng.integers(2)) for _ in keys]
        if not any(keep):
            keep[int(rng.integers(len(keep)))] = True
        return {"mdom": md, "keep": keep}

    def build(self, ift, c):
        md = mk_mdom(ift, c["mdom"])
        keys = sorted(c["mdom"])
        tgt = ift.MultiDomain.make({k: md[k] for k, b in zip(keys, c["keep"]) if b})
        return ift.PartialExtractor(md, tgt)

    def ref(self, c):
        return self.sel_ref(self.sizes(c["mdom"]), c["keep"])

    def coq(self, c):
        return {"spec": "(X_extract_keys %s %s)" % (cnl(self.sizes(c["mdom"])), cbl(c["keep"]))}

    def nontrivial(self, c):
        return not all(c["keep"])


class PrependKeyK(KeyOp):
    name = "PrependKey"

    def gen(self, rng):
        return {"mdom": gen_mdom(rng, 1, 3), "pre": ["x", "zz_", ""][int(rng.integers(3))]}

    def build(self, ift, c):
        return ift.PrependKey(mk_mdom(ift, c["mdom"]), c["pre"])

    def ref(self, c):
        return np.eye(sum(self.sizes(c["mdom"])))     # prepending keeps the sorted key order

    def coq(self, c):
        return {"spec": "(X_reshape %s)" % cn(sum(self.sizes(c["mdom"])))}


class MF2Vec(KeyOp):
    name = "Multifield2Vector"

    def gen(self, rng):
        return {"mdom": gen_mdom(rng, 1, 3)}

    def build(self, ift, c):
        return ift.Multifield2Vector(mk_mdom(ift, c["mdom"]))

    def ref(self, c):
        return np.eye(sum(self.sizes(c["mdom"])))

    def coq(self, c):
        n = sum(self.sizes(c["mdom"]))
        return {"spec": "(X_reshape %s)" % cn(n), "tgt": cshs([[n]])}


# ---------------------------------------------------------------------------------------------
# classes exercised by the direct oracle only (not modelled in Coq)
# ---------------------------------------------------------------------------------------------
class ScalingO(K):
    name = "ScalingOperator"

    def gen(self, rng):
        return {"dom": gen_dom(rng, 1, 2, maxsize=8), "factor": jc([CVALS[int(rng.integers(len(CVALS) - 1))]])[0]}

    def build(self, ift, c):
        f = complex(*c["factor"])
        return ift.ScalingOperator(mk_dom(ift, c["dom"]), f if f.imag else f.real)

    def ref(self, c):
        return np.eye(dsize(c["dom"])) * complex(*c["factor"])

    def inv_ref(self, c):
        return np.eye(dsize(c["dom"])) / complex(*c["factor"])


class DiagonalO(K):
    name = "DiagonalOperator"

    def gen(self, rng):
        d = gen_dom(rng, 1, 3, maxsize=12)
        sp = None if rng.integers(2) else pick_spaces(rng, len(d), allow_none=False)
        act = spaces_list(sp, len(d))
        n = prod([a for i in act for a in sp_shape(d[i])])
        cplx = bool(rng.integers(2))
        src = [v for v in (CVALS if cplx else RVALS) if v != 0]
        return {"dom": d, "spaces": sp, "diag": jc([src[int(rng.integers(len(src)))] for _ in range(n)]), "cplx": cplx}

    def build(self, ift, c):
        d = mk_dom(ift, c["dom"])
        v = np.array(uc(c["diag"]))
        if not c["cplx"]:
            v = v.real
        if c["spaces"] is None:
            return ift.DiagonalOperator(ift.Field.from_raw(d, v.reshape(d.shape)))
        act = spaces_list(c["spaces"], len(d))
        sub = ift.DomainTuple.make(tuple(d[i] for i in act))
        sp = c["spaces"] if isinstance(c["spaces"], int) else tuple(c["spaces"])
        return ift.DiagonalOperator(ift.Field.from_raw(sub, v.reshape(sub.shape)), domain=d, spaces=sp)

    def dvec(self, c):
        d = c["dom"]
        ish = flat_shape(d)
        act = spaces_list(c["spaces"], len(d))
        ax = axes_of(d)
        aax = [a for i in act for a in ax[i]]
        ash = [ish[a] for a in aax]
        v = uc(c["diag"])
        return np.array([v[rav(ash, [i[a] for a in aax])] for i in np.ndindex(*ish)])

    def ref(self, c):
        return np.diag(self.dvec(c))

    def inv_ref(self, c):
        return np.diag(1.0 / self.dvec(c))


class NullO(K):
    name = "NullOperator"

    def gen(self, rng):
        return {"dom": gen_dom(rng, 1, 2, maxsize=6), "tdom": gen_dom(rng, 1, 2, maxsize=6)}

    def build(self, ift, c):
        return ift.NullOperator(mk_dom(ift, c["dom"]), mk_dom(ift, c["tdom"]))

    def ref(self, c):
        return np.zeros((dsize(c["tdom"]), dsize(c["dom"])))


class EinsumO(K):
    name = "LinearEinsum"
    tol = 1e-12

    def gen(self, rng):
        kind = ["matvec", "outer", "trace_like", "hadamard"][int(rng.integers(4))]
        a, b = int(rng.integers(1, 4)), int(rng.integers(1, 4))
        cplx = bool(rng.integers(2))
        n = {"matvec": a * b, "outer": a, "trace_like": a * b, "hadamard": b}[kind]
        return {"kind": kind, "a": a, "b": b, "cplx": cplx, "vals": jc(cvals(rng, n, cplx))}

    def build(self, ift, c):
        A = ift.UnstructuredDomain(c["a"])
        B = ift.RGSpace(c["b"], distances=0.5)
        v = np.array(uc(c["vals"]))
        if not c["cplx"]:
            v = v.real
        if c["kind"] == "matvec":       # ij,j->i
            mf = ift.MultiField.from_dict({"m": ift.Field.from_raw((A, B), v.reshape(c["a"], c["b"]))})
            return ift.LinearEinsum(ift.DomainTuple.make(B), mf, "ij,j->i")
        if c["kind"] == "outer":        # i,j->ij
            mf = ift.MultiField.from_dict({"m": ift.Field.from_raw(A, v)})
            return ift.LinearEinsum(ift.DomainTuple.make(B), mf, "i,j->ij")
        if c["kind"] == "trace_like":   # ij,ij->j
            mf = ift.MultiField.from_dict({"m": ift.Field.from_raw((A, B), v.reshape(c["a"], c["b"]))})
            return ift.LinearEinsum(ift.DomainTuple.make((A, B)), mf, "ij,ij->j")
        mf = ift.MultiField.from_dict({"m": ift.Field.from_raw(B, v)})
        return ift.LinearEinsum(ift.DomainTuple.make((A, B)), mf, "j,ij->ji")

    def ref(self, c):
        a, b = c["a"], c["b"]
        v = np.array(uc(c["vals"]))
        if c["kind"] == "matvec":
            return v.reshape(a, b)
        if c["kind"] == "outer":
            M = np.zeros((a * b, b), dtype=complex)
            for i in range(a):
                for j in range(b):
                    M[i * b + j, j] = v[i]
            return M
        if c["kind"] == "trace_like":
            M = np.zeros((b, a * b), dtype=complex)
            for i in range(a):
                for j in range(b):
                    M[j, i * b + j] = v[i * b + j]
            return M
        M = np.zeros((a * b, a * b), dtype=complex)
        for i in range(a):
            for j in range(b):
                M[j * a + i, i * b + j] = v[j]
        return M


class HarmonicO(K):
    name = "FFTOperator/HartleyOperator/HarmonicTransformOperator"
    tol = None

    def gen(self, rng):
        d = gen_dom(rng, 1, 2, kinds=("RG", "U"), maxsize=16)
        k = int(rng.integers(len(d)))
        cls = ["FFT", "Hartley", "HT"][int(rng.integers(3))]
        d[k] = rg(rng, None, 4, 1, harm=True if cls == "HT" else bool(rng.integers(2)))
        return {"dom": d, "space": k, "cls": cls}

    def build(self, ift, c):
        d = mk_dom(ift, c["dom"])
        if c["cls"] == "FFT":
            return ift.FFTOperator(d, space=c["space"])
        if c["cls"] == "Hartley":
            return ift.HartleyOperator(d, space=c["space"])
        return ift.HarmonicTransformOperator(d, space=c["space"])


class SHTO(K):
    name = "SHTOperator"
    tol = None

    def gen(self, rng):
        return {"lmax": int(rng.integers(1, 4)), "tgt": ["GL", "HP"][int(rng.integers(2))]}

    def build(self, ift, c):
        lm = ift.LMSpace(c["lmax"])
        tgt = ift.GLSpace(c["lmax"] + 1) if c["tgt"] == "GL" else ift.HPSpace(2)
        return ift.SHTOperator(lm, tgt)


class SmoothO(K):
    name = "HarmonicSmoothingOperator"
    tol = None
    check_inverse = False      # the inverse of a smoothing kernel amplifies rounding errors

    def gen(self, rng):
        return {"dom": [rg(rng, None, 4, 2)], "sigma": [0.0, 0.5, 1.0][int(rng.integers(3))]}

    def build(self, ift, c):
        return ift.HarmonicSmoothingOperator(mk_dom(ift, c["dom"]), c["sigma"])


class FuncConvO(K):
    name = "FuncConvolutionOperator"
    tol = None

    def gen(self, rng):
        return {"dom": [rg(rng, None, 4, 2)], "w": float(rng.integers(1, 4))}

    def build(self, ift, c):
        w = c["w"]
        return ift.FuncConvolutionOperator(mk_dom(ift, c["dom"]), lambda x: np.exp(-(x * w) ** 2))


class SandwichO(K):
    name = "SandwichOperator"
    tol = 1e-12

    def gen(self, rng):
        c = Contraction().gen(rng)
        n = prod([a for sh in shapes_of(c["dom"]) for a in sh])
        return {"bun": c, "cheese": bool(rng.integers(2))}

    def build(self, ift, c):
        bun = Contraction().build(ift, c["bun"])
        ch = None
        if c["cheese"]:
            ch = ift.ScalingOperator(bun.target, 2.0)
        return ift.SandwichOperator.make(bun, ch)

    def ref(self, c):
        B = Contraction().ref(c["bun"])
        return B.T @ B * (2.0 if c["cheese"] else 1.0)


class BlockDiagO(K):
    name = "BlockDiagonalOperator"

    def gen(self, rng):
        md = gen_mdom(rng, 2, 3)
        return {"mdom": md, "fac": {k: [2.0, -1.0, 0.5, 4.0][int(rng.integers(4))] for k in md}, "skip": bool(rng.integers(2))}

    def build(self, ift, c):
        md = mk_mdom(ift, c["mdom"])
        keys = sorted(c["mdom"])
        ops = {k: ift.ScalingOperator(md[k], c["fac"][k]) for k in keys}
        if c["skip"]:
            del ops[keys[0]]        # "Any missing item will be treated as unity operator."
        return ift.BlockDiagonalOperator(md, ops)

    def dg(self, c):
        keys = sorted(c["mdom"])
        out = []
        for i, k in enumerate(keys):
            f = 1.0 if (c["skip"] and i == 0) else c["fac"][k]
            out += [f] * dsize(c["mdom"][k])
        return np.array(out)

    def ref(self, c):
        return np.diag(self.dg(c))

    def inv_ref(self, c):
        return np.diag(1.0 / self.dg(c))


class PartialConjO(K):
    name = "PartialConjugate"
    exported = False
    real_linear = True

    def gen(self, rng):
        md = gen_mdom(rng, 1, 3)
        keys = sorted(md)
        return {"mdom": md, "ck": [k for k in keys if rng.integers(2)]}

    def build(self, ift, c):
        from nifty.cl.operators.partial_conjugate import PartialConjugate
        return PartialConjugate(mk_mdom(ift, c["mdom"]), c["ck"])

    def ref(self, c):
        d = []
        for k in sorted(c["mdom"]):
            d += [1.0, -1.0 if k in c["ck"] else 1.0] * dsize(c["mdom"][k])
        return np.diag(d)


class SlopeRemoverO(K):
    name = "_SlopeRemover"
    exported = False
    tol = None

    def gen(self, rng):
        return {"n": int(rng.integers(5, 9)), "extra": bool(rng.integers(2))}

    def dom(self, ift, c):
        ps = ift.PowerSpace(ift.RGSpace(c["n"], distances=0.5, harmonic=True))
        return (ps, ift.UnstructuredDomain(2)) if c["extra"] else (ps,)

    def build(self, ift, c):
        from nifty.cl.library.correlated_fields import _SlopeRemover
        return _SlopeRemover(self.dom(ift, c), 0)


class TwoLogO(SlopeRemoverO):
    name = "_TwoLogIntegrations"

    def build(self, ift, c):
        from nifty.cl.library.correlated_fields import _TwoLogIntegrations
        return _TwoLogIntegrations(self.dom(ift, c), 0)


class CFDistributorO(K):
    name = "correlated_fields._Distributor"
    exported = False

    def gen(self, rng):
        n = int(rng.integers(1, 4))
        m = int(rng.integers(1, 6))
        return {"n": n, "m": m, "dofdex": [int(a) for a in rng.integers(0, n, size=m)], "k": int(rng.integers(1, 4))}

    def build(self, ift, c):
        from nifty.cl.library.correlated_fields import _Distributor
        dom = ift.DomainTuple.make((ift.UnstructuredDomain(c["n"]), ift.RGSpace(c["k"], distances=0.5)))
        tgt = ift.DomainTuple.make((ift.UnstructuredDomain(c["m"]), ift.RGSpace(c["k"], distances=0.5)))
        return _Distributor(c["dofdex"], dom, tgt)

    def ref(self, c):
        k = c["k"]
        M = np.zeros((c["m"] * k, c["n"] * k))
        for o, j in enumerate(c["dofdex"]):
            for t in range(k):
                M[o * k + t, j * k + t] = 1
        return M


class LowerTriO(K):
    name = "LowerTriangularInserter"
    exported = False

    def gen(self, rng):
        return {"n": int(rng.integers(1, 5))}

    def build(self, ift, c):
        from nifty.cl.library.variational_models import LowerTriangularInserter
        return LowerTriangularInserter(ift.DomainTuple.make((ift.UnstructuredDomain(c["n"]), ift.UnstructuredDomain(c["n"]))))

    def ref(self, c):
        n = c["n"]
        M = np.zeros((n * n, n * (n + 1) // 2))
        k = 0
        for i in range(n):
            for j in range(i + 1):
                M[i * n + j, k] = 1
                k += 1
        return M


class DiagSelO(K):
    name = "DiagonalSelector"
    exported = False

    def gen(self, rng):
        return {"n": int(rng.integers(1, 5))}

    def build(self, ift, c):
        from nifty.cl.library.variational_models import DiagonalSelector
        return DiagonalSelector(ift.DomainTuple.make((ift.UnstructuredDomain(c["n"]), ift.UnstructuredDomain(c["n"]))))

    def ref(self, c):
        n = c["n"]
        M = np.zeros((n, n * n))
        for i in range(n):
            M[i, i * n + i] = 1
        return M


class AdapterO(K):
    """.adjoint / .inverse views and a chain / sum of modelled operators (operator algebra is C01;
    here only the generic residuals on objects built from library leaves)"""
    name = "OperatorAdapter/ChainOperator of library operators"
    tol = 1e-12

    def gen(self, rng):
        return {"t": Transpose().gen(rng), "w": int(rng.integers(-2, 3)), "how": ["adjoint", "inverse", "chain"][int(rng.integers(3))]}

    def build(self, ift, c):
        t = Transpose().build(ift, c["t"])
        if c["how"] == "adjoint":
            return t.adjoint
        if c["how"] == "inverse":
            return t.inverse
        return t @ ift.ScalingOperator(t.domain, 2.0)

    def ref(self, c):
        T = Transpose().ref(c["t"])
        if c["how"] in ("adjoint", "inverse"):
            return T.T
        return 2.0 * T


class FlipScale(K):
    """every operator class in its (lazily) flipped states -- none / .adjoint / .inverse / .adjoint.inverse /
    .inverse.adjoint -- combined with a scalar through c*op, op*c, op.scale(c), op @ ScalingOperator(c),
    ScalingOperator(c) @ op and SandwichOperator.make(ScalingOperator(c), op), against c * flip(M) computed
    densely from the documented matrix M of the base class (construction-time simplification must not
    change the matrix)"""
    name = "flipped operator combined with a scaling"
    tol = 1e-12
    quick_n, thorough_n = 120, 1200
    FLIPS = ["none", "adjoint", "inverse", "adjoint_inverse", "inverse_adjoint"]
    HOWS = ["rmul", "mul", "scale", "matmul_right", "matmul_left", "sandwich", "scale_then_flip"]
    CS = [2.0, -0.5, 4.0, 0.25, -1.0, [0.0, 1.0], [1.0, 1.0], [0.5, -2.0]]

    def bases(self):
        return [DiagonalO(), DiagonalO(), DiagonalO(), ScalingO(), Transpose(), Squeeze(), FFTShift(), Weight(), Contraction(), Mask(),
                Slice(), DOFDist(), Padder(), Outer(), Vdot(), MatProd(), Regrid(), Extract(), DTFI()]

    def gen(self, rng):
        bs = self.bases()
        b = bs[int(rng.integers(len(bs)))]
        cfg = b.gen(rng)
        if b.name == "MatrixProductOperator":
            cfg["sparse"] = False
        c = self.CS[int(rng.integers(len(self.CS)))]
        return {"base": b.name, "cfg": cfg, "flip": self.FLIPS[int(rng.integers(len(self.FLIPS)))],
                "how": self.HOWS[int(rng.integers(len(self.HOWS)))], "c": c}

    def c(self, cfg):
        return complex(*cfg["c"]) if isinstance(cfg["c"], list) else float(cfg["c"])

    def parts(self, cfg):
        b = BY_NAME[cfg["base"]]
        M = np.asarray(b.ref(cfg["cfg"]), dtype=complex)
        Mi = b.inv_ref(cfg["cfg"])
        flip = cfg["flip"]
        if Mi is None and "inverse" in flip:
            flip = "adjoint"                  # the class advertises no inverse
        how = cfg["how"]
        if how == "sandwich" and b.name not in ("DiagonalOperator", "ScalingOperator", "FFTShiftOperator", "WeightApplier",
                                                "MatrixProductOperator"):
            how = "scale"                     # a sandwich needs an endomorphic cheese
        return b, M, (None if Mi is None else np.asarray(Mi, dtype=complex)), flip, how

    def build(self, ift, cfg):
        b, M, Mi, flip, how = self.parts(cfg)
        op = b.build(ift, cfg["cfg"])
        c = self.c(cfg)

        def doflip(o):
            if flip == "adjoint":
                return o.adjoint
            if flip == "inverse":
                return o.inverse
            if flip == "adjoint_inverse":
                return o.adjoint.inverse
            if flip == "inverse_adjoint":
                return o.inverse.adjoint
            return o
        if how == "scale_then_flip":
            return doflip(op.scale(c))
        f = doflip(op)
        if how == "rmul":
            return c * f
        if how == "mul":
            return f * c
        if how == "scale":
            return f.scale(c)
        if how == "matmul_right":
            return f @ ift.ScalingOperator(f.domain, c)
        if how == "matmul_left":
            return ift.ScalingOperator(f.target, c) @ f
        return ift.SandwichOperator.make(ift.ScalingOperator(f.domain, c), f)

    def fl(self, M, Mi, flip):
        if flip == "adjoint":
            return M.conj().T
        if flip == "inverse":
            return Mi
        if flip in ("adjoint_inverse", "inverse_adjoint"):
            return Mi.conj().T
        return M

    def ref(self, cfg):
        b, M, Mi, flip, how = self.parts(cfg)
        c = self.c(cfg)
        if how == "scale_then_flip":
            return self.fl(c * M, None if Mi is None else Mi / c, flip)
        F = self.fl(M, Mi, flip)
        return (abs(c) ** 2) * F if how == "sandwich" else c * F

    def inv_ref(self, cfg):
        b, M, Mi, flip, how = self.parts(cfg)
        if Mi is None:
            return None
        c = self.c(cfg)
        if how == "scale_then_flip":
            return self.fl(Mi / c, c * M, flip)
        Fi = self.fl(Mi, M, flip)
        return Fi / (abs(c) ** 2) if how == "sandwich" else Fi / c

    def nontrivial(self, cfg):
        return cfg["flip"] != "none"


class FlipScaleRL(K):
    """real-linear operators (Realizer, ConjugationOperator, PartialConjugate) chained with COMPLEX
    scalings on either side, plain and flipped: a complex factor does not commute with a real-linear
    operator, so construction-time simplification must leave it where it is.  Reference in the real
    (re/im interleaved) form: R_c R_f for ScalingOperator(c) @ f and c*f, R_f R_c for f @ ScalingOperator(c)."""
    name = "real-linear operator chained with complex scalings"
    real_linear = True
    tol = 1e-12
    quick_n, thorough_n = 40, 400
    CS = [[0.0, 1.0], [1.0, 1.0], [0.5, -2.0], [2.0, 0.0], [-1.0, 0.0], [0.0, -0.5]]

    def gen(self, rng):
        base = ["Realizer", "ConjugationOperator", "ConjugationOperator", "PartialConjugate"][int(rng.integers(4))]
        cfg = BY_NAME[base].gen(rng)
        nsc = int(rng.integers(1, 4))
        # positions: scalings to the left (applied after) and to the right (applied before) of the operator
        left = [self.CS[int(rng.integers(len(self.CS)))] for _ in range(int(rng.integers(0, nsc + 1)))]
        right = [self.CS[int(rng.integers(len(self.CS)))] for _ in range(nsc - len(left))]
        return {"base": base, "cfg": cfg, "left": left, "right": right,
                "flip": ["none", "none", "adjoint", "inverse"][int(rng.integers(4))],
                "how": ["matmul", "scale"][int(rng.integers(2))]}

    def build(self, ift, c):
        f = BY_NAME[c["base"]].build(ift, c["cfg"])
        if c["flip"] == "adjoint":
            f = f.adjoint
        elif c["flip"] == "inverse" and c["base"] != "Realizer":
            f = f.inverse
        op = f

        def num(z_):        # a scalar with zero imaginary part is passed as a float
            return complex(*z_) if z_[1] else float(z_[0])
        for z_ in c["right"]:
            op = op @ ift.ScalingOperator(op.domain, num(z_))
        for z_ in c["left"]:
            zc = num(z_)
            op = op.scale(zc) if c["how"] == "scale" else ift.ScalingOperator(op.target, zc) @ op
        return op

    def ref(self, c):
        Rf = np.asarray(BY_NAME[c["base"]].ref(c["cfg"]), dtype=float)
        if c["flip"] == "adjoint":
            Rf = Rf.T
        elif c["flip"] == "inverse" and c["base"] != "Realizer":
            Rf = np.linalg.inv(Rf)       # conjugations are involutions with entries +-1: exact
        n = Rf.shape[0] // 2
        R = Rf
        for z_ in c["right"]:
            R = R @ rform(complex(*z_) * np.eye(n))
        for z_ in c["left"]:
            R = rform(complex(*z_) * np.eye(n)) @ R
        return R

    def inv_ref(self, c):
        if c["base"] == "Realizer":
            return None
        return np.linalg.inv(self.ref(c))

    def nontrivial(self, c):
        return any(z_[1] != 0 for z_ in c["left"] + c["right"])


class SignedSum(K):
    """signed sums and differences of endomorphic operators on one domain (several DiagonalOperators with
    equal and different sampling dtypes, scalings, a matrix, an FFT shift), built with +, - and unary
    minus in random grouping, against the signed sum of the documented matrices"""
    name = "signed sum of operators"
    tol = 1e-12
    quick_n, thorough_n = 80, 800

    def gen(self, rng):
        d = gen_dom(rng, 1, 2, kinds=("RG",), maxsize=8)
        n = dsize(d)
        nt = int(rng.integers(2, 6))
        terms = []
        for _ in range(nt):
            r = int(rng.integers(8))
            if r <= 4:
                cplx = bool(rng.integers(4) == 0)
                src = [v for v in (CVALS if cplx else RVALS) if v != 0]
                terms.append(["diag", jc([src[int(rng.integers(len(src)))] for _ in range(n)]), cplx,
                              [None, None, "f", "c"][int(rng.integers(4))]])
            elif r == 5:
                terms.append(["scal", jc([CVALS[int(rng.integers(len(CVALS) - 1))]])[0], [None, "f"][int(rng.integers(2))]])
            elif r == 6:
                terms.append(["matrix", [[float(rng.integers(-2, 3)) for _ in range(n)] for _ in range(n)]])
            else:
                terms.append(["fftshift"])
        signs = [bool(rng.integers(2)) for _ in range(nt)]          # True = subtracted
        # grouping: a split point k: (t0 .. tk-1) combined with (tk ..) by + or -; 0 = purely left-associative
        return {"dom": d, "terms": terms, "neg": signs, "split": int(rng.integers(0, nt)), "outer_neg": bool(rng.integers(2)),
                "lead_neg": bool(rng.integers(2))}

    def term(self, ift, d, t):
        dt = {None: None, "f": np.float64, "c": np.complex128}
        if t[0] == "diag":
            v = np.array(uc(t[1]))
            if not t[2]:
                v = v.real
            return ift.DiagonalOperator(ift.Field.from_raw(d, v.reshape(d.shape)), sampling_dtype=dt[t[3]])
        if t[0] == "scal":
            f = complex(*t[1])
            return ift.ScalingOperator(d, f if f.imag else f.real, dt[t[2]])
        if t[0] == "matrix":
            return ift.MatrixProductOperator(d, np.array(t[1], dtype=float), flatten=True)
        return ift.FFTShiftOperator(d)

    def tmat(self, c, t):
        n = dsize(c["dom"])
        if t[0] == "diag":
            return np.diag(np.array(uc(t[1])))
        if t[0] == "scal":
            return complex(*t[1]) * np.eye(n)
        if t[0] == "matrix":
            return np.array(t[1], dtype=complex)
        return np.asarray(FFTShift().ref({"dom": c["dom"], "spaces": None}), dtype=complex)

    def group(self, c):
        """[(indices, signs)] of the one or two groups"""
        nt = len(c["terms"])
        k = c["split"]
        if k == 0:
            return [list(range(nt))]
        return [list(range(k)), list(range(k, nt))]

    def build(self, ift, c):
        d = mk_dom(ift, c["dom"])
        ops = [self.term(ift, d, t) for t in c["terms"]]

        def comb(idx, lead_neg):
            r = -ops[idx[0]] if (c["neg"][idx[0]] and lead_neg) else ops[idx[0]]
            for i in idx[1:]:
                r = (r - ops[i]) if c["neg"][i] else (r + ops[i])
            return r
        gs = self.group(c)
        r = comb(gs[0], c["lead_neg"])
        if len(gs) == 2:
            g2 = comb(gs[1], c["lead_neg"])
            r = (r - g2) if c["outer_neg"] else (r + g2)
        return r

    def ref(self, c):
        mats = [self.tmat(c, t) for t in c["terms"]]

        def comb(idx, lead_neg):
            r = -mats[idx[0]] if (c["neg"][idx[0]] and lead_neg) else mats[idx[0]].copy()
            for i in idx[1:]:
                r = r - mats[i] if c["neg"][i] else r + mats[i]
            return r
        gs = self.group(c)
        r = comb(gs[0], c["lead_neg"])
        if len(gs) == 2:
            g2 = comb(gs[1], c["lead_neg"])
            r = r - g2 if c["outer_neg"] else r + g2
        return r

    def inv_ref(self, c):
        M = self.ref(c)
        if np.linalg.cond(M) > 1e3:
            return None
        return np.linalg.inv(M)

    def nontrivial(self, c):
        return sum(1 for t in c["terms"] if t[0] == "diag") >= 2 and any(c["neg"])


class LOSO(K):
    """LOSResponse (sigmas=None): the line integral of the piecewise constant field along each line of
    sight; pixel i of an axis covers [(i-1/2) d, (i+1/2) d].  Reference: exact clipping of the segment
    against every pixel box (slab method), independent of the traversal code.  Lines that miss the
    volume, end exactly on a face from outside, start inside, or run parallel to an axis are included."""
    name = "LOSResponse"
    tol = 3e-5        # the implementation stores float32 weights and shifts the entry/exit points by 1e-7
    quick_n, thorough_n = 40, 400

    def gen(self, rng):
        nd = int(rng.integers(1, 4))
        shape = [int(rng.integers(1, 4)) for _ in range(nd)]
        dist = [DISTS[int(rng.integers(len(DISTS)))] for _ in range(nd)]
        nlos = int(rng.integers(2, 7))

        def off(lo, hi):          # an off-grid pixel coordinate k/8 + 1/16 in [lo, hi)
            return float(rng.integers(int(lo * 8), int(hi * 8))) / 8.0 + 0.0625
        starts, ends, kinds = [], [], []
        for _ in range(nlos):
            kind = ["through", "inside", "in_out", "miss", "miss", "touch_out", "touch_in", "parallel"][int(rng.integers(8))]
            a = int(rng.integers(nd))
            ps = [off(0, n) for n in shape]
            pe = [off(0, n) for n in shape]
            if kind == "through":
                ps[a], pe[a] = off(-2, 0) - 0.125, off(shape[a], shape[a] + 2) + 0.125
            elif kind == "in_out":
                pe[a] = off(shape[a], shape[a] + 2) + 0.125
            elif kind == "miss":          # both end points beyond the same face
                ps[a], pe[a] = off(-3, -1), off(-2, 0) - 0.125
                if rng.integers(2):
                    ps[a], pe[a] = shape[a] + 0.125 + off(0, 2), shape[a] + 0.125 + off(0, 2)
            elif kind == "touch_out":     # comes from outside and ends exactly on a face: zero length inside
                ps[a], pe[a] = off(-2, 0) - 0.125, 0.0
            elif kind == "touch_in":      # starts exactly on a face and goes in
                ps[a], pe[a] = 0.0, off(0, shape[a])
            elif kind == "parallel":      # parallel to axis a (all other components equal), off-grid
                pe = list(ps)
                ps[a], pe[a] = off(-1, 0) - 0.125, off(shape[a], shape[a] + 1) + 0.125
            if ps == pe:
                pe[a] = pe[a] + 0.5
            starts.append([(p - 0.5) * d for p, d in zip(ps, dist)])
            ends.append([(p - 0.5) * d for p, d in zip(pe, dist)])
            kinds.append(kind)
        return {"shape": shape, "dist": dist, "starts": starts, "ends": ends, "kinds": kinds}

    def build(self, ift, c):
        from nifty.cl.library.los_response import LOSResponse
        dom = ift.RGSpace(tuple(c["shape"]), distances=tuple(c["dist"]))
        return LOSResponse(dom, np.array(c["starts"], dtype=float).T, np.array(c["ends"], dtype=float).T)

    def ref(self, c):
        shape, dist = c["shape"], np.array(c["dist"], dtype=float)
        M = np.zeros((len(c["starts"]), prod(shape)))
        for k, (s, e) in enumerate(zip(c["starts"], c["ends"])):
            ps = np.array(s) / dist + 0.5
            pe = np.array(e) / dist + 0.5
            length = float(np.linalg.norm(np.array(e) - np.array(s)))
            for idx in np.ndindex(*shape):
                t0, t1 = 0.0, 1.0
                for a in range(len(shape)):
                    lo, hi = float(idx[a]), float(idx[a] + 1)
                    d = pe[a] - ps[a]
                    if d == 0.0:
                        if not (lo <= ps[a] < hi):
                            t0, t1 = 1.0, 0.0
                            break
                        continue
                    ta, tb = (lo - ps[a]) / d, (hi - ps[a]) / d
                    if ta > tb:
                        ta, tb = tb, ta
                    t0, t1 = max(t0, ta), min(t1, tb)
                if t1 > t0:
                    M[k, rav(shape, idx)] += (t1 - t0) * length
        return M

    def decl(self, c):
        return {"target": [("U", [len(c["starts"])])]}

    def nontrivial(self, c):
        return any(k.startswith("miss") or k == "touch_out" for k in c["kinds"][:-1])


MODELLED = [Contraction(), DOFDist(), PowerDist(), Padder(), Mask(), Slice(), Split(), ValueIns(), DTFI(), Outer(), Vdot(),
            Transpose(), Squeeze(), GeoRemover(), Reshaper(), Extract(), Weight(), FFTShift(), MatProd(), Regrid(), Interp(),
            Realizer(), Imaginizer(), Conjugation(), FieldAdapterK(), PartialExtractorK(), PrependKeyK(), MF2Vec()]
ORACLE_ONLY = [ScalingO(), DiagonalO(), NullO(), EinsumO(), HarmonicO(), SHTO(), SmoothO(), FuncConvO(), SandwichO(), BlockDiagO(),
               PartialConjO(), SlopeRemoverO(), TwoLogO(), CFDistributorO(), LowerTriO(), DiagSelO(), AdapterO(),
               FlipScale(), LOSO(), FlipScaleRL(), SignedSum()]
ALL = MODELLED + ORACLE_ONLY
BY_NAME = {k.name: k for k in ALL}
