"""C22 -- Classic VI results do not depend on the number of MPI tasks.

Tie: shareRange is re-translated from /repo on every run (tr/c26_gen.py -> coq/C26/Gen_helpers.v);
the hand model coq/C22/Model.v of the index logic of draw_samples (seed per global index, mirrored
pairs, cached draw) and of _compute_local_indices is tied by correspondence: SampledKLEnergy is run
with 1-6 fake tasks (forked processes, rendezvous pipes) and every task's local samples (which draw,
which sign, which neg flag), its number of special_draw_sample calls and its local_indices are
compared with the model inside coqc.  allreduce_sum is the model of C23 (own tie).
Direct oracle: value, gradient, metric application, all samples and sample statistics of
SampledKLEnergy, and the result of small optimize_kl runs (MAP = zero samples, sampled, geoVI,
constants, point estimates) are bit-identical (SHA-256 of the bytes) on every task of every task
count to the single-process run.

PARTIAL with respect to the property text: real MPI cannot be loaded in this sandbox (no libmpi);
the fake communicator implements the documented mpi4py semantics of the calls NIFTy uses, with
synchronous sends."""
import hashlib
import json
import os
import pickle
import shutil
from concurrent.futures import ThreadPoolExecutor

import numpy as np

from .. import common as C
from .. import fakecomm_proc as fp

HEADER = ("From Coq Require Import List ZArith Bool.\nImport ListNotations.\n"
          "Require Import NV.C26.Prelude NV.C26.Gen_helpers NV.C26.Model NV.C22.Model.\nOpen Scope Z_scope.\n")


# --------------------------------------------------------------------------------------------------
# jobs (run inside forked workers)
# --------------------------------------------------------------------------------------------------

def _model(cfg):
    import nifty.cl as ift
    d = ift.RGSpace(3)
    a = ift.ScalingOperator(d, 1.).ducktape('a')
    b = ift.ScalingOperator(d, 1.).ducktape('b')
    model = (a.exp() * b) if cfg["nonlinear"] else (a + 2 * b)
    data = ift.Field.from_raw(d, np.array([0.3, -1.2, 0.8]))
    lh = ift.GaussianEnergy(data, ift.ScalingOperator(d, 3., np.float64)) @ model
    pos = ift.MultiField.from_dict({'a': ift.Field.from_raw(d, np.array([0.1, 0.2, -0.3])),
                                    'b': ift.Field.from_raw(d, np.array([1., -0.5, 0.25]))})
    return lh, pos


def _hb(f):
    """bytes of a Field / MultiField, keys sorted"""
    import nifty.cl as ift
    if isinstance(f, ift.MultiField):
        return b"".join(k.encode() + np.ascontiguousarray(f[k].asnumpy()).tobytes() for k in sorted(f.keys()))
    return np.ascontiguousarray(f.asnumpy()).tobytes()


def kl_job(comm, cfg):
    import warnings
    import nifty.cl as ift
    from nifty.cl.operators.sampling_enabler import SamplingEnabler
    warnings.simplefilter("ignore")
    ift.logger.setLevel("ERROR")
    calls = [0]
    orig = SamplingEnabler.special_draw_sample

    def counted(self, *a, **k):
        calls[0] += 1
        return orig(self, *a, **k)
    SamplingEnabler.special_draw_sample = counted
    lh, pos = _model(cfg)
    ic = ift.AbsDeltaEnergyController(1e-10, iteration_limit=30)
    H = ift.StandardHamiltonian(lh, ic, prior_sampling_dtype=np.float64)
    with ift.random.Context(cfg["seed"]):
        mini = ift.NewtonCG(ift.AbsDeltaEnergyController(1e-8, iteration_limit=3)) if cfg["geo"] else None
        kl = ift.SampledKLEnergy(pos, H, cfg["n_samples"], mini, mirror_samples=cfg["mirror"],
                                 constants=cfg["constants"], point_estimates=cfg["point_estimates"], comm=comm)
    ncalls = calls[0]
    sl = kl.samples
    out = [repr(float(kl.value)).encode(), _hb(kl.gradient), _hb(kl.apply_metric(kl.position * 0 + 1.))]
    out += [_hb(s) for s in sl.iterator()]
    if sl.n_samples > 1:
        m, v = sl.sample_stat()
        out += [_hb(m), _hb(v)]
    out.append(_hb(sl.average()))
    h = hashlib.sha256(b"\0".join(out)).hexdigest()
    local = [[hashlib.sha256(_hb(r)).hexdigest()[:16], bool(n)] for r, n in zip(sl._r, sl._n)]
    return {"hash": h, "n": int(sl.n_samples), "local": local, "ncalls": ncalls,
            "lidx": [int(i) for i in sl.local_indices], "value": float(kl.value)}


def okl_job(comm, cfg):
    import warnings
    import nifty.cl as ift
    warnings.simplefilter("ignore")
    ift.logger.setLevel("ERROR")
    lh, pos = _model(cfg)
    ic = ift.AbsDeltaEnergyController(1e-10, iteration_limit=30)
    sched = cfg["sched"]
    ift.random.push_sseq_from_seed(cfg["seed"])
    mini = ift.NewtonCG(ift.AbsDeltaEnergyController(1e-8, iteration_limit=2))
    nl = ift.NewtonCG(ift.AbsDeltaEnergyController(1e-8, iteration_limit=2)) if cfg["geo"] else None
    outdir = cfg.get("outdir")
    sl, mean = ift.optimize_kl(lh, len(sched), lambda i: sched[i], mini, ic,
                               nonlinear_sampling_minimizer=nl, constants=cfg["constants"],
                               point_estimates=cfg["point_estimates"], initial_position=pos, comm=comm,
                               output_directory=outdir, return_final_position=True,
                               plot_energy_history=False, plot_minisanity_history=False)
    # sample count, every sample, and the average (allreduce_sum over possibly empty leading tasks)
    out = [_hb(mean), b"n=%d" % int(sl.n_samples)] + [_hb(s) for s in sl.iterator()] + [_hb(sl.average())]
    return {"hash": hashlib.sha256(b"\0".join(out)).hexdigest(), "n": int(sl.n_samples)}


def hist_job(comm, cfg):
    """Save / overwrite / load history with DECREASING sample counts under one name: the list of a
    later, shorter save must be exactly what every task count loads back (no stale samples of the
    earlier, longer list), for the residual list of the KL and for a plain list of its samples."""
    import warnings
    import nifty.cl as ift
    warnings.simplefilter("ignore")
    ift.logger.setLevel("ERROR")
    lh, pos = _model(cfg)
    ic = ift.AbsDeltaEnergyController(1e-10, iteration_limit=30)
    H = ift.StandardHamiltonian(lh, ic, prior_sampling_dtype=np.float64)
    base_r = os.path.join(cfg["dir"], "resid")
    base_p = os.path.join(cfg["dir"], "plain")
    out, ns = [], []
    for step, n in enumerate(cfg["counts"]):
        with ift.random.Context(cfg["seed"] + step):
            kl = ift.SampledKLEnergy(pos, H, n, None, mirror_samples=cfg["mirror"], comm=comm)
        sl = kl.samples
        sl.save(base_r, overwrite=True)
        pl = ift.SampleList(list(sl.local_iterator()), comm=comm, domain=sl.domain)
        pl.save(base_p, overwrite=True)
        back_r = ift.ResidualSampleList.load(base_r, comm=comm)
        back_p = ift.SampleList.load(base_p, comm=comm)
        ns.append([int(sl.n_samples), int(back_r.n_samples), int(back_p.n_samples)])
        out += [_hb(s) for s in back_r.iterator()] + [b"|"] + [_hb(s) for s in back_p.iterator()] + [b"#"]
        # what was saved is what comes back
        saved = [_hb(s) for s in sl.iterator()]
        if saved != [_hb(s) for s in back_r.iterator()] or saved != [_hb(s) for s in back_p.iterator()]:
            out.append(b"LOADED-DIFFERS-FROM-SAVED step %d" % step)
    return {"hash": hashlib.sha256(b"\0".join(out)).hexdigest(), "n": ns,
            "roundtrip_ok": not any(o.startswith(b"LOADED-DIFFERS") for o in out)}


def empty_job(comm, cfg):
    """A distributed list whose LEADING tasks hold no sample (as after a MAP iteration, or any uneven
    distribution): n_samples, iterator, average, sample_stat and a save/load round trip must be the
    single-process results bit for bit."""
    import warnings
    import nifty.cl as ift
    warnings.simplefilter("ignore")
    ift.logger.setLevel("ERROR")
    dom = ift.makeDomain({"a": ift.RGSpace(3), "b": ift.UnstructuredDomain(2)})
    rng = np.random.default_rng(cfg["seed"])
    n = cfg["n"]
    flds = [ift.MultiField.from_dict({"a": ift.Field.from_raw(dom["a"], rng.normal(size=3)),
                                      "b": ift.Field.from_raw(dom["b"], rng.normal(size=2))}) for _ in range(n)]
    ntask = 1 if comm is None else comm.Get_size()
    rank = 0 if comm is None else comm.Get_rank()
    # the first `lead` tasks are empty (at most ntask-1), the samples go to the remaining tasks
    lead = min(cfg["lead"], ntask - 1)
    owners = [lead + (i * (ntask - lead)) // n for i in range(n)]
    mine = [f for f, o in zip(flds, owners) if o == rank]
    sl = ift.SampleList(mine, comm=comm, domain=dom)
    out = [b"n=%d" % int(sl.n_samples)] + [_hb(s) for s in sl.iterator()] + [_hb(sl.average())]
    if sl.n_samples > 1:
        m, v = sl.sample_stat()
        out += [_hb(m), _hb(v)]
    op = ift.ScalingOperator(dom, 1.) ** 2
    out.append(_hb(sl.average(op)))
    base = os.path.join(cfg["dir"], "lst")
    sl.save(base, overwrite=True)
    back = ift.SampleList.load(base, comm=comm)
    out += [b"loaded n=%d" % int(back.n_samples)] + [_hb(s) for s in back.iterator()] + [_hb(back.average())]
    return {"hash": hashlib.sha256(b"\0".join(out)).hexdigest(), "n": int(sl.n_samples)}


def err_job(comm, cfg):
    """Error path under MPI: a save with overwrite=False into a directory that already holds ONE of
    the target files fails on the task that owns this file only; it must fail on ALL tasks, with the
    exception class of the single-process run (ensure_all_tasks_succeed)."""
    import pickle as _pickle
    import warnings
    import nifty.cl as ift
    warnings.simplefilter("ignore")
    ift.logger.setLevel("ERROR")
    lh, pos = _model(cfg)
    ic = ift.AbsDeltaEnergyController(1e-10, iteration_limit=30)
    H = ift.StandardHamiltonian(lh, ic, prior_sampling_dtype=np.float64)
    with ift.random.Context(cfg["seed"]):
        kl = ift.SampledKLEnergy(pos, H, cfg["n_samples"], None, mirror_samples=True, comm=comm)
    sl = kl.samples
    if cfg["list"] == "plain":
        sl = ift.SampleList(list(sl.local_iterator()), comm=comm, domain=sl.domain)
    base = os.path.join(cfg["dir"], "lst")
    rank = 0 if comm is None else comm.Get_rank()
    if rank == 0:
        with open("%s.%s.pickle" % (base, cfg["stale"]), "wb") as f:
            _pickle.dump(pos, f)
    if comm is not None:
        comm.Barrier()
    try:
        sl.save(base, overwrite=False)
        outcome = "returned"
    except Exception as e:  # noqa
        outcome = type(e).__name__
    return {"hash": outcome, "n": int(sl.n_samples), "outcome": outcome}


JOBS = {"kl": kl_job, "okl": okl_job, "hist": hist_job, "err": err_job, "empty": empty_job}


def run_cfg(kind, cfg, ntask, timeout):
    c = dict(cfg)
    if c.get("outdir"):
        c["outdir"] = os.path.join(c["outdir"], "nt%d" % ntask)
    if kind in ("hist", "err", "empty"):
        c["dir"] = os.path.join(c["dir"], "%s%d_%s_nt%d" % (kind, c["seed"], c.get("stale", c.get("lead", "")), ntask))
        shutil.rmtree(c["dir"], ignore_errors=True)
        os.makedirs(c["dir"])
    res = fp.run(ntask, JOBS[kind], c, timeout=timeout)
    if kind in ("hist", "err", "empty"):
        shutil.rmtree(c["dir"], ignore_errors=True)
    return [{"status": st, "val": (v if st == "ok" else str(v)[-400:])} for st, v in res]


# --------------------------------------------------------------------------------------------------

def kl_configs(rng, quick):
    base = [
        {"n_samples": 2, "mirror": True, "geo": False, "nonlinear": True, "constants": [], "point_estimates": []},
        {"n_samples": 3, "mirror": False, "geo": False, "nonlinear": False, "constants": ["a"], "point_estimates": ["b"]},
        {"n_samples": 1, "mirror": True, "geo": True, "nonlinear": True, "constants": [], "point_estimates": []},
    ]
    if not quick:
        base += [
            {"n_samples": 3, "mirror": True, "geo": False, "nonlinear": True, "constants": [], "point_estimates": ["b"]},
            {"n_samples": 4, "mirror": True, "geo": True, "nonlinear": True, "constants": ["a"], "point_estimates": ["a"]},
            {"n_samples": 5, "mirror": False, "geo": True, "nonlinear": True, "constants": [], "point_estimates": []},
            {"n_samples": 1, "mirror": False, "geo": False, "nonlinear": False, "constants": [], "point_estimates": []},
            {"n_samples": 6, "mirror": True, "geo": False, "nonlinear": False, "constants": ["b"], "point_estimates": ["a"]},
        ]
    for c in base:
        c["seed"] = int(rng.integers(1, 10 ** 6))
    return base


def okl_configs(rng, quick):
    base = [
        {"sched": [0, 2], "geo": False, "nonlinear": True, "constants": [], "point_estimates": []},       # MAP, then MGVI
    ]
    if not quick:
        base += [
            {"sched": [1, 2], "geo": True, "nonlinear": True, "constants": ["a"], "point_estimates": []},     # geoVI
            {"sched": [0, 0], "geo": False, "nonlinear": True, "constants": [], "point_estimates": []},   # MAP only
            {"sched": [2, 0, 3], "geo": False, "nonlinear": False, "constants": [], "point_estimates": ["b"]},
            {"sched": [2, 2], "geo": False, "nonlinear": True, "constants": [], "point_estimates": [], "outdir": "OUT"},
        ]
    for c in base:
        c["seed"] = int(rng.integers(1, 10 ** 6))
    return base


def ids_from_single(single_local, mirror, geo):
    """hash of a residual -> (number of the draw, mirrored member?) from the single-process list"""
    m = {}
    for i, (h, neg) in enumerate(single_local):
        k, sgn = (i // 2, i % 2 == 1) if mirror else (i, False)
        if geo:
            m.setdefault(h, (k, sgn))
        else:
            m.setdefault(h, (k, None))      # the sign is the stored flag
    return m


class C22(C.Check):
    prop = "C22"
    coq_dir = "C22"
    level = "proof"
    trusted_base = [
        "Coq 8.16.1 kernel (coqc, vm_compute for the correspondence evaluation); theorems closed under the global context",
        "tr/c26_pyfun.py + tr/c26_gen.py: translation of shareRange (fail closed, regenerated every run)",
        "hand-written model coq/C22/Model.v of the index logic of draw_samples and _compute_local_indices (tied by correspondence)",
        "coq/C23 model and theorems of allreduce_sum (own check C23)",
        "harness/fakecomm_proc.py: forked processes + pipes with rendezvous sends standing in for MPI (no libmpi in the sandbox) -- the MPI-reality part of the property is NOT covered",
        "special_draw_sample executed under random.Context(seed) is a deterministic function of the seed and of quantities that are equal on all tasks (checked by the bit-identity oracle, not proved)",
    ]
    assumptions = [
        "all tasks call the collectives in the same order with the same arguments (sseq, position, Hamiltonian); NIFTy checks this at run time with check_MPI_equality",
        "floating-point addition on every task is the same IEEE operation (same binary, same BLAS/threads settings)",
        "synchronous (rendezvous) point-to-point sends",
    ]

    def __init__(self):
        self.runs = []

    def translate(self, ctx):
        from tr import c26_gen
        C.write_if_changed(os.path.join(C.COQ, "C26", "Gen_helpers.v"), c26_gen.generate(ctx.repo))

    def _execute(self, ctx):
        rng = ctx.rng(22)
        quick = ctx.quick
        work = os.path.join(ctx.run_dir(), "okl_p%d" % os.getpid())
        shutil.rmtree(work, ignore_errors=True)
        plan = []
        stored = [(c["kind"], c["cfg"]) for c in ctx.corpus() if "cfg" in c]
        for kind, cfg in stored:
            nts = [1, 2, 3]
            plan += [(kind, cfg, nt) for nt in nts]
        # quick: per configuration the task counts that matter most -- a range that starts on the
        # mirrored member of a pair (4 entries over 3 tasks), an uneven split, more tasks than samples
        quick_nts = [[1, 3], [1, 2], [1, 5]]
        for ci, cfg in enumerate(kl_configs(rng, quick)):
            nts = quick_nts[ci % 3] if quick else ([1, 2, 3, 5, 6] if ci % 2 == 0 else [1, 2, 4, 6])
            plan += [("kl", cfg, nt) for nt in nts]
        for cfg in okl_configs(rng, quick):
            if cfg.get("outdir"):
                cfg["outdir"] = work
            nts = ([1, 2, 3] if 0 in cfg["sched"] else [1, 3]) if quick else [1, 2, 3, 4]
            plan += [("okl", cfg, nt) for nt in nts]
        hist_cfgs = [{"counts": [3, 1], "mirror": True, "nonlinear": False}]
        if not quick:
            hist_cfgs += [{"counts": [4, 2, 1], "mirror": False, "nonlinear": True}, {"counts": [2, 3, 1], "mirror": True, "nonlinear": True}]
        for cfg in hist_cfgs:
            cfg["seed"] = int(rng.integers(1, 10 ** 6))
            cfg["dir"] = os.path.join(ctx.run_dir(), "hist_p%d" % os.getpid())
            plan += [("hist", cfg, nt) for nt in ([1, 2, 3] if quick else [1, 2, 3, 4])]
        # error paths: the stale file belongs to the master (0), to another task (2, 3), or is the mean file
        err_cfgs = [{"stale": "2", "list": "resid"}, {"stale": "mean", "list": "resid"}]
        if not quick:
            err_cfgs += [{"stale": "0", "list": "resid"}, {"stale": "3", "list": "plain"}, {"stale": "1", "list": "plain"}]
        for cfg in err_cfgs:
            cfg.update({"n_samples": 2, "nonlinear": False, "seed": int(rng.integers(1, 10 ** 6)),
                        "dir": os.path.join(ctx.run_dir(), "hist_p%d" % os.getpid())})
            plan += [("err", cfg, nt) for nt in ([1, 2] if quick else [1, 2, 3, 4])]
        # lists whose leading task(s) are empty
        empty_cfgs = [{"n": 3, "lead": 1}] if quick else [{"n": 3, "lead": 1}, {"n": 1, "lead": 2}, {"n": 4, "lead": 2}, {"n": 2, "lead": 3}]
        for cfg in empty_cfgs:
            cfg.update({"seed": int(rng.integers(1, 10 ** 6)), "dir": os.path.join(ctx.run_dir(), "hist_p%d" % os.getpid())})
            plan += [("empty", cfg, nt) for nt in ([1, 2, 3] if quick else [1, 2, 3, 4])]
        timeout = 400 if quick else 900

        def one(item):
            kind, cfg, nt = item
            return {"kind": kind, "cfg": cfg, "ntask": nt, "res": run_cfg(kind, cfg, nt, timeout)}
        import time
        t0 = time.time()
        with ThreadPoolExecutor(max_workers=2) as ex:
            self.runs = list(ex.map(one, plan))
        self.t_runs = round(time.time() - t0, 1)
        shutil.rmtree(work, ignore_errors=True)
        shutil.rmtree(os.path.join(ctx.run_dir(), "hist_p%d" % os.getpid()), ignore_errors=True)

    def correspondence(self, ctx, res):
        from nifty.cl.utilities import shareRange
        self._execute(ctx)
        checks, where = [], []
        # translated shareRange, directly
        for nwork in range(0, 10):
            for nshares in range(1, 8):
                for my in range(nshares):
                    lo, hi = shareRange(nwork, nshares, my)
                    checks.append("sharerange_ok %s %s %s %s %s" % tuple(C.cz(x) for x in (nwork, nshares, my, lo, hi)))
                    where.append(("shareRange", nwork, nshares, my))
        nsr = len(checks)
        # distribution of the samples over the tasks
        singles = {}
        for r in self.runs:
            if r["kind"] == "kl" and r["ntask"] == 1 and r["res"][0]["status"] == "ok":
                singles[json.dumps(r["cfg"], sort_keys=True)] = r["res"][0]["val"]
        ntasks_seen = {}
        for r in self.runs:
            if r["kind"] != "kl":
                continue
            cfg = r["cfg"]
            single = singles.get(json.dumps(cfg, sort_keys=True))
            if single is None:
                continue
            idm = ids_from_single(single["local"], cfg["mirror"], cfg["geo"])
            for rank, rr in enumerate(r["res"]):
                if rr["status"] != "ok":
                    checks.append("false")
                    where.append(("draw_samples", cfg, r["ntask"], rank, rr["val"]))
                    continue
                v = rr["val"]
                obs = []
                for h, neg in v["local"]:
                    k, sgn = idm.get(h, (-1, False))
                    if sgn is None:
                        sgn = neg
                    obs.append("(%s, %s, %s)" % (C.cz(k), C.cbool(sgn), C.cbool(neg)))
                checks.append("task_obs_ok %s %s %s %s %s %s %s %s" % (
                    C.cnat(cfg["n_samples"]), C.cbool(cfg["mirror"]), C.cbool(cfg["geo"]), C.cz(r["ntask"]), C.cz(rank),
                    C.clist(obs), C.cz(v["ncalls"]), C.clist([C.cz(i) for i in v["lidx"]])))
                where.append(("draw_samples", cfg, r["ntask"], rank, v["local"]))
                ntasks_seen[(cfg["n_samples"], cfg["mirror"], cfg["geo"], r["ntask"])] = 1
        bad = C.eval_cases(self.prop, "corr_p%d" % os.getpid(), HEADER, checks)
        for i in bad[:4]:
            res.add_broken("correspondence", "%s vs coq/C22 model" % where[i][0], {"where": [str(x) for x in where[i]], "check": checks[i][:1200]})
        res.coverage.update({
            "evaluations": len(checks),
            "distinct_nontrivial": len([k for k in ntasks_seen if k[3] > 1]),
            "rule": "one check per (KL configuration, task count, rank): local samples (draw number, mirrored member, neg flag), number of special_draw_sample calls, local_indices against the model; non-trivial = more than one task; distinct by (n_samples, mirror, geometric, ntask).  Plus %d shareRange cases (nwork 0-9, nshares 1-7, incl. nshares > nwork)" % nsr,
            "samples": [{"cfg": r["cfg"], "ntask": r["ntask"], "local": [x["val"].get("local") if x["status"] == "ok" else x["val"] for x in r["res"]]}
                        for r in self.runs if r["kind"] == "kl" and r["ntask"] == 3][:2],
            "input_distribution": {"forked_runs": len(self.runs), "kl_runs": sum(1 for r in self.runs if r["kind"] == "kl"),
                                   "optimize_kl_runs": sum(1 for r in self.runs if r["kind"] == "okl"),
                                   "history_runs": sum(1 for r in self.runs if r["kind"] == "hist"),
                                   "error_path_runs": sum(1 for r in self.runs if r["kind"] == "err"),
                                   "empty_leading_task_runs": sum(1 for r in self.runs if r["kind"] == "empty"),
                                   "task_counts": sorted({r["ntask"] for r in self.runs})},
            "disagreements": len(bad), "exhaustive": False, "seconds_in_forked_runs": self.t_runs,
            "partial": "real MPI is not available (no libmpi): a process-based fake communicator with mpi4py semantics is used",
        })
        return bad

    def _judge(self, runs):
        """Bit-identity with the single-process run; returns list of (signature, what, input)."""
        out = []
        ref = {}
        for r in runs:
            if r["ntask"] == 1:
                ref[(r["kind"], json.dumps(r["cfg"], sort_keys=True))] = r["res"][0]
        for r in runs:
            cfg = r["cfg"]
            if r["kind"] == "err":
                sig = {"fn": "sample list save error path", "mode": "failure on a strict subset of tasks"}
                one = ref.get((r["kind"], json.dumps(cfg, sort_keys=True)))
                outs = [x["val"]["outcome"] if x["status"] == "ok" else "blocked/raised outside" for x in r["res"]]
                want = one["val"]["outcome"] if one and one["status"] == "ok" else None
                if want is not None and any(o != want for o in outs):
                    out.append((sig, "%s list save(overwrite=False) with stale file %s on %d tasks: outcomes per task %r, single process: %s -- a failure on some tasks must surface on all tasks with the same exception class" % (
                        cfg["list"], cfg["stale"], r["ntask"], outs, want), {"kind": r["kind"], "cfg": cfg, "ntask": r["ntask"]}))
                continue
            if r["kind"] == "empty":
                sig = {"fn": "distributed SampleList", "mode": "empty leading tasks"}
            elif r["kind"] == "hist":
                sig = {"fn": "sample list save/overwrite/load history", "mode": "decreasing counts"}
            else:
                mode = "MAP" if (r["kind"] == "okl" and 0 in cfg["sched"]) else ("geoVI" if cfg["geo"] else "MGVI")
                sig = {"fn": "SampledKLEnergy" if r["kind"] == "kl" else "optimize_kl", "mode": mode}
            inp = {"kind": r["kind"], "cfg": cfg, "ntask": r["ntask"]}
            one = ref.get((r["kind"], json.dumps(cfg, sort_keys=True)))
            bad = [x for x in r["res"] if x["status"] != "ok"]
            if bad:
                out.append((sig, "%s with %d task(s) raised or blocked: %s" % (sig["fn"], r["ntask"], bad[0]["val"][-300:].replace("\n", " | ")), inp))
                continue
            if r["kind"] == "hist" and not all(x["val"]["roundtrip_ok"] for x in r["res"]):
                out.append((sig, "history %r with %d task(s): the list loaded after a save differs from the list saved (sample counts saved/loaded residual/loaded plain per step: %r)" % (
                    cfg["counts"], r["ntask"], r["res"][0]["val"]["n"]), inp))
                continue
            if one is None or one["status"] != "ok":
                continue
            hs = {x["val"]["hash"] for x in r["res"]}
            if hs != {one["val"]["hash"]}:
                out.append((sig, "%s results with %d tasks differ from the single-process run (%d distinct hashes over the tasks; n_samples %s vs %s)" % (
                    sig["fn"], r["ntask"], len(hs), [x["val"]["n"] for x in r["res"]][:1], one["val"]["n"]), inp))
        return out

    def oracle(self, ctx, res, hints, budget):
        seen = set()
        for sig, what, inp in self._judge(self.runs):
            key = json.dumps(sig, sort_keys=True)
            if key in seen:
                continue
            seen.add(key)
            res.add_failing(sig, what, inp)
        res.coverage["impl_property_evaluations"] = len(self.runs)

    def replay(self, ctx, rp):
        i = rp["input"]
        cfg = dict(i["cfg"])
        if cfg.get("outdir"):
            cfg["outdir"] = os.path.join(ctx.run_dir(), "replay_okl_p%d" % os.getpid())
            shutil.rmtree(cfg["outdir"], ignore_errors=True)
        if i["kind"] in ("hist", "err", "empty"):
            cfg["dir"] = os.path.join(ctx.run_dir(), "replay_hist_p%d" % os.getpid())
        runs = [{"kind": i["kind"], "cfg": cfg, "ntask": nt, "res": run_cfg(i["kind"], cfg, nt, 600)} for nt in sorted({1, i["ntask"]})]
        return bool(self._judge(runs))


CHECK = C22()
