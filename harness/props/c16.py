"""C16 -- Classic descent minimisers are monotone and their line search is sound.

Tie: hand model coq/C16/Model.v + correspondence.
 (i)  LineSearch.perform_line_search/_zoom: EXACT-FLOAT.  1-D energies at start point 0 with a search
      direction +-2^k, so that position/direction IS the step length bit for bit.  Every evaluation
      (alpha, phi, phi') of the real run is logged, the results of _cubicmin/_quadmin are recorded
      through a subclass, and the model (PrimFloat instance) replays the same oracles inside coqc:
      same evaluations in the same order, same returned step length, same verdict / exception.
 (ii) DescentMinimizer.__call__: real minimisers (SteepestDescent, L_BFGS, VL_BFGS, NewtonCG,
      RelaxedNewton, scripted line searchers) with recording line searcher and controller; the model
      replays the observed line-search results / controller verdicts and must return the same energy
      object, status and list of accepted energies.
Direct oracle (no Coq): strong Wolfe conditions evaluated on the point returned with success=True;
monotonicity of the accepted energies and the (energy, status) contract of the minimiser loop;
L_BFGS direction == VL_BFGS direction == dense two-loop reference on generated histories."""
import json
import math

import numpy as np

from .. import common as C

HEADER = ("From Coq Require Import List Bool PrimFloat ZArith. Import ListNotations.\n"
          "Require Import NV.C16.Model NV.C16.ModelRing.\n")


# --------------------------------------------------------------------------------------------------
# 1-D test energies with exact step-length recovery
# --------------------------------------------------------------------------------------------------

def poly_eval(coef, x):
    """Horner, plain Python floats (deterministic IEEE)."""
    v = 0.0
    for c in reversed(coef):
        v = v * x + c
    return v


def poly_der(coef):
    return [i * c for i, c in enumerate(coef)][1:] or [0.0]


def make_energy_class(spec, log):
    """Energy on a 1-pixel domain.  E(x) = poly(x) (+ optional pathologies); start 0, direction d=+-2^k.
    log entries: (kind, alpha) with kind in val/grad/atfail, alpha = x/d (exact)."""
    import nifty.cl as ift
    dom = ift.DomainTuple.make(ift.UnstructuredDomain((1,)))
    coef = [float(c) for c in spec["coef"]]
    dcoef = poly_der(coef)
    d = float(spec["d"])
    fpe_at = spec.get("fpe_at")      # alpha > fpe_at : energy.at raises FloatingPointError
    fpe_val = spec.get("fpe_val")    # alpha > fpe_val: .value raises FloatingPointError
    nan_above = spec.get("nan_above")  # alpha > nan_above: value is NaN
    huge_above = spec.get("huge_above")  # alpha > huge_above: value is 1e200
    longest = spec.get("longest")
    table = {}

    class E1(ift.Energy):
        def __init__(self, position):
            super().__init__(position)
            self._x = float(position.asnumpy()[0])
            self._alpha = self._x / d

        def at(self, position):
            x = float(position.asnumpy()[0])
            a = x / d
            if fpe_at is not None and a > fpe_at:
                log.append(("atfail", a))
                table.setdefault(a, ["atfail", float("nan")])
                raise FloatingPointError("at")
            return E1(position)

        def _entry(self):
            a = self._alpha
            if a not in table:
                if fpe_val is not None and a > fpe_val:
                    v = "valfail"
                elif nan_above is not None and a > nan_above:
                    v = float("nan")
                elif huge_above is not None and a > huge_above:
                    v = 1e200
                else:
                    v = poly_eval(coef, self._x)
                g = poly_eval(dcoef, self._x)
                table[a] = [v, g * d]
            return table[a]

        @property
        def value(self):
            log.append(("val", self._alpha))
            v = self._entry()[0]
            if v == "valfail":
                raise FloatingPointError("value")
            return v

        @property
        def gradient(self):
            log.append(("grad", self._alpha))
            g = self._entry()[1] / d
            return ift.Field.from_raw(dom, np.array([g]))

        def longest_step(self, direction):
            return longest

    E1.dom = dom
    E1.table = table
    return E1


def run_ls_case(spec):
    """Run the real LineSearch on the 1-D energy of `spec`; return the observation dict."""
    import nifty.cl as ift
    from nifty.cl.minimization.line_search import LineSearch

    log = []
    E1 = make_energy_class(spec, log)
    rec = {"cub": [], "quad": []}

    class RecLS(LineSearch):
        def _cubicmin(self, *a):
            r = super()._cubicmin(*a)
            rec["cub"].append(None if r is None else float(r))
            return r

        def _quadmin(self, *a):
            r = super()._quadmin(*a)
            # zoom iteration index = number of _cubicmin calls so far (cubic precedes quad for i>0)
            rec["quad"].append((len(rec["cub"]), None if r is None else float(r)))
            return r

    p = spec["params"]
    ls = RecLS(preferred_initial_step_size=p["pref"], c1=p["c1"], c2=p["c2"],
               max_step_size=p["max_step"], max_iterations=p["max_it"],
               max_zoom_iterations=p["max_zoom"])
    d = float(spec["d"])
    e0 = E1(ift.Field.from_raw(E1.dom, np.array([0.0])))
    pk = ift.Field.from_raw(E1.dom, np.array([d]))
    out = {"spec": spec}
    try:
        en, ok = ls.perform_line_search(e0, pk, spec.get("fkm1"))
        out["result"] = ("ret", float(en.position.asnumpy()[0]) / d, bool(ok))
    except ValueError as ex:
        if "inconsistent data" not in str(ex):
            raise
        out["result"] = ("raise", "ExcValueError")
    except FloatingPointError:
        out["result"] = ("raise", "ExcFPE")
    except UnboundLocalError:
        out["result"] = ("raise", "ExcUnbound")
    out["log"] = list(log)
    out["table"] = {k: list(v) for k, v in E1.table.items()}
    out["cub"] = rec["cub"]
    out["quad"] = rec["quad"]
    out["phi0"], out["dphi0"] = E1.table[0.0]
    return out


def wolfe_failure(o):
    """Strong Wolfe conditions on the returned point, straight from the energy's own numbers.
    None if fine / not applicable."""
    r = o["result"]
    sp = o["spec"]
    if r[0] != "ret" or not r[2]:
        return None
    alpha = r[1]
    ent = o["table"].get(alpha)
    c1, c2 = sp["params"]["c1"], sp["params"]["c2"]
    phi0, dphi0 = o["phi0"], o["dphi0"]
    if ent is None or isinstance(ent[0], str):
        return "success reported at a step length that was never evaluated (alpha=%r)" % alpha
    v, dv = ent
    if isinstance(phi0, float) and math.isnan(phi0):
        return None   # outside the property's domain (energy value undefined at the start)
    if not (dphi0 < 0):
        return "success reported although the direction is not a descent direction (phi'(0)=%r)" % dphi0
    if not (v <= phi0 + c1 * alpha * dphi0):
        return "sufficient decrease violated: phi(%r)=%r > phi(0)+c1*alpha*phi'(0)=%r" % (alpha, v, phi0 + c1 * alpha * dphi0)
    if not (abs(dv) <= -c2 * dphi0):
        return "strong curvature condition violated: |phi'(%r)|=%r > -c2*phi'(0)=%r" % (alpha, abs(dv), -c2 * dphi0)
    return None


# ---- Coq terms -----------------------------------------------------------------------------------

def cf(x):
    return C.cfloat(float(x))


def coq_lsres(r):
    if r[0] == "ret":
        return "(Ret %s %s)" % (cf(r[1]), C.cbool(r[2]))
    return "(Raise %s)" % r[1]


EV = {"val": "EvVal", "grad": "EvGrad", "atfail": "EvAtFail"}


def coq_ls_case(o):
    sp = o["spec"]
    p = sp["params"]
    P = "(Build_ls_params %s %s %s %s %d %d)" % (C.copt(p["pref"], cf), cf(p["c1"]), cf(p["c2"]),
                                                  cf(p["max_step"]), p["max_it"], p["max_zoom"])
    tab = []
    for a, (v, dv) in o["table"].items():
        lv = "LFpeAt" if v == "atfail" else "LFpeVal" if v == "valfail" else "(LVal %s)" % cf(v)
        tab.append("(%s, %s, %s)" % (cf(a), lv, cf(dv)))
    ncub = len(o["cub"])
    cubs = ["None"] + [C.copt(x, cf) for x in o["cub"]]          # index i >= 1
    qd = dict(o["quad"])
    nq = max(list(qd) + [ncub]) + 1
    quads = [C.copt(qd.get(i), cf) for i in range(nq)]
    tr = ["(%s %s)" % (EV[k], cf(a)) for k, a in o["log"]]
    longest = sp.get("longest")
    return "ls_case %s %s %s %s %s %s %s %s %s %s %s" % (
        P, C.clist(tab), C.clist(cubs), C.clist(quads), cf(o["phi0"]), cf(o["dphi0"]),
        C.copt(longest, cf), C.copt(sp.get("fkm1"), cf), cf(abs(float(sp["d"]))),
        coq_lsres(o["result"]), C.clist(tr))


# --------------------------------------------------------------------------------------------------
# n-D test energies and recorded minimiser runs
# --------------------------------------------------------------------------------------------------

def make_nd_energy(spec):
    """E(x) = 1/2 x^T A x - b^T x + sum_i q_i x_i^4 + sum_i t_i x_i^3  (t != 0: non-convex).
    Returns (energy at spec['x0'], domain)."""
    import nifty.cl as ift
    n = len(spec["b"])
    dom = ift.DomainTuple.make(ift.UnstructuredDomain((n,)))
    A = np.array(spec["A"], dtype=np.float64)
    b = np.array(spec["b"], dtype=np.float64)
    q = np.array(spec["q"], dtype=np.float64)
    t = np.array(spec["t"], dtype=np.float64)

    class DenseOp(ift.EndomorphicOperator):
        def __init__(self, M):
            self._M = M
            self._domain = dom
            self._capability = self.TIMES | self.ADJOINT_TIMES

        def apply(self, x, mode):
            self._check_input(x, mode)
            M = self._M if mode == self.TIMES else self._M.T
            return ift.Field.from_raw(dom, M @ x.asnumpy())

    class END(ift.Energy):
        def __init__(self, position):
            super().__init__(position)
            x = position.asnumpy()
            self._v = float(0.5 * x @ (A @ x) - b @ x + np.sum(q * x**4) + np.sum(t * x**3))
            self._g = A @ x - b + 4 * q * x**3 + 3 * t * x**2

        @property
        def value(self):
            return self._v

        @property
        def gradient(self):
            return ift.Field.from_raw(dom, self._g.copy())

        @property
        def metric(self):
            x = self._position.asnumpy()
            H = A + np.diag(12 * q * x**2 + 6 * t * x)
            ic = ift.GradientNormController(tol_abs_gradnorm=1e-12, iteration_limit=4 * n + 10)
            return ift.InversionEnabler(DenseOp(H), ic)

        def apply_metric(self, v):
            return self.metric(v)

    e0 = END(ift.Field.from_raw(dom, np.array(spec["x0"], dtype=np.float64)))
    return e0, dom


class _Script:
    """Line searcher that plays a script instead of searching (the `line_searcher` argument of
    DescentMinimizer is any object with perform_line_search): each entry decides what is returned."""

    def __init__(self, script, rng_seed):
        self.script = list(script)
        self.k = 0
        self.rng = np.random.Generator(np.random.PCG64([17, rng_seed]))

    def perform_line_search(self, energy, pk, f_k_minus_1=None):
        import nifty.cl as ift
        act = self.script[min(self.k, len(self.script) - 1)]
        self.k += 1
        if act == "same_object":
            return energy, False
        if act == "same_value":       # a different object at the same position
            return energy.at(energy.position), True
        if act == "down":             # a real, successful search
            from nifty.cl.minimization.line_search import LineSearch
            return LineSearch().perform_line_search(energy, pk, f_k_minus_1)
        if act == "up":               # a point with a larger energy
            for s in (1.0, 10.0, 100.0, 1e3, 1e6):
                e = energy.at(energy.position - s * pk)
                if e.value > energy.value:
                    return e, True
            return energy, False
        if act == "nan":
            bad = energy.at(energy.position + 0.5 * pk)
            bad._v = float("nan")
            return bad, True
        raise AssertionError(act)


def make_minimizer(kind, ctrl, ls, mh):
    import nifty.cl as ift
    if kind == "SteepestDescent":
        return ift.SteepestDescent(ctrl, ls) if ls is not None else ift.SteepestDescent(ctrl)
    if kind == "L_BFGS":
        return ift.L_BFGS(ctrl, ls, max_history_length=mh) if ls is not None else ift.L_BFGS(ctrl, max_history_length=mh)
    if kind == "VL_BFGS":
        return ift.VL_BFGS(ctrl, ls, max_history_length=mh) if ls is not None else ift.VL_BFGS(ctrl, max_history_length=mh)
    if kind == "NewtonCG":
        return ift.NewtonCG(ctrl, line_searcher=ls)
    if kind == "RelaxedNewton":
        return ift.RelaxedNewton(ctrl, line_searcher=ls)
    raise AssertionError(kind)


def make_controller(c):
    import nifty.cl as ift
    k = c["kind"]
    if k == "gradnorm":
        return ift.GradientNormController(tol_abs_gradnorm=c["tol"], tol_rel_gradnorm=c.get("tol_rel"),
                                          iteration_limit=c["limit"], convergence_level=c.get("level", 1))
    if k == "deltaE":
        return ift.DeltaEnergyController(tol_rel_deltaE=c["tol"], iteration_limit=c["limit"],
                                         convergence_level=c.get("level", 1))
    if k == "absdeltaE":
        return ift.AbsDeltaEnergyController(deltaE=c["tol"], iteration_limit=c["limit"],
                                            convergence_level=c.get("level", 1))
    if k == "script":
        class SC(ift.IterationController):
            def __init__(self):
                super().__init__()
                self.k = 0

            def start(self, energy):
                return c["start"]

            def check(self, energy):
                s = c["checks"][min(self.k, len(c["checks"]) - 1)]
                self.k += 1
                return s
        return SC()
    raise AssertionError(k)


def run_dm_case(spec):
    """Run a real descent minimiser with recording line searcher and controller."""
    import nifty.cl as ift
    from nifty.cl.minimization.line_search import LineSearch
    e0, dom = make_nd_energy(spec)
    objs = [e0]

    def idx(e):
        for i, o in enumerate(objs):
            if o is e:
                return i
        objs.append(e)
        return len(objs) - 1

    rec = {"ls": [], "start": None, "checks": [], "acc": [0], "wolfe": []}
    p = spec.get("ls_params")
    if spec.get("script"):
        inner_ls = _Script(spec["script"], spec.get("seed", 0))
    elif p is not None:
        inner_ls = LineSearch(preferred_initial_step_size=p["pref"], c1=p["c1"], c2=p["c2"],
                              max_step_size=p["max_step"], max_iterations=p["max_it"],
                              max_zoom_iterations=p["max_zoom"])
    else:
        inner_ls = None

    class RecLS:
        def __init__(self, inner):
            self.inner = inner

        def perform_line_search(self, energy, pk, f_k_minus_1=None):
            ne, ok = self.inner.perform_line_search(energy, pk, f_k_minus_1)
            rec["ls"].append((idx(energy), None if f_k_minus_1 is None else float(f_k_minus_1), idx(ne), bool(ok)))
            if isinstance(self.inner, LineSearch):
                rec["wolfe"].append(wolfe_nd(self.inner, energy, pk, ne, bool(ok)))
            return ne, ok

    inner_c = make_controller(spec["ctrl"])

    class RecC(ift.IterationController):
        def __init__(self):
            super().__init__()

        def start(self, energy):
            s = inner_c.start(energy)
            rec["start"] = int(s)
            return s

        def check(self, energy):
            s = inner_c.check(energy)
            rec["checks"].append(int(s))
            rec["acc"].append(idx(energy))
            return s

    kind = spec["minimizer"]
    # the library's default line searchers are used when no parameters are given
    if inner_ls is None:
        m0 = make_minimizer(kind, RecC(), None, spec.get("mh", 5))
        inner_ls = m0.line_searcher
    mini = make_minimizer(kind, RecC(), RecLS(inner_ls), spec.get("mh", 5))
    out = {"spec": spec}
    import warnings
    try:
        with warnings.catch_warnings():
            warnings.simplefilter("ignore")      # 0/0 in VL_BFGS after a scripted zero step
            en, st = mini(e0)
        out["result"] = (idx(en), int(st))
    except (ValueError, ZeroDivisionError) as ex:
        # NewtonCG: "Cannot find descent direction"; zoom: "inconsistent data"; 0/0 in a BFGS direction
        # after a scripted degenerate step.  The run has no result; it is not replayed in the model
        # (counted in the evidence), the direct oracle still looks at what was recorded.
        out["result"] = None
        out["exception"] = "%s: %s" % (type(ex).__name__, str(ex)[:80])
    out["values"] = [float(o.value) for o in objs]
    out["gz"] = [bool(o.gradient_norm == 0) for o in objs]
    out.update(rec)
    return out


class _DMSession:
    """One minimiser object (with the controller it holds) used for several runs.  Same recording as
    run_dm_case, plus every descent direction with the point it was computed at."""

    def __init__(self, spec):
        import nifty.cl as ift
        from nifty.cl.minimization.line_search import LineSearch
        self.spec = spec
        self.rec = None
        self.objs = None
        ses = self
        p = spec.get("ls_params")
        inner_ls = None if p is None else LineSearch(
            preferred_initial_step_size=p["pref"], c1=p["c1"], c2=p["c2"], max_step_size=p["max_step"],
            max_iterations=p["max_it"], max_zoom_iterations=p["max_zoom"])

        class RecLS:
            def __init__(self, inner):
                self.inner = inner

            def perform_line_search(self, energy, pk, f_k_minus_1=None):
                ne, ok = self.inner.perform_line_search(energy, pk, f_k_minus_1)
                ses.rec["ls"].append((ses.idx(energy), None if f_k_minus_1 is None else float(f_k_minus_1),
                                      ses.idx(ne), bool(ok)))
                ses.rec["wolfe"].append(wolfe_nd(self.inner, energy, pk, ne, bool(ok)))
                return ne, ok

        inner_c = make_controller(spec["ctrl"])

        class RecC(ift.IterationController):
            def start(self, energy):
                s = inner_c.start(energy)
                ses.rec["start"] = int(s)
                return s

            def check(self, energy):
                s = inner_c.check(energy)
                ses.rec["checks"].append(int(s))
                ses.rec["acc"].append(ses.idx(energy))
                return s

        kind = spec["minimizer"]
        if inner_ls is None:
            inner_ls = make_minimizer(kind, RecC(), None, spec.get("mh", 5)).line_searcher
        self.mini = make_minimizer(kind, RecC(), RecLS(inner_ls), spec.get("mh", 5))
        orig = self.mini.get_descent_direction

        def wrapped(energy, old_value=None):
            pk = orig(energy, old_value)
            ses.rec["dirs"].append((energy.position.asnumpy().copy(), energy.gradient.asnumpy().copy(),
                                    pk.asnumpy().copy(), len(ses.rec["ls"])))
            return pk
        self.mini.get_descent_direction = wrapped

    def idx(self, e):
        for i, o in enumerate(self.objs):
            if o is e:
                return i
        self.objs.append(e)
        return len(self.objs) - 1

    def run(self, espec):
        import warnings
        e0, dom = make_nd_energy(espec)
        self.objs = [e0]
        self.rec = {"ls": [], "start": None, "checks": [], "acc": [0], "wolfe": [], "dirs": []}
        sp = dict(self.spec)
        sp.update(espec)
        out = {"spec": sp}
        try:
            with warnings.catch_warnings():
                warnings.simplefilter("ignore")
                en, st = self.mini(e0)
            out["result"] = (self.idx(en), int(st))
        except (ValueError, ZeroDivisionError) as ex:
            out["result"] = None
            out["exception"] = "%s: %s" % (type(ex).__name__, str(ex)[:80])
        out["values"] = [float(o.value) for o in self.objs]
        out["gz"] = [bool(o.gradient_norm == 0) for o in self.objs]
        out.update(self.rec)
        return out


def run_reuse_case(spec):
    """spec = minimiser configuration + 'runs': list of energy specs.  ONE minimiser object performs all
    runs; every run is repeated on a freshly constructed object for comparison."""
    ses = _DMSession(spec)
    reused = [ses.run(e) for e in spec["runs"]]
    fresh = [_DMSession(spec).run(e) for e in spec["runs"]]
    out = {"spec": spec, "reused": reused, "fresh": fresh}
    twin = {"L_BFGS": "VL_BFGS", "VL_BFGS": "L_BFGS"}.get(spec["minimizer"])
    if twin:
        ts = _DMSession(dict(spec, minimizer=twin))
        out["twin"] = [ts.run(e) for e in spec["runs"]]
    return out


def epoch_windows(o, mh):
    """For every direction call of one run: the pairs a minimiser in its INITIAL state would hold --
    the history since the start of this run or since the last failed line search (which resets)."""
    out = []
    hist = []
    for (x, g, pk, nls) in o["dirs"]:
        if nls > 0 and not o["ls"][nls - 1][3]:
            hist = []                          # the previous line search failed: self.reset()
        hist.append((x, g))
        k = len(hist) - 1
        m = min(k, mh)
        pts = hist[len(hist) - 1 - m:]
        S = [(pts[i + 1][0] - pts[i][0]).tolist() for i in range(m)]
        Y = [(pts[i + 1][1] - pts[i][1]).tolist() for i in range(m)]
        out.append({"m": m, "S": S, "Y": Y, "g": g.tolist(), "p": pk.tolist()})
    return out


REUSE_DIR_TOL = 1e-6   # relative; a stale history changes the direction by O(1), rounding by ~1e-13


def reuse_failure(o):
    """A call of a minimiser is a function of (energy, configuration) only: the run on the re-used
    object equals the run on a fresh object, and the first direction of a run that starts from an empty
    history is -gradient (L_BFGS, VL_BFGS, SteepestDescent)."""
    kind = o["spec"]["minimizer"]
    for r, (a, b) in enumerate(zip(o["reused"], o["fresh"])):
        f = dm_failure(a)
        if f:
            return "run %d on a re-used %s: %s" % (r, kind, f)
        if kind in ("L_BFGS", "VL_BFGS", "SteepestDescent") and a["dirs"]:
            x, g, pk, _ = a["dirs"][0]
            if not np.allclose(pk, -g, rtol=1e-12, atol=0.0):
                return "run %d: first direction of a re-used %s is not -gradient (relative deviation %.3g)" % (
                    r, kind, float(np.linalg.norm(pk + g) / (np.linalg.norm(g) + 1e-300)))
        if kind in ("L_BFGS", "VL_BFGS", "SteepestDescent"):
            # a line search that reports failure makes the loop call self.reset(): the next direction
            # starts from an empty history again
            for (x, g, pk, nls) in a["dirs"]:
                if nls > 0 and not a["ls"][nls - 1][3] and not np.allclose(pk, -g, rtol=1e-12, atol=0.0):
                    return "run %d: direction of %s after a reset (failed line search) is not -gradient (relative deviation %.3g)" % (
                        r, kind, float(np.linalg.norm(pk + g) / (np.linalg.norm(g) + 1e-300)))
        if o.get("twin"):
            # the two L-BFGS variants, same energy, same configuration: same direction at every
            # iteration for as long as the two trajectories coincide
            t = o["twin"][r]
            for (x, g, pk, _), (x2, g2, pk2, _) in zip(a["dirs"], t["dirs"]):
                sc = np.linalg.norm(x) + np.linalg.norm(x2) + 1e-300
                if np.linalg.norm(x - x2) > 1e-9 * sc or not (np.all(np.isfinite(pk)) and np.all(np.isfinite(pk2))):
                    break
                dev = float(np.linalg.norm(pk - pk2) / (np.linalg.norm(pk) + np.linalg.norm(pk2) + 1e-300))
                if dev > 1e-6:
                    return "run %d: L_BFGS and VL_BFGS directions differ by %.3g (relative) at the same point with the same history" % (r, dev)
        same = (a["result"] == b["result"] and a["values"] == b["values"] and a["ls"] == b["ls"]
                and a["acc"] == b["acc"] and a["start"] == b["start"] and a["checks"] == b["checks"]
                and len(a["dirs"]) == len(b["dirs"])
                and all(np.array_equal(u[2], v[2]) for u, v in zip(a["dirs"], b["dirs"])))
        if not same and not any(math.isnan(v) for v in a["values"] + b["values"]):
            return "run %d of a re-used %s object differs from the same run on a fresh object (state leaks between minimisations)" % (r, kind)
    return None


def wolfe_nd(ls, energy, pk, ne, ok):
    """Wolfe conditions of one real line-search call inside a minimiser run (None = fine / n.a.)."""
    if not ok:
        return None
    phi0 = float(energy.value)
    dphi0 = float(energy.gradient.s_vdot(pk).real)
    v = float(ne.value)
    dv = float(ne.gradient.s_vdot(pk).real)
    pp = float(pk.s_vdot(pk).real)
    alpha = float((ne.position - energy.position).s_vdot(pk).real) / pp
    if any(math.isnan(z) for z in (phi0, dphi0, v, dv, alpha)):
        return None
    if not (dphi0 < 0):
        return "success although phi'(0)=%r is not negative" % dphi0
    rhs = phi0 + ls.c1 * alpha * dphi0
    tol = 1e-9 * abs(ls.c1 * alpha * dphi0) + 1e-12 * abs(phi0) + 1e-300
    if v > rhs + tol:
        return "sufficient decrease violated: phi(alpha)=%r > %r (alpha=%r)" % (v, rhs, alpha)
    if abs(dv) > -ls.c2 * dphi0:
        return "strong curvature condition violated: |phi'(alpha)|=%r > %r (alpha=%r)" % (abs(dv), -ls.c2 * dphi0, alpha)
    return None


def dm_failure(o):
    """The property on one recorded minimiser run, straight on the observations."""
    vals = o["values"]
    for w in o["wolfe"]:
        if w:
            return "line search inside %s: %s" % (o["spec"]["minimizer"], w)
    acc = o["acc"]
    for a, b in zip(acc, acc[1:]):
        if math.isnan(vals[a]) or math.isnan(vals[b]):
            continue
        if not (vals[b] <= vals[a]):
            return "accepted energy increased: %r -> %r" % (vals[a], vals[b])
    if o["result"] is None:
        return None
    e, st = o["result"]
    if st not in (0, 2):
        return "minimiser returned status %r (neither CONVERGED nor ERROR)" % st
    last = acc[-1]
    if not math.isnan(vals[e]) and not math.isnan(vals[last]) and vals[e] > vals[last]:
        return "returned energy %r is above the last accepted energy %r" % (vals[e], vals[last])
    for (ein, f, eout, ok) in o["ls"]:
        if vals[eout] > vals[ein]:
            # an increase must end the run there, with the previous energy and ERROR
            if (ein, f, eout, ok) != tuple(o["ls"][-1]) or o["result"] != (ein, 2):
                return "energy increase %r -> %r was not answered by (previous energy, ERROR)" % (vals[ein], vals[eout])
    return None


ST = {0: "CONVERGED", 1: "CONTINUE", 2: "ERROR"}


def coq_dm_case(o):
    ls = ["(%d, %s, %d, %s)" % (a, C.copt(f, cf), b, C.cbool(ok)) for a, f, b, ok in o["ls"]]
    want = "None" if o["result"] is None else "(Some (%d, %s))" % (o["result"][0], ST[o["result"][1]])
    return "dm_case %s %s %s %s %s %d %s %s" % (
        C.clist([cf(v) for v in o["values"]]), C.clist([C.cbool(g) for g in o["gz"]]), C.clist(ls),
        ST[o["start"]], C.clist([ST[s] for s in o["checks"]]), len(o["ls"]) + 2, want,
        C.clist([str(a) for a in o["acc"]]))


# --------------------------------------------------------------------------------------------------
# L-BFGS vs VL-BFGS directions
# --------------------------------------------------------------------------------------------------

def two_loop_reference(xs, gs, mh):
    """Textbook two-loop recursion (Nocedal & Wright alg. 7.4) on the last min(k, mh) pairs."""
    k = len(xs) - 1
    S = [xs[i + 1] - xs[i] for i in range(k)][-mh:] if k > 0 else []
    Y = [gs[i + 1] - gs[i] for i in range(k)][-mh:] if k > 0 else []
    qv = -gs[-1].copy()
    al = []
    for s, y in zip(reversed(S), reversed(Y)):
        a = (s @ qv) / (s @ y)
        al.append(a)
        qv = qv - a * y
    if S:
        qv = qv * ((S[-1] @ Y[-1]) / (Y[-1] @ Y[-1]))
    for (s, y), a in zip(zip(S, Y), reversed(al)):
        be = (y @ qv) / (s @ y)
        qv = qv + (a - be) * s
    return qv


def run_bfgs_case(spec, record=False):
    """Feed the same (position, gradient) history to L_BFGS and VL_BFGS; max relative deviations."""
    import nifty.cl as ift
    n, mh = spec["n"], spec["mh"]
    rng = np.random.Generator(np.random.PCG64([23, spec["seed"]]))
    dom = ift.DomainTuple.make(ift.UnstructuredDomain((n,)))
    U = np.linalg.qr(rng.normal(size=(n, n)))[0]
    A = U @ np.diag(np.exp(rng.uniform(0, np.log(spec["cond"]), size=n))) @ U.T
    q = rng.uniform(0, 0.3, size=n) if spec.get("quartic") else np.zeros(n)

    def grad(x):
        return A @ x + 4 * q * x**3

    class FE:
        def __init__(self, x):
            self.position = ift.Field.from_raw(dom, x)
            self.gradient = ift.Field.from_raw(dom, grad(x))

    ic = ift.GradientNormController(iteration_limit=1)
    L = ift.L_BFGS(ic, max_history_length=mh)
    L.reset()
    V = ift.VL_BFGS(ic, max_history_length=mh)
    V._information_store = None
    xs, gs = [], []
    x = rng.normal(size=n)
    worst = {"lv": 0.0, "lref": 0.0, "step": -1}
    recs = []
    for step in range(spec["steps"]):
        xs.append(x.copy())
        gs.append(grad(x))
        e = FE(x.copy())
        pl = L.get_descent_direction(e).asnumpy()
        pv = V.get_descent_direction(e).asnumpy()
        pr = two_loop_reference(xs, gs, mh)
        sc = np.linalg.norm(pr) + 1e-300
        dlv = float(np.linalg.norm(pl - pv) / sc)
        dlr = float(np.linalg.norm(pl - pr) / sc)
        if max(dlv, dlr) > max(worst["lv"], worst["lref"]):
            worst = {"lv": dlv, "lref": dlr, "step": step}
        if record:
            st = V._information_store
            m = st.history_length
            b = [v.asnumpy().tolist() for v in st.b]          # the implementation's own window read-out
            recs.append({"m": m, "mh": mh, "k": step, "S": b[:m], "Y": b[m:2 * m], "g": b[2 * m],
                         "bdb": np.array(st.b_dot_b).tolist(), "delta": [float(t) for t in st.delta],
                         "pL": pl.tolist(), "pV": pv.tolist(), "scale": float(sc)})
        x = x + rng.uniform(0.05, 1.0) * pr / (1.0 + np.linalg.norm(pr)) + 0.05 * rng.normal(size=n)
    worst["recs"] = recs
    return worst


def coq_delta_case(r):
    return "delta_case %d %s %s" % (r["m"], C.clist([cf(v) for row in r["bdb"] for v in row]),
                                    C.clist([cf(v) for v in r["delta"]]))


def coq_dirs_term(r):
    fl = lambda v: C.clist([cf(t) for t in v])
    return "bfgs_dirs %d %s %s %s" % (len(r["g"]), C.clist([fl(v) for v in r["S"]]),
                                      C.clist([fl(v) for v in r["Y"]]), fl(r["g"]))


def parse_float_lists(txt):
    """'= ([a%float; (-b)%float], [...]) : ...' -> list of lists of Python floats."""
    import re
    out = []
    for body in re.findall(r"\[([^\[\]]*)\]", txt):
        vals = []
        for tok in body.split(";"):
            tok = tok.strip().replace("%float", "").strip("() ")
            if not tok:
                continue
            tok = {"infinity": "inf", "neg_infinity": "-inf"}.get(tok, tok)
            vals.append(float(tok))
        out.append(vals)
    return out


DIR_TOL = 1e-9     # relative to the norm of the reference direction; observed ~1e-15


# --------------------------------------------------------------------------------------------------
# Case generation
# --------------------------------------------------------------------------------------------------

def gen_ls_spec(rng):
    deg = int(rng.choice([2, 3, 4, 4, 5, 6, 6]))
    scale = float(10.0 ** rng.integers(-2, 3))
    coef = [float(np.round(rng.normal() * scale, 3)) for _ in range(deg + 1)]
    if deg % 2 == 0 and rng.random() < 0.9:
        coef[-1] = abs(coef[-1]) + 0.01 * scale                           # mostly bounded below
    d = float(2.0 ** rng.integers(-4, 5))
    u = rng.random()
    if u < 0.85:
        # descent direction: sign(d) = -sign(E'(0))
        if coef[1] == 0.0:
            coef[1] = 0.5
        d = -math.copysign(d, coef[1])
    elif u < 0.92:
        coef[1] = 0.0                                  # zero slope
    else:
        d = math.copysign(d, coef[1] if coef[1] != 0 else 1.0)   # ascent direction
    p = {
        "pref": [None, None, 1.0, 0.01, 10.0, 250.0][int(rng.integers(0, 6))],
        "c1": [1e-4, 1e-4, 0.1, 0.3, 0.5][int(rng.integers(0, 5))],
        "c2": [0.9, 0.9, 0.5, 0.1, 0.01, 1e-4][int(rng.integers(0, 6))],
        "max_step": [1e30, 1e30, 1e30, 1e30, 1e30, 1e30, 3.0, 0.5, 64.0][int(rng.integers(0, 9))],
        "max_it": ([100] * 10 + [0, 1, 2, 4])[int(rng.integers(0, 14))],
        "max_zoom": ([100] * 10 + [0, 1, 2, 5])[int(rng.integers(0, 14))],
    }
    spec = {"coef": coef, "d": d, "params": p}
    if rng.random() < 0.4:
        spec["fkm1"] = float(coef[0] + rng.choice([1.0, 0.1, 1e-3, -0.2, 30.0]) * scale)
    if rng.random() < 0.15:
        spec["longest"] = float(rng.choice([0.3, 2.0, 17.0, 1e40]))
    u = rng.random()
    thr = float(rng.choice([0.05, 0.3, 0.8, 1.7, 6.0]))
    if u < 0.08:
        spec["fpe_at"] = thr
    elif u < 0.14:
        spec["fpe_val"] = thr
    elif u < 0.22:
        spec["nan_above"] = thr
    elif u < 0.28:
        spec["huge_above"] = thr
    return spec


def gen_nd_base(rng, convex):
    n = int(rng.integers(1, 7))
    M = rng.normal(size=(n, n))
    A = M @ M.T + np.eye(n) * float(rng.choice([0.05, 1.0]))
    return {"A": A.tolist(), "b": rng.normal(size=n).tolist(),
            "q": rng.uniform(0.05, 1.0, size=n).tolist(),
            "t": [0.0] * n if convex else (2.0 * rng.normal(size=n)).tolist(),
            "x0": (float(rng.choice([0.3, 3.0, 30.0])) * rng.normal(size=n)).tolist()}


SCRIPTS = [["up"], ["down", "up"], ["down", "down", "same_value"], ["same_object"], ["same_value"],
           ["down", "nan", "down", "up"], ["down", "same_object"], ["down", "down", "down", "up"],
           ["nan", "same_value"], ["down"]]


def gen_dm_spec(rng, i):
    kinds = ["SteepestDescent", "L_BFGS", "VL_BFGS", "NewtonCG", "RelaxedNewton"]
    kind = kinds[i % 5]
    convex = kind in ("NewtonCG", "RelaxedNewton") or rng.random() < 0.5
    s = gen_nd_base(rng, convex)
    s["minimizer"] = kind
    s["mh"] = int(rng.integers(1, 6))
    s["seed"] = int(rng.integers(0, 1 << 30))
    u = rng.random()
    lim = int(rng.integers(1, 25))
    if u < 0.45:
        s["ctrl"] = {"kind": "gradnorm", "tol": float(10.0 ** rng.integers(-9, -1)), "limit": lim,
                     "level": int(rng.integers(1, 3))}
    elif u < 0.6:
        s["ctrl"] = {"kind": "deltaE", "tol": float(10.0 ** rng.integers(-10, -2)), "limit": lim}
    elif u < 0.75:
        s["ctrl"] = {"kind": "absdeltaE", "tol": float(10.0 ** rng.integers(-10, -2)), "limit": lim}
    else:
        nchk = int(rng.integers(1, 8))
        s["ctrl"] = {"kind": "script", "start": int(rng.choice([1, 1, 1, 1, 0, 2])),
                     "checks": [1] * (nchk - 1) + [int(rng.choice([0, 2]))]}
    v = rng.random()
    if v < 0.3 and kind in ("SteepestDescent", "L_BFGS", "VL_BFGS"):
        s["script"] = SCRIPTS[int(rng.integers(0, len(SCRIPTS)))]
    elif v < 0.6:
        s["ls_params"] = {"pref": [None, 1.0][int(rng.integers(0, 2))],
                          "c1": [1e-4, 0.1][int(rng.integers(0, 2))],
                          "c2": [0.9, 0.4, 0.1][int(rng.integers(0, 3))],
                          "max_step": [1e30, 5.0][int(rng.integers(0, 2))],
                          "max_it": [100, 3][int(rng.integers(0, 2))],
                          "max_zoom": [100, 2][int(rng.integers(0, 2))]}
    if rng.random() < 0.06:
        # start exactly at a stationary point: gradient norm == 0 exit
        n = len(s["b"])
        s["b"] = [0.0] * n
        s["x0"] = [0.0] * n
        if s["ctrl"]["kind"] in ("deltaE", "absdeltaE"):
            # DeltaEnergyController.start divides by max(|E|,|E|) = 0 at E = 0 (belongs to C14)
            s["ctrl"] = {"kind": "gradnorm", "tol": 1e-30, "limit": 5}
    return s


def gen_reuse_spec(rng, i):
    kinds = ["L_BFGS", "VL_BFGS", "SteepestDescent", "NewtonCG", "RelaxedNewton"]
    kind = kinds[i % 5]
    n = int(rng.integers(2, 7))
    runs = []
    for _ in range(int(rng.integers(2, 4))):
        M = rng.normal(size=(n, n))
        A = M @ M.T + np.eye(n)
        runs.append({"A": A.tolist(), "b": rng.normal(size=n).tolist(),
                     "q": rng.uniform(0.05, 1.0, size=n).tolist(), "t": [0.0] * n,
                     "x0": (float(rng.choice([0.5, 3.0])) * rng.normal(size=n)).tolist()})
    u = rng.random()
    lim = int(rng.integers(3, 9))
    if u < 0.4:
        ctrl = {"kind": "gradnorm", "tol": 1e-7, "limit": lim}
    elif u < 0.6:
        ctrl = {"kind": "gradnorm", "tol": None, "tol_rel": float(10.0 ** rng.integers(-6, -1)), "limit": lim}
    elif u < 0.8:
        ctrl = {"kind": "deltaE", "tol": float(10.0 ** rng.integers(-9, -3)), "limit": lim}
    else:
        ctrl = {"kind": "absdeltaE", "tol": float(10.0 ** rng.integers(-9, -3)), "limit": lim}
    return {"minimizer": kind, "mh": int(rng.integers(1, 5)), "ctrl": ctrl, "runs": runs}


def gen_reset_spec(rng, i):
    """Runs with mid-run resets: a step limit / very few zoom or first-stage iterations make the line
    search report failure although the energy went down, so the loop resets the minimiser and goes on."""
    sp = gen_reuse_spec(rng, i)
    sp["minimizer"] = ["VL_BFGS", "L_BFGS", "VL_BFGS", "L_BFGS", "SteepestDescent"][i % 5]
    u = int(rng.integers(0, 3))
    sp["ls_params"] = {"pref": None, "c1": 1e-4, "c2": [0.9, 0.1][int(rng.integers(0, 2))],
                       "max_step": [0.08, 0.3, 1e30][u] if u < 2 else 1e30,
                       "max_it": 100 if u < 2 else int(rng.integers(1, 3)),
                       "max_zoom": 100 if u < 2 else int(rng.integers(1, 3))}
    sp["ctrl"] = {"kind": "gradnorm", "tol": 1e-9, "limit": int(rng.integers(5, 11))}
    for r in sp["runs"]:
        r["x0"] = (3.0 * np.array(r["x0"])).tolist()
    return sp


def gen_bfgs_spec(rng, i):
    return {"n": int(rng.integers(1, 9)), "mh": int(1 + i % 5), "seed": int(rng.integers(0, 1 << 30)),
            "cond": float(rng.choice([1.5, 10.0, 100.0])), "steps": int(rng.integers(2, 14)),
            "quartic": bool(rng.random() < 0.5)}


BFGS_TOL = 1e-8    # relative; observed deviations are ~1e-15 (see notes/C16.md)


def bfgs_failure(spec):
    w = run_bfgs_case(spec)
    if not (w["lv"] <= BFGS_TOL):
        return "L_BFGS and VL_BFGS directions differ by %.3g (relative) at history step %d" % (w["lv"], w["step"])
    if not (w["lref"] <= BFGS_TOL):
        return "L_BFGS direction differs from the two-loop reference by %.3g (relative) at step %d" % (w["lref"], w["step"])
    return None


def quiet():
    import logging
    logging.getLogger("NIFTy").setLevel(logging.CRITICAL)
    logging.getLogger("NIFTy8").setLevel(logging.CRITICAL)
    try:
        from nifty.cl.logger import logger
        logger.setLevel(logging.CRITICAL)
    except Exception:
        pass


# --------------------------------------------------------------------------------------------------

# --------------------------------------------------------------------------------------------------
# ring buffers of _InformationStore (round 6): add_new_point / history_length / .b index arithmetic
# --------------------------------------------------------------------------------------------------

def gen_ring_spec(rng, i):
    mmax = int(rng.integers(1, 7)) if i % 5 else int(rng.integers(7, 13))
    k = int(rng.integers(0, 4 * mmax + 3)) if i % 7 else int(rng.choice([0, 1, mmax - 1, mmax, mmax + 1, 2 * mmax]))
    k = max(k, 0)
    # distinct non-zero integer payloads: x_j, g_j are partial sums, so s_j = p_j and y_j = q_j exactly
    ps = rng.permutation(np.arange(1, 4 * k + 5))[:k] * rng.choice([-1, 1], size=k)
    qs = rng.permutation(np.arange(1, 4 * k + 5))[:k] * rng.choice([-1, 1], size=k)
    return {"mmax": mmax, "p": [int(v) for v in ps], "q": [int(v) for v in qs],
            "x0": int(rng.integers(-50, 50)), "g0": int(rng.integers(-50, 50))}


def run_ring_case(spec):
    """Drive the real _InformationStore with 1-pixel integer-valued Fields; return its own read-out."""
    import nifty.cl as ift
    from nifty.cl.minimization.descent_minimizers import _InformationStore
    dom = ift.DomainTuple.make(ift.UnstructuredDomain((1,)))
    fld = lambda v: ift.Field.from_raw(dom, np.array([float(v)]))
    x, g = spec["x0"], spec["g0"]
    st = _InformationStore(spec["mmax"], fld(x), fld(g))
    for p_, q_ in zip(spec["p"], spec["q"]):
        x, g = x + p_, g + q_
        st.add_new_point(fld(x), fld(g))
    m = int(st.history_length)
    b = [float(v.asnumpy()[0]) for v in st.b]
    ok_shape = len(b) == 2 * m + 1 and all(v == int(v) for v in b)
    return {"spec": spec, "m": m, "S": [int(v) for v in b[:m]] if ok_shape else None,
            "Y": [int(v) for v in b[m:2 * m]] if ok_shape else None,
            "g": b[-1] if b else None, "g_want": float(g), "len_b": len(b)}


def coq_ring_case(o):
    pair = lambda a, b: "(%s, %s)" % (C.cz(a), C.cz(b))
    sp = o["spec"]
    if o["S"] is None:
        return "false"
    return "ring_case %d %s %s %d" % (sp["mmax"], C.clist([pair(a, b) for a, b in zip(sp["p"], sp["q"])]),
                                      C.clist([pair(a, b) for a, b in zip(o["S"], o["Y"])]), o["m"])


def ring_failure(o):
    """Direct statement on the implementation: .b = last min(k, mmax) s's, the same y's, the last gradient."""
    sp = o["spec"]
    k = len(sp["p"])
    m = min(k, sp["mmax"])
    if o["m"] != m or o["len_b"] != 2 * m + 1 or o["S"] is None:
        return "window: history_length/len(b) = %r/%r, expected %d/%d" % (o["m"], o["len_b"], m, 2 * m + 1)
    if o["S"] != sp["p"][k - m:] or o["Y"] != sp["q"][k - m:]:
        return "window: _InformationStore.b does not read out the last %d stored pairs, oldest first" % m
    if o["g"] != o["g_want"]:
        return "window: last entry of _InformationStore.b is not the latest gradient"
    return None


class C16(C.Check):
    prop = "C16"
    coq_dir = "C16"
    trusted_base = [
        "Coq 8.16.1 kernel (coqc; vm_compute and primitive floats for the correspondence evaluation); all C16 theorems are closed under the global context",
        "hand-written model coq/C16/Model.v of LineSearch.perform_line_search/_zoom and DescentMinimizer.__call__ (tied by bit-exact correspondence, not by translation)",
        "_cubicmin/_quadmin are oracles of the model: their outputs are recorded from the implementation through a LineSearch subclass",
        "the 1-D recording energy of the harness (start 0, direction +-2^k, so that position/direction is the step length exactly)",
        "window abstraction of the BFGS direction models: 'the last min(k, max_history_length) pairs' stands for the ring buffers (index arithmetic modelled in coq/C16/ModelRing.v and proved to read out exactly that window, C16_ring_window, tied by ring_case; not composed with the direction theorem) and the cached Gram entries of _InformationStore (tied by replay of n-D histories that wrap the buffer: delta bit-exact, directions within tolerance; and by the direct oracle against an independent two-loop reference)",
    ]
    assumptions = [
        "phi and phi' are deterministic functions of the step length (Energy objects are immutable)",
        "the textbook form 'phi(alpha) <= phi(0)+c1*alpha*phi'(0)' of the first Wolfe test needs non-NaN values (C16_wolfe_le); the law-free form (C16_wolfe) holds for all doubles",
        "the while-True loop of DescentMinimizer.__call__ is modelled with fuel; the theorems hold for every fuel",
    ]

    def __init__(self):
        self.ls_obs, self.dm_obs, self.bfgs_specs, self.b_obs = [], [], [], []
        self.reuse_specs, self.reuse_obs = [], []
        self.ring_obs = []

    def _cases(self, ctx):
        rng = ctx.rng(16)
        nls, ndm, nb = (260, 60, 25) if ctx.quick else (3000, 500, 200)
        ls = [c["spec"] for c in ctx.corpus() if c.get("kind") == "ls"]
        dm = [c["spec"] for c in ctx.corpus() if c.get("kind") == "dm"]
        bf = [c["spec"] for c in ctx.corpus() if c.get("kind") == "bfgs"]
        ls += [gen_ls_spec(rng) for _ in range(nls)]
        dm += [gen_dm_spec(rng, i) for i in range(ndm)]
        bf += [gen_bfgs_spec(rng, i) for i in range(nb)]
        rrng = ctx.rng(1616)          # own stream: the earlier case lists stay exactly as they were
        self.reuse_specs = [c["spec"] for c in ctx.corpus() if c.get("kind") == "reuse"]
        self.reuse_specs += [gen_reuse_spec(rrng, i) for i in range(15 if ctx.quick else 150)]
        qrng = ctx.rng(1617)
        self.reuse_specs += [gen_reset_spec(qrng, i) for i in range(10 if ctx.quick else 100)]
        return ls, dm, bf

    def correspondence(self, ctx, res):
        quiet()
        ls, dm, bf = self._cases(ctx)
        self.bfgs_specs = bf
        self.ls_obs = [run_ls_case(s) for s in ls]
        self.dm_obs = [run_dm_case(s) for s in dm]
        dm_exc = [o for o in self.dm_obs if o["result"] is None]
        self.dm_obs = [o for o in self.dm_obs if o["result"] is not None] + dm_exc
        ndm_ok = len(self.dm_obs) - len(dm_exc)
        checks = [coq_ls_case(o) for o in self.ls_obs] + [coq_dm_case(o) for o in self.dm_obs[:ndm_ok]]
        self.b_obs = [r for sp in bf for r in run_bfgs_case(sp, record=True)["recs"]]
        n_pre = len(checks)
        checks += [coq_delta_case(r) for r in self.b_obs]
        # one minimiser object used for several runs: every run must replay in the model started from
        # the INITIAL state (f_k_minus_1 = None at the first line search, fresh controller verdicts)
        self.reuse_obs = [run_reuse_case(sp) for sp in self.reuse_specs]
        n_pre_reuse = len(checks)
        reuse_runs = [(o, r) for o in self.reuse_obs for r in o["reused"] if r["result"] is not None]
        checks += [coq_dm_case(r) for _, r in reuse_runs]
        # ring buffers: the model's read-out after the same pushes == the implementation's own .b
        grng = ctx.rng(1618)
        ring_specs = [c["spec"] for c in ctx.corpus() if c.get("kind") == "ring"]
        ring_specs += [gen_ring_spec(grng, i) for i in range(60 if ctx.quick else 600)]
        self.ring_obs = [run_ring_case(sp) for sp in ring_specs]
        n_pre_ring = len(checks)
        checks += [coq_ring_case(o) for o in self.ring_obs]
        bad = C.eval_cases(self.prop, "corr", HEADER, checks)
        nls = len(self.ls_obs)
        for i in bad[:4]:
            if i >= n_pre_ring:
                o = self.ring_obs[i - n_pre_ring]
                res.add_broken("correspondence", "_InformationStore.add_new_point/history_length/.b vs coq/C16/ModelRing.v",
                               {"kind": "ring", "spec": o["spec"], "m": o["m"], "S": o["S"], "Y": o["Y"]})
            elif i >= n_pre_reuse:
                o, r = reuse_runs[i - n_pre_reuse]
                res.add_broken("correspondence", "DescentMinimizer.__call__ on a re-used object vs coq/C16/Model.v (initial state)",
                               {"kind": "reuse", "spec": o["spec"], "result": r["result"], "ls": r["ls"], "checks": r["checks"],
                                "acc": r["acc"], "values": r["values"]})
            elif i >= n_pre:
                r = self.b_obs[i - n_pre]
                res.add_broken("correspondence", "_InformationStore.delta vs coq/C16/Model.v (bit-exact from b_dot_b)",
                               {"kind": "bfgs", "m": r["m"], "bdb": r["bdb"], "delta": r["delta"]})
            elif i < nls:
                o = self.ls_obs[i]
                res.add_broken("correspondence", "LineSearch.perform_line_search vs coq/C16/Model.v",
                               {"kind": "ls", "spec": o["spec"], "result": o["result"], "log": o["log"][:40],
                                "cub": o["cub"], "quad": o["quad"]})
            else:
                o = self.dm_obs[i - nls]
                res.add_broken("correspondence", "DescentMinimizer.__call__ vs coq/C16/Model.v",
                               {"kind": "dm", "spec": o["spec"], "result": o["result"], "ls": o["ls"],
                                "checks": o["checks"], "acc": o["acc"], "values": o["values"]})
        # directions: model in IEEE arithmetic vs implementation, tolerance comparison done here
        dir_terms = [coq_dirs_term(r) for r in self.b_obs]
        printed = C.eval_terms(self.prop, "dirs", HEADER, dir_terms) if dir_terms else []
        ndir_bad = 0
        worst_dir = 0.0
        for r, txt in zip(self.b_obs, printed):
            lists = parse_float_lists(txt or "")
            ok = len(lists) == 2 and len(lists[0]) == len(r["g"]) and len(lists[1]) == len(r["g"])
            if ok:
                dL = float(np.linalg.norm(np.array(lists[0]) - np.array(r["pL"]))) / r["scale"]
                dV = float(np.linalg.norm(np.array(lists[1]) - np.array(r["pV"]))) / r["scale"]
                worst_dir = max(worst_dir, dL, dV)
                ok = dL <= DIR_TOL and dV <= DIR_TOL
            if not ok:
                ndir_bad += 1
                if ndir_bad <= 2:
                    res.add_broken("correspondence", "L_BFGS/VL_BFGS.get_descent_direction vs coq/C16/Model.v (tolerance %g)" % DIR_TOL,
                                   {"kind": "bfgs", "m": r["m"], "mh": r["mh"], "k": r["k"], "S": r["S"], "Y": r["Y"], "g": r["g"],
                                    "pL": r["pL"], "pV": r["pV"], "model": lists})
        # directions of re-used L_BFGS / VL_BFGS objects vs the model evaluated on the window a minimiser
        # in its initial state would hold (history of THIS run since its start / last failed line search)
        rwin = []
        for o in self.reuse_obs:
            kind = o["spec"]["minimizer"]
            if kind not in ("L_BFGS", "VL_BFGS"):
                continue
            for r in o["reused"]:
                for w in epoch_windows(r, o["spec"]["mh"]):
                    rwin.append((o, kind, w))
        rprinted = C.eval_terms(self.prop, "reuse_dirs", HEADER, [coq_dirs_term(w) for _, _, w in rwin]) if rwin else []
        nreuse_bad = 0
        worst_reuse = 0.0
        for (o, kind, w), txt in zip(rwin, rprinted):
            lists = parse_float_lists(txt or "")
            ok = len(lists) == 2 and len(lists[0]) == len(w["g"]) and len(lists[1]) == len(w["g"])
            if ok:
                ref = np.array(lists[0] if kind == "L_BFGS" else lists[1])
                if not np.all(np.isfinite(ref)):
                    continue                     # degenerate pair (0/0) in the model: nothing to compare
                dev = float(np.linalg.norm(ref - np.array(w["p"])) / (np.linalg.norm(ref) + 1e-300))
                worst_reuse = max(worst_reuse, dev)
                ok = dev <= REUSE_DIR_TOL
            if not ok:
                nreuse_bad += 1
                if nreuse_bad <= 2:
                    res.add_broken("correspondence", "%s.get_descent_direction of a re-used object vs coq/C16/Model.v on the fresh window (tolerance %g)" % (kind, REUSE_DIR_TOL),
                                   {"kind": "reuse", "spec": o["spec"], "m": w["m"], "p": w["p"], "model": lists})
        ndir_bad += nreuse_bad
        zoomed = sum(1 for o in self.ls_obs if o["quad"])
        backtracked = sum(1 for o in self.ls_obs if any(
            k == "atfail" for k, _ in o["log"]) or any(isinstance(v[0], float) and (math.isnan(v[0]) or abs(v[0]) > 1e100) for v in o["table"].values()))
        succ = sum(1 for o in self.ls_obs if o["result"][0] == "ret" and o["result"][2])
        raised = sum(1 for o in self.ls_obs if o["result"][0] == "raise")
        nontriv = {C.stable_hash(o["spec"]) for o in self.ls_obs if len(o["log"]) > 4}
        nontriv |= {C.stable_hash(o["spec"]) for o in self.dm_obs if len(o["ls"]) >= 1}
        nontriv |= {C.stable_hash([r["S"], r["g"]]) for r in self.b_obs if r["m"] >= 1}
        nontriv |= {C.stable_hash(o["spec"]) for o in self.reuse_obs if len(o["reused"]) >= 2}
        nontriv |= {C.stable_hash(o["spec"]) for o in self.ring_obs if len(o["spec"]["p"]) >= 2}
        stat = {}
        for o in self.dm_obs:
            key = "%s:%s" % (o["spec"]["minimizer"], "none" if o["result"] is None else ST[o["result"][1]])
            stat[key] = stat.get(key, 0) + 1
        res.coverage.update({
            "evaluations": len(checks) + len(dir_terms) + len(rwin), "distinct_nontrivial": len(nontriv),
            "rule": "line search: random polynomials of degree 2-6 on a 1-pixel domain, direction +-2^k, all LineSearch parameters, optional FloatingPointError/NaN/huge regions, f_k_minus_1 and longest_step; non-trivial = more than one trial step evaluated.  Minimiser loop: 5 minimisers x generated convex/non-convex n-D quartics x 3 library controllers + scripted controllers x real/parametrised/scripted line searchers; non-trivial = at least one line-search call.  distinct by spec hash",
            "samples": [{"spec": o["spec"], "result": o["result"], "n_evaluations": len(o["log"])} for o in self.ls_obs[3:6]],
            "input_distribution": {"line_search_cases": nls, "entered_zoom": zoomed, "backtracked": backtracked,
                                   "success": succ, "raised": raised, "minimiser_runs": len(self.dm_obs),
                                   "minimiser_runs_ended_by_exception_not_replayed": len(dm_exc),
                                   "minimiser_outcomes": stat, "bfgs_direction_calls": len(self.b_obs),
                                   "bfgs_calls_with_wrapped_ring_buffer": sum(1 for r in self.b_obs if r["k"] > r["mh"]),
                                   "bfgs_direction_max_rel_deviation_model_vs_impl": worst_dir,
                                   "reused_minimiser_objects": len(self.reuse_obs), "runs_on_reused_objects": sum(len(o["reused"]) for o in self.reuse_obs),
                                   "reused_bfgs_direction_calls": len(rwin), "reused_direction_max_rel_deviation": worst_reuse,
                                   "ring_buffer_cases": len(self.ring_obs),
                                   "ring_buffer_cases_wrapped": sum(1 for o in self.ring_obs if len(o["spec"]["p"]) > o["spec"]["mmax"]),
                                   "ring_buffer_cases_partly_filled": sum(1 for o in self.ring_obs if 0 < len(o["spec"]["p"]) < o["spec"]["mmax"])},
            "disagreements": len(bad) + ndir_bad, "exhaustive": False,
        })
        return bad

    def oracle(self, ctx, res, hints, budget):
        quiet()
        n = 0

        def report(kind, spec, what, sig):
            res.add_failing(sig, what, {"kind": kind, "spec": spec})

        for o in self.ls_obs:
            n += 1
            f = wolfe_failure_domain(o)
            if f:
                report("ls", o["spec"], f, {"fn": "LineSearch.perform_line_search", "class": f.split(":")[0]})
                if len(res.failing) >= 3:
                    break
        for o in self.dm_obs:
            n += 1
            f = dm_failure(o)
            if f:
                report("dm", o["spec"], f, {"fn": "DescentMinimizer.__call__", "minimizer": o["spec"]["minimizer"]})
                if len(res.failing) >= 5:
                    break
        for o in self.reuse_obs:
            n += 1
            f = reuse_failure(o)
            if f:
                report("reuse", o["spec"], f, {"fn": o["spec"]["minimizer"] + ".__call__", "class": "re-used object"})
                break
        for o in self.ring_obs:
            n += 1
            f = ring_failure(o)
            if f:
                report("ring", o["spec"], f, {"fn": "_InformationStore.b", "class": "ring buffer window"})
                break
        for s in self.bfgs_specs:
            n += 1
            f = bfgs_failure(s)
            if f:
                report("bfgs", s, f, {"fn": "get_descent_direction", "mh": s["mh"]})
                break
        if budget > 1 and not res.failing:
            rng = ctx.rng(1699)
            for i in range(1500):
                s = gen_ls_spec(rng)
                n += 1
                f = wolfe_failure_domain(run_ls_case(s))
                if f:
                    report("ls", s, f, {"fn": "LineSearch.perform_line_search", "class": f.split(":")[0]})
                    break
            for i in range(150):
                if res.failing:
                    break
                s = gen_dm_spec(rng, i)
                n += 1
                f = dm_failure(run_dm_case(s))
                if f:
                    report("dm", s, f, {"fn": "DescentMinimizer.__call__", "minimizer": s["minimizer"]})
        res.coverage["impl_property_evaluations"] = n

    def replay(self, ctx, rp):
        quiet()
        i = rp["input"]
        if i["kind"] == "ls":
            return wolfe_failure_domain(run_ls_case(i["spec"])) is not None
        if i["kind"] == "dm":
            return dm_failure(run_dm_case(i["spec"])) is not None
        if i["kind"] == "reuse":
            return reuse_failure(run_reuse_case(i["spec"])) is not None
        if i["kind"] == "ring":
            return ring_failure(run_ring_case(i["spec"])) is not None
        return bfgs_failure(i["spec"]) is not None


def wolfe_failure_domain(o):
    """wolfe_failure restricted to the property's domain: a NaN energy value at the returned point is
    outside it (the quantifier is over smooth energies; see notes/C16.md for the NaN behaviour)."""
    r = o["result"]
    if r[0] == "ret" and r[2]:
        ent = o["table"].get(r[1])
        if ent is not None and isinstance(ent[0], float) and math.isnan(ent[0]):
            return None
    return wolfe_failure(o)


CHECK = C16()
