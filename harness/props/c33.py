"""C33 -- Pytree vector arithmetic and custom maps match flat-array semantics.

Tie: hand model coq/C33/Model.v + correspondence.  Generated nested dict/tuple/list pytrees of
small-integer real and Gaussian-integer complex arrays go through the real `jft.Vector` operator
overloads and the `tree_math` functions (norm, vdot, dot, sum/min/max/any/all, size); generated
functions x axis specifications (ints and None, per argument and per pytree leaf, for inputs and
outputs) go through the real `jft.smap`, `jft.lmap` and `jax.vmap`.  All results are integers and
compared exactly with the model inside coqc (vm_compute); only norm(ord=2) is compared through its
square within 1e-9.
Direct oracle (NumPy only): every operation equals the operation on the concatenated flat arrays;
smap/lmap outputs equal jax.vmap outputs."""
import json
import warnings
from fractions import Fraction

import numpy as np

from .. import common as C
from .. import fasteval

HEADER = ("From Coq Require Import ZArith List Bool. Import ListNotations.\n"
          "Require Import NV.C33.Model.\nOpen Scope Z_scope.\n")


# --------------------------------------------------------------------------------------------------
# pytrees <-> Coq
# --------------------------------------------------------------------------------------------------

def z(x):
    x = int(x)
    return str(x) if x >= 0 else "(%d)" % x


def zl(v):
    return "[" + ";".join(z(x) for x in v) + "]"


def zll(v):
    return "[" + ";".join(zl(x) for x in v) + "]"


def cl(v):
    """list of Gaussian integers"""
    return "[" + ";".join("(%s,%s)" % (z(round(complex(x).real)), z(round(complex(x).imag))) for x in v) + "]"


def treedef_of(t):
    """Tree definition in JAX's flattening order (dict keys sorted); leaves are arrays / numbers."""
    if isinstance(t, dict):
        return "(TNode [" + ";".join(treedef_of(t[k]) for k in sorted(t)) + "])"
    if isinstance(t, (tuple, list)):
        return "(TNode [" + ";".join(treedef_of(x) for x in t) + "])"
    if t is None:
        return "(TNode [])"          # JAX: None is an empty node, not a leaf
    return "TLeaf"


def leaves_of(t):
    if isinstance(t, dict):
        return [l for k in sorted(t) for l in leaves_of(t[k])]
    if isinstance(t, (tuple, list)):
        return [l for x in t for l in leaves_of(x)]
    if t is None:
        return []
    return [np.asarray(t)]


def tree_coq(t):
    return "(mkTree %s [%s])" % (treedef_of(t), ";".join(cl(np.ravel(l)) for l in leaves_of(t)))


def tree_coq_z(t):
    return "(mkTree %s [%s])" % (treedef_of(t), ";".join(zl(np.real(np.ravel(l))) for l in leaves_of(t)))


def is_integral(x):
    a = np.asarray(x)
    if a.dtype == bool:
        return True
    return bool(np.all(np.isfinite(a)) and np.all(np.real(a) == np.round(np.real(a))) and np.all(np.imag(a) == np.round(np.imag(a))))


def obs_tree(res):
    """Result of an operation as `Some tree` (or a marker that makes the check fail if it is not integral)."""
    t = res.tree if hasattr(res, "tree") else res
    if not all(is_integral(l) for l in leaves_of(t)):
        return "None"
    return "(Some %s)" % tree_coq(tree_numpy(t))


def tree_numpy(t):
    if isinstance(t, dict):
        return {k: tree_numpy(v) for k, v in t.items()}
    if isinstance(t, (tuple, list)):
        return type(t)(tree_numpy(x) for x in t)
    a = np.asarray(t)
    return a.astype(np.int64) if a.dtype == bool else a


def flat(t):
    return np.concatenate([np.ravel(np.asarray(l)) for l in leaves_of(t)])


# --------------------------------------------------------------------------------------------------
# generation
# --------------------------------------------------------------------------------------------------

SHAPES = [(), (1,), (2,), (3,), (2, 2), (1, 3), (2, 1, 2), (3, 1), (1, 1)]


def gen_struct(rng, depth=0):
    """A random nesting of dict / tuple / list with shapes at the leaves."""
    r = rng.random()
    if depth >= 2 or r < 0.35:
        return ("leaf", SHAPES[int(rng.integers(0, len(SHAPES)))])
    kind = ["dict", "tuple", "list"][int(rng.integers(0, 3))]
    n = int(rng.integers(1, 4))
    kids = [gen_struct(rng, depth + 1) for _ in range(n)]
    if kind == "dict":
        names = rng.permutation(["a", "b", "c", "d", "zz", "B"])[:n]
        return ("dict", {str(k): v for k, v in zip(names, kids)})
    return (kind, kids)


def fill(struct, rng, cplx, lo=-4, hi=5):
    kind, body = struct
    if kind == "leaf":
        a = rng.integers(lo, hi, size=body).astype(np.float64)
        if cplx:
            a = a + 1j * rng.integers(lo, hi, size=body)
        return a
    if kind == "dict":
        return {k: fill(v, rng, cplx, lo, hi) for k, v in body.items()}
    out = [fill(v, rng, cplx, lo, hi) for v in body]
    return tuple(out) if kind == "tuple" else out


def struct_to_json(t):
    """JSON-able copy of a concrete tree (for replays)."""
    if isinstance(t, dict):
        return {"dict": {k: struct_to_json(v) for k, v in t.items()}}
    if isinstance(t, tuple):
        return {"tuple": [struct_to_json(x) for x in t]}
    if isinstance(t, list):
        return {"list": [struct_to_json(x) for x in t]}
    a = np.asarray(t)
    return {"leaf": {"shape": list(a.shape), "re": np.real(a).ravel().tolist(), "im": np.imag(a).ravel().tolist(),
                     "complex": bool(np.iscomplexobj(a))}}


def struct_from_json(j):
    if "dict" in j:
        return {k: struct_from_json(v) for k, v in j["dict"].items()}
    if "tuple" in j:
        return tuple(struct_from_json(x) for x in j["tuple"])
    if "list" in j:
        return [struct_from_json(x) for x in j["list"]]
    l = j["leaf"]
    a = np.array(l["re"], dtype=np.float64)
    if l["complex"]:
        a = a + 1j * np.array(l["im"], dtype=np.float64)
    return a.reshape(l["shape"])


# --------------------------------------------------------------------------------------------------
# vector algebra: model checks and direct oracle
# --------------------------------------------------------------------------------------------------

BIN = [("add", "cadd", lambda a, b: a + b), ("sub", "csub", lambda a, b: a - b), ("mul", "cmul", lambda a, b: a * b)]
CMP = [("lt", "clt", lambda a, b: a < b), ("le", "cle", lambda a, b: a <= b), ("eq", "ceq", lambda a, b: a == b),
       ("ne", "cne", lambda a, b: a != b), ("ge", "cge", lambda a, b: a >= b), ("gt", "cgt", lambda a, b: a > b)]


def vector_checks(a, b, s, cplx):
    """Coq terms for one pair of equally structured trees a, b and a scalar s."""
    import nifty.re as jft
    out = []
    A, B_ = tree_coq(a), tree_coq(b)
    va, vb = jft.Vector(a), jft.Vector(b)
    S = "(%s,%s)" % (z(round(complex(s).real)), z(round(complex(s).imag)))
    for name, cop, f in BIN + ([] if cplx else CMP):
        out.append(("vec-" + name, "opt_tree_eqb (bop %s (Tree %s) (Tree %s)) %s" % (cop, A, B_, obs_tree(f(va, vb)))))
        out.append(("vec-" + name + "-rscalar", "opt_tree_eqb (bop %s (Tree %s) (Scalar %s)) %s" % (cop, A, S, obs_tree(f(va, s)))))
        out.append(("vec-" + name + "-lscalar", "opt_tree_eqb (bop %s (Scalar %s) (Tree %s)) %s" % (cop, S, A, obs_tree(f(s, va)))))
    out.append(("vec-neg", "opt_tree_eqb (Some (tmap1 cneg %s)) %s" % (A, obs_tree(-va))))
    out.append(("vec-conj", "opt_tree_eqb (Some (tmap1 cconj %s)) %s" % (A, obs_tree(va.conj()))))
    out.append(("conj", "opt_tree_eqb (Some (tmap1 cconj %s)) %s" % (A, obs_tree(jft.conj(a)))))

    def cnum(v):
        v = complex(np.asarray(v))
        return "(%s,%s)" % (z(round(v.real)), z(round(v.imag))) if is_integral(v) else None
    vd = cnum(jft.vdot(a, b))
    out.append(("vdot", "match tvdot %s %s with Some v => c_eqb v %s | None => false end" % (A, B_, vd) if vd else "false"))
    with warnings.catch_warnings(record=True):      # `dot` is deprecated and forces its warning
        dd = cnum(jft.dot(a, b))
        dm = cnum(va @ vb)
    out.append(("dot", "match tdot %s %s with Some v => c_eqb v %s | None => false end" % (A, B_, dd) if dd else "false"))
    out.append(("matmul", "match tdot %s %s with Some v => c_eqb v %s | None => false end" % (A, B_, dm) if dm else "false"))
    out.append(("size", "Z.eqb (tsize %s) %s && Z.eqb (tsize %s) %s" % (A, z(jft.size(a)), A, z(len(va)))))
    if not cplx:
        Az = tree_coq_z(a)
        n = len(leaves_of(a))
        nonempty = all(np.size(l) > 0 for l in leaves_of(a)) and n > 0
        out.append(("norm1", "Z.eqb (tnorm1 %s) %s" % (Az, z(float(jft.norm(a, ord=1))))))
        if nonempty:
            out.append(("norminf", "Z.eqb (tnorminf %s) %s" % (Az, z(float(jft.norm(a, ord=np.inf))))))
            out.append(("norm-inf", "Z.eqb (tnormminf %s) %s" % (Az, z(float(jft.norm(a, ord=-np.inf))))))
            out.append(("sum", "Z.eqb (tsum_z %s) %s" % (Az, z(float(jft.sum(a))))))
            out.append(("min", "Z.eqb (tmin_z %s) %s && Z.eqb (tmin_z %s) %s" % (Az, z(float(jft.min(a))), Az, z(float(va.min())))))
            out.append(("max", "Z.eqb (tmax_z %s) %s && Z.eqb (tmax_z %s) %s" % (Az, z(float(jft.max(a))), Az, z(float(va.max())))))
            nz = "(nz_tree %s)" % A
            anyv = bool(jft.any(tree_map_np(lambda x: x != 0, a)))
            allv = bool(jft.all(tree_map_np(lambda x: x != 0, a)))
            out.append(("any", "Bool.eqb (tany %s) %s" % (nz, C.cbool(anyv))))
            out.append(("all", "Bool.eqb (tall %s) %s" % (nz, C.cbool(allv))))
        fr = Fraction(float(jft.norm(a, ord=2)))
        p, qd = fr.numerator, fr.denominator
        out.append(("norm2", "let S := tsumsq %s in (1000000000 * Z.abs (%s * %s - S * %s * %s) <=? %s * %s * (1 + S))" % (
            Az, z(p), z(p), z(qd), z(qd), z(qd), z(qd))))
    return out


def tree_map_np(f, t):
    if isinstance(t, dict):
        return {k: tree_map_np(f, v) for k, v in t.items()}
    if isinstance(t, (tuple, list)):
        return type(t)(tree_map_np(f, x) for x in t)
    return f(np.asarray(t))


def vector_direct(a, b, s, cplx):
    """The property itself: every operation equals the operation on the concatenated flat arrays."""
    import nifty.re as jft
    fails = []
    fa, fb = flat(a), flat(b)
    va, vb = jft.Vector(a), jft.Vector(b)

    def chk(name, got, want, exact=True):
        got = np.asarray(got)
        ok = got.shape == np.shape(want) and (np.array_equal(got, want) if exact else np.allclose(got, want, rtol=1e-12, atol=1e-12))
        if not ok:
            fails.append(({"fn": name, "kind": "vector"}, "%s differs from the flat-array operation" % name, None))
    ops = [("add", lambda x, y: x + y), ("sub", lambda x, y: x - y), ("mul", lambda x, y: x * y)]
    if not cplx:
        ops += [("lt", lambda x, y: x < y), ("le", lambda x, y: x <= y), ("eq", lambda x, y: x == y), ("ne", lambda x, y: x != y),
                ("ge", lambda x, y: x >= y), ("gt", lambda x, y: x > y)]
    for name, f in ops:
        chk("Vector." + name, flat(f(va, vb).tree), f(fa, fb))
        chk("Vector." + name + "(scalar right)", flat(f(va, s).tree), f(fa, s))
        chk("Vector." + name + "(scalar left)", flat(f(s, va).tree), f(s, fa))
    if not cplx:
        pb = tree_map_np(lambda x: np.abs(x) + 1, b)
        fpb = flat(pb)
        vpb = jft.Vector(pb)
        chk("Vector.truediv", flat((va / vpb).tree), fa / fpb, exact=False)
        chk("Vector.floordiv", flat((va // vpb).tree), fa // fpb)
        chk("Vector.mod", flat((va % vpb).tree), fa % fpb)
        chk("Vector.pow", flat((vpb ** 2).tree), fpb ** 2)
        chk("Vector.abs", flat(abs(va).tree), np.abs(fa))
        chk("sum", jft.sum(a), fa.sum())
        chk("min", jft.min(a), fa.min())
        chk("max", jft.max(a), fa.max())
        chk("any", jft.any(tree_map_np(lambda x: x > 3, a)), (fa > 3).any())
        chk("all", jft.all(tree_map_np(lambda x: x > -4, a)), (fa > -4).all())
        # where: tree condition, scalar condition, scalar branches
        cond = tree_map_np(lambda x: x > 0, a)
        chk("where(tree,tree,tree)", flat(jft.where(cond, a, b)), np.where(fa > 0, fa, fb))
        chk("where(tree,tree,scalar)", flat(jft.where(cond, a, 7.0)), np.where(fa > 0, fa, 7.0))
        chk("where(tree,scalar,tree)", flat(jft.where(cond, -1.0, b)), np.where(fa > 0, -1.0, fb))
        chk("where(scalar,tree,tree)", flat(jft.where(True, a, b)), fa)
        # round 6: all 8 combinations of {tree, scalar} for (condition, x, y), both truth values of a scalar
        # condition, plain pytrees and Vector-wrapped ones; each equals np.where on the flat arrays
        # (a scalar broadcasts to every entry).  An exception on a legal combination is a failing input.
        from jax.tree_util import tree_structure as structure_of
        fcond = fa > 0
        sx, sy = -1.5, 7.0
        for wrapped in (False, True):
            W = (lambda t: jft.Vector(t)) if wrapped else (lambda t: t)
            for ct in (True, False):
                for xt in (True, False):
                    for yt in (True, False):
                        for cs in ((None,) if ct else (True, False)):
                            if wrapped and not (ct or xt or yt):
                                continue
                            name = "where(%s,%s,%s)%s" % ("tree" if ct else "scalar " + str(cs), "tree" if xt else "scalar",
                                                        "tree" if yt else "scalar", " on Vectors" if wrapped else "")
                            want = np.where(fcond if ct else cs, fa if xt else sx, fb if yt else sy)
                            anytree = ct or xt or yt
                            try:
                                got = jft.where(W(cond) if ct else cs, W(a) if xt else sx, W(b) if yt else sy)
                                if wrapped:
                                    if not isinstance(got, jft.Vector):
                                        fails.append(({"fn": name, "kind": "vector"}, "%s does not return a Vector" % name, None))
                                        continue
                                    got = got.tree
                                if anytree and structure_of(got) != structure_of(a):
                                    fails.append(({"fn": name, "kind": "vector"}, "%s does not have the structure of the tree arguments" % name, None))
                                    continue
                                got = flat(got) if anytree else np.asarray(got)
                            except Exception as e:
                                fails.append(({"fn": name, "kind": "vector"}, "%s raises %s: %s (legal broadcast; np.where on the flat arrays is defined)" % (
                                    name, type(e).__name__, str(e)[:120]), None))
                                continue
                            chk(name, got, want)
    chk("Vector.neg", flat((-va).tree), -fa)
    chk("Vector.conj", flat(va.conj().tree), np.conj(fa))
    chk("Vector.real", flat(va.real.tree), np.real(fa))
    chk("Vector.imag", flat(va.imag.tree), np.imag(fa))
    chk("vdot", jft.vdot(a, b), np.vdot(fa, fb))
    with warnings.catch_warnings(record=True):      # `dot` is deprecated and forces its warning
        chk("dot", jft.dot(a, b), np.dot(fa, fb))
        chk("Vector.matmul", va @ vb, np.dot(fa, fb))
    chk("size", jft.size(a), fa.size)
    chk("len(Vector)", len(va), fa.size)
    for o in (1, 2, 3, np.inf, -np.inf):
        chk("norm(ord=%s)" % o, jft.norm(a, ord=o), np.linalg.norm(fa, ord=o), exact=False)
    return fails


# --------------------------------------------------------------------------------------------------
# custom maps
# --------------------------------------------------------------------------------------------------

def map_functions():
    import jax.numpy as jnp
    return {
        0: lambda x, y: (x * y, y.sum()),
        1: lambda x: (x + 1, x.sum(), 2 * x),
        2: lambda x, y, z: (y + z.sum() - x.sum(), z * (x.sum() * y.sum()), x + y.sum() * z.sum()),
        3: lambda ab, c: ((ab[0] + ab[1].sum(), c.sum()), 2 * c),
        4: lambda x, y: (y.sum(), 3 * y),
        # outputs with None entries (unset fields as in OptimizeResults): None is no leaf
        5: lambda x: (None, 2 * x, None, x.sum()),
    }


def ins(shape, axis, B):
    s = list(shape)
    s.insert(axis, B)
    return tuple(s)


def gen_map_cases(rng, n):
    """Case = fn id, per input leaf (slice shape, in_axis or None), per output leaf out_axis or None,
    whether in_axes / out_axes are passed as a single int / None."""
    cases = []
    # the design-round failing input first (also in corpus/C33)
    cases.append({"fn": 0, "B": 3, "leaves": [{"shape": [2], "ax": 0}, {"shape": [2], "ax": None}], "out": [0, None], "in_form": "tuple", "out_form": "tuple"})
    cases.append({"fn": 4, "B": 2, "leaves": [{"shape": [2], "ax": 0}, {"shape": [3], "ax": None}], "out": [None, None], "in_form": "tuple", "out_form": "none"})
    # single int out_axes with None entries in the output (regression of the first version of the fix)
    cases.append({"fn": 5, "B": 3, "leaves": [{"shape": [2], "ax": 0}], "out": [0, 0], "in_form": "int", "out_form": "int"})
    cases.append({"fn": 5, "B": 2, "leaves": [{"shape": [2, 2], "ax": 1}], "out": [0, 0], "in_form": "tuple", "out_form": "int"})
    # negative axes (counted from the end, as in jax.vmap), outputs of rank 0..3 per slice
    cases.append({"fn": 1, "B": 2, "leaves": [{"shape": [2, 3], "ax": 0}], "out": [2, 0, 1], "out_neg": [True, True, True],
                  "in_form": "tuple", "out_form": "tuple"})
    cases.append({"fn": 2, "B": 2, "leaves": [{"shape": [2, 2], "ax": 2, "neg": True}, {"shape": [2, 2], "ax": 1, "neg": True}, {"shape": [2, 2], "ax": 0}],
                  "out": [2, 1, 2], "out_neg": [True, True, False], "in_form": "tuple", "out_form": "tuple"})
    cases.append({"fn": 1, "B": 3, "leaves": [{"shape": [2, 1, 2], "ax": 3, "neg": True}], "out": [3, 0, 2], "out_neg": [True, False, True],
                  "in_form": "tuple", "out_form": "tuple"})
    nfixed = len(cases)
    while len(cases) < n:
        fid = int(rng.integers(0, 6))
        B = int(rng.integers(1, 4))
        base = [int(x) for x in rng.integers(1, 4, size=int(rng.integers(0, 4)))]

        def ax(shape, allow_none=True):
            if allow_none and rng.random() < 0.45:
                return None
            choices = list(range(len(shape) + 1))
            return choices[int(rng.integers(0, len(choices)))]
        if fid == 0:
            ax_x, ax_y = ax(base), ax(base)
            if ax_x is None and ax_y is None:
                ax_x = 0
            leaves = [{"shape": base, "ax": ax_x}, {"shape": base, "ax": ax_y}]
            out = [ax(base, False), ax([], ax_y is None)]
        elif fid == 1:
            leaves = [{"shape": base, "ax": ax(base, False)}]
            out = [ax(base, False), ax([], False), ax(base, False)]
        elif fid == 2:
            shapes = [[int(x) for x in rng.integers(1, 3, size=2)] for _ in range(3)]
            if rng.random() < 0.5:
                a = int(rng.integers(0, 3))
                leaves = [{"shape": s, "ax": a} for s in shapes]
                o = int(rng.integers(0, 3))
                out = [o, o, o]
                cases.append({"fn": 2, "B": B, "leaves": leaves, "out": out, "in_form": "int", "out_form": "int"})
                continue
            leaves = [{"shape": s, "ax": ax(s)} for s in shapes]
            if all(l["ax"] is None for l in leaves):
                leaves[0]["ax"] = 0
            out = [ax(shapes[1], False), ax(shapes[2], False), ax(shapes[0], False)]
        elif fid == 3:
            sc = [int(x) for x in rng.integers(1, 3, size=1)]
            leaves = [{"shape": base, "ax": ax(base)}, {"shape": [2], "ax": ax([2])}, {"shape": sc, "ax": ax(sc)}]
            if all(l["ax"] is None for l in leaves):
                leaves[0]["ax"] = 0
            out = [ax(base, False), ax([], leaves[2]["ax"] is None), ax(sc, leaves[2]["ax"] is None)]
        elif fid == 5:
            # (a per-leaf out_axes tuple cannot describe an output with None entries in smap:
            # its None would be read as "un-batched leaf"; only the single-int form is used, as NIFTy does)
            leaves = [{"shape": base, "ax": ax(base, False)}]
            cases.append({"fn": 5, "B": B, "leaves": leaves, "out": [0, 0], "in_form": "tuple", "out_form": "int"})
            continue
        else:
            sy = [int(x) for x in rng.integers(1, 3, size=1)]
            ay = ax(sy)
            leaves = [{"shape": base, "ax": ax(base, False)}, {"shape": sy, "ax": ay}]
            out = [ax([], ay is None), ax(sy, ay is None)]
            if ay is None and out == [None, None] and rng.random() < 0.5:
                cases.append({"fn": 4, "B": B, "leaves": leaves, "out": out, "in_form": "tuple", "out_form": "none"})
                continue
        cases.append({"fn": fid, "B": B, "leaves": leaves, "out": out, "in_form": "tuple", "out_form": "tuple"})
    # pass a part of the axes as negative numbers (the description keeps the canonical non-negative axis)
    for c in cases[nfixed:]:
        if c["in_form"] == "tuple":
            for l in c["leaves"]:
                if l["ax"] is not None and rng.random() < 0.4:
                    l["neg"] = True
        if c["out_form"] == "tuple":
            c["out_neg"] = [bool(o is not None and rng.random() < 0.5) for o in c["out"]]
    return cases


def build_map_inputs(case, rng_seed):
    rng = np.random.default_rng(rng_seed)
    arrs = []
    for l in case["leaves"]:
        shp = tuple(l["shape"]) if l["ax"] is None else ins(l["shape"], l["ax"], case["B"])
        arrs.append(rng.integers(-3, 4, size=shp).astype(np.float64))
    return arrs


def call_map(mapper, case, arrs):
    f = map_functions()[case["fn"]]
    axs = [(l["ax"] - (len(l["shape"]) + 1)) if (l.get("neg") and l["ax"] is not None) else l["ax"] for l in case["leaves"]]
    outs = list(case["out"])
    if any(case.get("out_neg", [])):
        # rank of every output leaf per slice, from the function applied to one slice
        sl = [a if l["ax"] is None else np.take(a, 0, axis=l["ax"]) for l, a in zip(case["leaves"], arrs)]
        probe = f((sl[0], sl[1]), sl[2]) if case["fn"] == 3 else f(*sl)
        ranks = [np.ndim(x) for x in leaves_of(probe)]
        outs = [(o - (r + 1)) if (neg and o is not None) else o for o, r, neg in zip(outs, ranks, case["out_neg"])]
    if case["fn"] == 3:
        # nested pytree argument and output; the axis specifications are nested TUPLES: smap is
        # jitted with in_axes / out_axes as static (hashable) arguments, dicts are rejected there
        args = ((arrs[0], arrs[1]), arrs[2])
        in_axes = ((axs[0], axs[1]), axs[2])
        out_axes = ((outs[0], outs[1]), outs[2])
    else:
        args = tuple(arrs)
        in_axes = tuple(axs)
        out_axes = tuple(outs)
    if case["fn"] == 5:
        out_axes = (None, case["out"][0], None, case["out"][1])
    if case["in_form"] == "int":
        in_axes = axs[0]
    if case["out_form"] == "int":
        out_axes = case["out"][0]
    elif case["out_form"] == "none":
        out_axes = None
    res = mapper(f, in_axes=in_axes, out_axes=out_axes)(*args)
    return [np.asarray(l) for l in leaves_of(res)]


def slices(a, axis, B):
    return [np.take(a, b, axis=axis).ravel() for b in range(B)]


def arg_coq(case, arrs):
    out = []
    for l, a in zip(case["leaves"], arrs):
        if l["ax"] is None:
            out.append("Unmapped _ %s" % zl(a.ravel()))
        else:
            out.append("Mapped _ %s" % zll(slices(a, l["ax"], case["B"])))
    return "[" + ";".join(out) + "]"


def res_coq(case, outs):
    """Observed outputs as model results; None if a shape is not what the axis specification says."""
    items = []
    for o, a in zip(case["out"], outs):
        if not is_integral(a):
            return None
        if o is None:
            items.append("Unbatched _ %s" % zl(a.ravel()))
        else:
            if a.ndim <= o or a.shape[o] != case["B"]:
                return None
            items.append("Batched _ %d%%nat %s" % (o, zll(slices(a, o, case["B"]))))
    return "[" + ";".join(items) + "]"


def out_axes_coq(case):
    return "[" + ";".join("None" if o is None else "(Some %d%%nat)" % o for o in case["out"]) + "]"


def run_map_case(case, seed):
    """Observations of vmap / smap / lmap for one case."""
    import jax
    import nifty.re as jft
    arrs = build_map_inputs(case, seed)
    obs = {"arrs": arrs}
    for name, m in (("vmap", jax.vmap), ("smap", jft.smap), ("lmap", jft.lmap)):
        try:
            obs[name] = call_map(m, case, arrs)
        except Exception as e:
            obs[name] = e
    return obs


def map_direct(case, obs):
    fails = []
    v = obs["vmap"]
    if isinstance(v, Exception):
        return fails          # not a valid vmap call: nothing to compare with
    for name in ("smap", "lmap"):
        s = obs[name]
        neg = any(l.get("neg") for l in case["leaves"]) or any(case.get("out_neg", []))
        branch = "out_axes-None" if (None in case["out"]) else ("negative-axes" if neg else "int-axes")
        if isinstance(s, Exception):
            fails.append(({"fn": name, "branch": branch}, "%s raises %s where jax.vmap returns a result (fn %d, in_axes %s, out_axes %s)" % (
                name, type(s).__name__, case["fn"], [l["ax"] for l in case["leaves"]], case["out"] if case["out_form"] != "none" else None)
                + (" (axes marked neg are passed counted from the end: in %s, out %s)" % ([bool(l.get("neg")) for l in case["leaves"]], case.get("out_neg")) if neg else ""), None))
            continue
        ok = len(s) == len(v) and all(a.shape == b.shape and np.array_equal(a, b) for a, b in zip(s, v))
        if not ok:
            k = next((i for i, (a, b) in enumerate(zip(s, v)) if a.shape != b.shape or not np.array_equal(a, b)), 0)
            fails.append(({"fn": name, "branch": branch},
                          "%s differs from jax.vmap: fn %d, in_axes %s, out_axes %s: output %d is %s, vmap gives %s" % (
                              name, case["fn"], [l["ax"] for l in case["leaves"]], case["out"] if case["out_form"] != "none" else None, k,
                              np.asarray(s[k]).tolist() if k < len(s) else None, np.asarray(v[k]).tolist())
                          + (" (axes passed counted from the end: in %s, out %s)" % ([bool(l.get("neg")) for l in case["leaves"]], case.get("out_neg")) if neg else ""), None))
    return fails


def forest_direct(trees):
    """Structure helpers on forests (tuples of equally structured pytrees): stack / unstack round-trip
    leaf by leaf (shapes incl. length-1 axes, values), map_forest = per-tree application for vmap / smap /
    lmap, mean = flat mean."""
    import jax
    import nifty.re as jft
    fails = []

    def same(a, b):
        la, lb = leaves_of(tree_numpy_any(a)), leaves_of(tree_numpy_any(b))
        return len(la) == len(lb) and all(x.shape == y.shape and np.array_equal(x, y) for x, y in zip(la, lb))

    def fail(fn, what):
        fails.append(({"fn": fn, "kind": "forest"}, what, None))
    forest = tuple(trees)
    shapes = sorted({tuple(np.shape(l)) for l in leaves_of(forest[0])})
    st = jft.stack(forest)
    if not all(np.shape(l) == (len(forest),) + np.shape(l0) for l, l0 in zip(leaves_of(tree_numpy_any(st)), leaves_of(forest[0]))):
        fail("stack", "stack(forest) does not put the trees along a new leading axis (leaf shapes %s)" % (shapes,))
    un = jft.unstack(st)
    if len(un) != len(forest) or not all(same(u, t) for u, t in zip(un, forest)):
        got = [tuple(np.shape(l)) for l in leaves_of(tree_numpy_any(un[0]))] if len(un) else None
        fail("unstack", "unstack(stack(forest)) != forest: leaf shapes %s came back as %s" % ([tuple(np.shape(l)) for l in leaves_of(forest[0])], got))
    f = lambda t: jax.tree_util.tree_map(lambda x: 2 * x + 1, t)
    want = tuple(f(t) for t in forest)
    for m in ("vmap", "smap", "lmap"):
        try:
            got = jft.map_forest(f, map=m)(forest)
            ok = len(got) == len(want) and all(same(g, w) for g, w in zip(got, want))
        except Exception as e:
            ok, got = False, repr(e)[:120]
        if not ok:
            fail("map_forest(%s)" % m, "map_forest(f, map=%r)(forest) differs from applying f to every tree (leaf shapes %s)" % (m, shapes))
    mt = jft.mean(forest)
    wantm = sum(flat(t) for t in forest) / len(forest)
    if not np.allclose(flat(tree_numpy_any(mt)), wantm, rtol=1e-13, atol=1e-13):
        fail("mean", "mean(forest) differs from the mean of the flat arrays")
    return fails


def tree_numpy_any(t):
    """NumPy copy of a pytree whose leaves may be jax arrays (keeps dict / tuple / list kinds)."""
    if hasattr(t, "tree"):
        t = t.tree
    if isinstance(t, dict):
        return {k: tree_numpy_any(v) for k, v in t.items()}
    if isinstance(t, (tuple, list)):
        return type(t)(tree_numpy_any(x) for x in t)
    return np.asarray(t)


UNITE_OPS = {0: lambda a, b: a + b, 1: lambda a, b: a - b, 2: lambda a, b: 2 * a - 3 * b, 3: lambda a, b: a * b + a}
UNITE_KEYS = ["a", "b", "c", "d", "e"]


def gen_unite_cases(rng, n):
    """Pairs of dicts with overlapping and non-overlapping keys (also disjoint / identical key sets),
    every op id (1-3 are non-commutative), plain dicts and Vector-wrapped."""
    cases = []
    for i in range(n):
        if i % 5 == 3:
            kx, ky = ["a", "c"], ["b", "d"]                     # disjoint
        elif i % 5 == 4:
            kx = ky = ["b", "c", "e"]                           # identical key sets
        else:
            kx = [k for k in UNITE_KEYS if rng.random() < 0.6] or ["a"]
            ky = [k for k in UNITE_KEYS if rng.random() < 0.6] or ["a"]
            if not set(kx) & set(ky):
                ky = ky + [kx[0]]                               # at least one overlapping key
        shapes = {k: SHAPES[int(rng.integers(0, len(SHAPES)))] for k in UNITE_KEYS}
        x = {k: rng.integers(-4, 5, size=shapes[k]).astype(np.float64) for k in kx}
        y = {k: rng.integers(-4, 5, size=shapes[k]).astype(np.float64) for k in ky}
        cases.append({"op": i % 4, "x": x, "y": y, "wrap": ["none", "both", "x", "y"][(i // 4) % 4]})
    return cases


def run_unite(case):
    import nifty.re as jft
    x, y = case["x"], case["y"]
    xa = jft.Vector(x) if case["wrap"] in ("both", "x") else x
    ya = jft.Vector(y) if case["wrap"] in ("both", "y") else y
    from nifty.re.tree_math.forest_math import unite
    r = unite(xa, ya, op=UNITE_OPS[case["op"]])
    wrapped = hasattr(r, "tree")
    return {k: np.asarray(v) for k, v in (r.tree if wrapped else r).items()}, wrapped


def unite_check(case, out):
    def al(d):
        return "[" + ";".join("(%d%%nat,%s)" % (UNITE_KEYS.index(k), zl(np.ravel(d[k]))) for k in sorted(d)) + "]"
    if not all(is_integral(v) for v in out.values()):
        return "false"
    return "chk_unite %d%%nat %s %s %s %s" % (case["op"], "[" + ";".join("%d%%nat" % i for i in range(len(UNITE_KEYS))) + "]",
                                           al(case["x"]), al(case["y"]), al(out))


def unite_direct(case, out, wrapped):
    """unite against the flat reference: key by key op(x[k], y[k]) in THIS order on overlapping keys, the
    present entry otherwise; the flat array is the concatenation over the sorted union of keys."""
    fails = []
    x, y, op = case["x"], case["y"], UNITE_OPS[case["op"]]
    keys = sorted(set(x) | set(y))
    want = {k: (op(x[k], y[k]) if (k in x and k in y) else (x[k] if k in x else y[k])) for k in keys}
    ok = sorted(out) == keys and all(out[k].shape == np.shape(want[k]) and np.array_equal(out[k], want[k]) for k in keys)
    ok = ok and np.array_equal(flat({k: out[k] for k in keys}), flat(want)) and wrapped == (case["wrap"] != "none")
    if not ok:
        k = next((k for k in keys if k not in out or not np.array_equal(out[k], want[k])), None)
        fails.append(({"fn": "unite", "kind": "structure-helper"},
                      "unite(x, y, op) with op id %d (x keys %s, y keys %s, Vector-wrapped: %s): entry %r is %s, op(x[k], y[k]) gives %s" % (
                          case["op"], sorted(x), sorted(y), case["wrap"], k,
                          None if k is None or k not in out else np.asarray(out[k]).tolist(), None if k is None else np.asarray(want[k]).tolist()), None))
    return fails


def float_map_direct(rng):
    """NIFTy's own test functions (transcendental) on random normal inputs, incl. None axes."""
    import jax
    import jax.numpy as jnp
    import nifty.re as jft
    fails = []
    g = lambda u, v: (u, jnp.exp(u @ v))
    u, v = rng.normal(size=(3,)), rng.normal(size=(3, 4))
    for name, m in (("smap", jft.smap), ("lmap", jft.lmap)):
        a = jax.vmap(g, in_axes=(None, 1), out_axes=(None, 0))(u, v)
        b = m(g, in_axes=(None, 1), out_axes=(None, 0))(u, v)
        if not all(np.allclose(x, y, rtol=1e-13, atol=1e-13) for x, y in zip(a, b)):
            fails.append(({"fn": name, "branch": "out_axes-None"}, "%s differs from vmap on g(u,v) = (u, exp(u@v))" % name, {"case": "float-g"}))
    return fails


# --------------------------------------------------------------------------------------------------

class C33(C.Check):
    prop = "C33"
    coq_dir = "C33"
    trusted_base = [
        "Coq 8.16.1 kernel (coqc, vm_compute for the correspondence evaluation); all C33 theorems are closed under the global context",
        "hand-written model coq/C33/Model.v (tied by correspondence): pytree = (tree definition, list of raveled leaves) as JAX flattens it; node kinds and dict keys are abstracted to the shape of the tree",
        "jnp.moveaxis / stacking / take semantics: arrays enter the smap model as their slices along the mapped axis",
        "intra-leaf NumPy broadcasting is not modelled (leaves of both operands have equal shapes in all generated cases)",
        "norm(ord=2): the square roots are the implementation's; compared through the square within 1e-9",
    ]
    assumptions = [
        "smap/lmap are compared after fixes/C33-1.patch (out_axes=None returns the un-batched output); on a tree without the patch the corpus case is reported as VIOLATION",
        "an output declared un-batched (out_axes None) does not depend on the mapped index (precondition of jax.vmap as well)",
        "integer-valued float64 / complex128 data of magnitude < 2^20: every operation is exact",
    ]

    def __init__(self):
        self.vec = []
        self.maps = []

    def gen(self, ctx):
        rng = ctx.rng(33)
        vec = []
        for c in ctx.corpus():
            if c.get("kind") == "vector":
                s = complex(c["s"][0], c["s"][1]) if c["complex"] else float(c["s"][0])
                vec.append((struct_from_json(c["a"]), struct_from_json(c["b"]), s, c["complex"]))
        nv = 12 if ctx.quick else 120
        for i in range(nv):
            cplx = (i % 3 == 2)
            st = gen_struct(rng)
            if i == 0:      # steered: leaves with length-1 axes next to 0-d and plain leaves
                st = ("dict", {"a": ("leaf", (3, 1)), "b": ("tuple", [("leaf", (1, 4)), ("leaf", (1,)), ("leaf", ())]), "c": ("leaf", (2, 2))})
            elif i == 1:
                st = ("list", [("leaf", (1, 1)), ("dict", {"x": ("leaf", (2, 1, 2)), "y": ("leaf", (1, 3))})])
            if st[0] == "leaf" and i % 4:
                st = ("tuple", [st, gen_struct(rng, 1)])
            a, b = fill(st, rng, cplx), fill(st, rng, cplx)
            s = float(rng.integers(-3, 4)) + (1j * float(rng.integers(-3, 4)) if cplx else 0.0)
            vec.append((a, b, s, cplx))
        maps = [c["case"] for c in ctx.corpus() if c.get("kind") == "map"]
        maps += [m for m in gen_map_cases(rng, 44 if ctx.quick else 300) if m not in maps]
        return vec, maps

    def correspondence(self, ctx, res):
        fasteval.enable_jax_cache()
        self.vec, self.maps = self.gen(ctx)
        checks, meta = [], []
        for i, (a, b, s, cplx) in enumerate(self.vec):
            try:
                for what, t in vector_checks(a, b, s, cplx):
                    meta.append({"what": what, "kind": "vector", "index": i})
                    checks.append(t)
            except Exception as e:
                res.add_broken("correspondence", "tree_math raised on a valid input", {"index": i, "error": repr(e)[:300]})
        # structure mismatch: the model refuses (None) exactly when the implementation raises
        import nifty.re as jft
        for i, (a, b, s, cplx) in enumerate(self.vec[:6]):
            c = (a, b)
            try:
                jft.Vector(a) + jft.Vector(c)
                raised = False
            except Exception:
                raised = True
            meta.append({"what": "vec-structure-mismatch", "kind": "vector", "index": i})
            checks.append("Bool.eqb (match bop cadd (Tree %s) (Tree %s) with None => true | Some _ => false end) %s" % (
                tree_coq(a), tree_coq(c), C.cbool(raised)))
        self.map_obs = []
        for k, case in enumerate(self.maps):
            obs = run_map_case(case, [ctx.seed, 33, k])
            self.map_obs.append(obs)
            args, oa = arg_coq(case, obs["arrs"]), out_axes_coq(case)
            for name in ("vmap", "smap", "lmap"):
                o = obs[name]
                meta.append({"what": name, "kind": "map", "case": case})
                if isinstance(o, Exception):
                    if name == "vmap":
                        checks.append("true")       # not a valid vmap call (not generated on purpose)
                    else:
                        checks.append("false")      # the model never raises where vmap works
                    continue
                rc = res_coq(case, o)
                fn_chk = "chk_vmap" if name == "vmap" else "chk_smap"
                checks.append("false" if rc is None else "%s %d%%nat %s %s %s" % (fn_chk, case["fn"], args, oa, rc))
        self.unite_cases = gen_unite_cases(ctx.rng(333), 24 if ctx.quick else 160)
        self.unite_obs = []
        for uc in self.unite_cases:
            try:
                out, wrapped = run_unite(uc)
                self.unite_obs.append((out, wrapped))
                t = unite_check(uc, out)
            except Exception as e:
                self.unite_obs.append(e)
                t = "false"
            meta.append({"what": "unite", "kind": "unite", "op": uc["op"]})
            checks.append(t)
        bad = fasteval.eval_bools(self.prop, "corr", HEADER, checks, jobs=3)
        hints = []
        known_branch = 0
        for i in bad:
            m = meta[i]
            detail = dict(m)
            if m["kind"] == "map" and None in m["case"]["out"]:
                known_branch += 1
            if len(res.broken) < 6:
                res.add_broken("correspondence", "tree_math/custom_map vs coq/C33/Model.v: %s" % m["what"], detail)
            hints.append(m)
        none_cases = sum(1 for c in self.maps if None in c["out"])
        res.coverage.update({
            "evaluations": len(checks),
            "distinct_nontrivial": len({json.dumps(c, sort_keys=True) for c in self.maps if c["B"] >= 2})
            + sum(1 for a, b, s, c in self.vec if len(leaves_of(a)) >= 2),
            "rule": "one evaluation = one Vector operator / tree_math function on one generated pytree pair, or one of vmap / smap / lmap on one (function, in_axes, out_axes) case; non-trivial = pytree with >= 2 leaves, map case with batch size >= 2; distinct by description",
            "samples": [self.maps[i] for i in (0, len(self.maps) // 2, len(self.maps) - 1)],
            "input_distribution": {"vector_pairs": len(self.vec), "complex_pairs": sum(1 for v in self.vec if v[3]),
                                   "map_cases": len(self.maps), "map_cases_with_None_out_axes": none_cases,
                                   "map_cases_with_None_in_axes": sum(1 for c in self.maps if any(l["ax"] is None for l in c["leaves"])),
                                   "map_cases_with_negative_in_axes": sum(1 for c in self.maps if any(l.get("neg") for l in c["leaves"])),
                                   "map_cases_with_negative_out_axes": sum(1 for c in self.maps if any(c.get("out_neg", []))),
                                   "max_output_rank": max(len(l["shape"]) + 1 for c in self.maps for l in c["leaves"]),
                                   "fn_ids": sorted({c["fn"] for c in self.maps})},
            "disagreements": len(bad),
        })
        return hints

    def oracle(self, ctx, res, hints, budget):
        n = 0
        for k, (case, obs) in enumerate(zip(self.maps, self.map_obs)):
            n += 1
            for sig, what, _ in map_direct(case, obs)[:1]:
                res.add_failing(sig, what, {"kind": "map", "case": case, "seed": [ctx.seed, 33, k]})
            if len(res.failing) >= 3:
                break
        for i, (a, b, s, cplx) in enumerate(self.vec):
            if len(res.failing) >= 3:
                break
            n += 1
            try:
                fs = vector_direct(a, b, s, cplx)
                if not fs:
                    fs = forest_direct((a, b, tree_map_np(lambda x: x + 1, a)))
            except Exception as e:
                fs = [({"fn": "exception", "kind": "vector"}, "tree_math raised on a valid input: %r" % (e,), None)]
            for sig, what, _ in fs[:1]:
                res.add_failing(sig, what, {"kind": "vector", "a": struct_to_json(a), "b": struct_to_json(b),
                                            "s": [complex(s).real, complex(s).imag], "complex": cplx})
        for k, (uc, uo) in enumerate(zip(getattr(self, "unite_cases", []), getattr(self, "unite_obs", []))):
            if len(res.failing) >= 3:
                break
            n += 1
            if isinstance(uo, Exception):
                fs = [({"fn": "unite", "kind": "structure-helper"}, "unite raised %r on two dicts / Vectors of dicts" % (uo,), None)]
            else:
                fs = unite_direct(uc, uo[0], uo[1])
            for sig, what, _ in fs[:1]:
                res.add_failing(sig, what, {"kind": "unite", "index": k, "quick": ctx.quick, "seed": ctx.seed})
        if not res.failing:
            for sig, what, inp in float_map_direct(ctx.rng(133)):
                res.add_failing(sig, what, inp)
        if budget > 1 and not res.failing:
            rng = ctx.rng(233)
            for k, case in enumerate(gen_map_cases(rng, 400)):
                n += 1
                obs = run_map_case(case, [ctx.seed, 233, k])
                fs = map_direct(case, obs)
                if fs:
                    res.add_failing(fs[0][0], fs[0][1], {"kind": "map", "case": case, "seed": [ctx.seed, 233, k]})
                    break
        res.coverage["impl_property_evaluations"] = n

    def replay(self, ctx, rp):
        inp = rp["input"]
        if inp.get("kind") == "unite":
            ctx2 = C.Ctx(self.prop, "quick" if inp.get("quick", True) else "thorough", inp.get("seed", 0))
            uc = gen_unite_cases(ctx2.rng(333), 24 if ctx2.quick else 160)[inp["index"]]
            try:
                out, wrapped = run_unite(uc)
            except Exception:
                return True
            return bool(unite_direct(uc, out, wrapped))
        if inp.get("kind") == "map":
            case = inp["case"]
            return bool(map_direct(case, run_map_case(case, inp.get("seed", [0, 33, 0]))))
        if inp.get("kind") == "vector":
            s = complex(inp["s"][0], inp["s"][1]) if inp["complex"] else inp["s"][0]
            a, b = struct_from_json(inp["a"]), struct_from_json(inp["b"])
            return bool(vector_direct(a, b, s, inp["complex"])) or bool(forest_direct((a, b, tree_map_np(lambda x: x + 1, a))))
        return bool(float_map_direct(np.random.default_rng(0)))


CHECK = C33()
