"""C01 -- Linear-operator algebra has exact matrix semantics.

Tie: translator tr/c01_tables.py (mode/capability tables -> coq/C01/Gen_Tables.v, every run) and a
hand model coq/C01/Model.v of the construction-time simplifications + correspondence: generated
expression trees are built with the real operators; capability and the dense action in every
advertised mode are compared with the model inside coqc (exact Gaussian rationals vs float64, with a
2^-30 relative closeness predicate evaluated in Coq).
Direct oracle: NumPy dense-matrix evaluation of the expression (independent of Coq)."""
import contextlib
import io
import json
import os

import numpy as np

from .. import common as C
from tr import c01_tables

MODES = [1, 2, 4, 8]
SCALARS = [1, -1, 2, -2, 0.5, 4, -0.25, 1j, -2j, 1 + 1j, 1 - 1j, 0]
DVALS = [1, -1, 2, -2, 4, 0.5, -0.5, 1 + 1j, 2j, -1j, 1 - 1j, 3]


# ---------------------------------------------------------------------------------------------
# the implementation side
# ---------------------------------------------------------------------------------------------

class World:
    """Domains and leaf operators of one configuration."""

    def __init__(self, cfg):
        import nifty.cl as ift
        self.ift = ift
        self.cfg = cfg
        if cfg == "rg":
            self.P = ift.DomainTuple.make(ift.RGSpace(4, distances=0.25))
            hart = ift.HartleyOperator(self.P)
            self.H = hart.target
            rng = np.random.default_rng(5)
            self.leafs = [
                ("P", "P", ift.MatrixProductOperator(self.P, rng.integers(-2, 3, size=(4, 4)).astype(float))),
                ("P", "P", ift.MatrixProductOperator(self.P, rng.integers(-2, 3, size=(4, 4)) + 1j * rng.integers(-1, 2, size=(4, 4)))),
                ("P", "H", hart),
                ("P", "H", ift.FFTOperator(self.P, self.H[0])),
            ]
        else:
            self.P = ift.DomainTuple.make((ift.RGSpace(2, distances=0.5), ift.UnstructuredDomain(2)))
            hart = ift.HartleyOperator(self.P, space=0)
            self.H = hart.target
            rng = np.random.default_rng(6)
            self.leafs = [
                ("P", "P", ift.MatrixProductOperator(self.P, rng.integers(-2, 3, size=(4, 4)).astype(float), flatten=True)),
                ("H", "H", ift.MatrixProductOperator(self.H, rng.integers(-2, 3, size=(4, 4)) + 1j * rng.integers(-1, 2, size=(4, 4)), flatten=True)),
                ("P", "H", hart),
            ]
        self.n = 4
        # NullOperator leaves of every type; in the Coq model all of them are the reserved leaf
        # `null_id` with capability TIMES|ADJOINT_TIMES (no matrix is passed for it: zero)
        self.nulls = set()
        for a in "PH":
            for b in "PH":
                self.nulls.add(len(self.leafs))
                self.leafs.append((a, b, ift.NullOperator(self.dom(a), self.dom(b))))

    def dom(self, t):
        return self.P if t == "P" else self.H

    def prim(self, p):
        ift = self.ift
        k = p[0]
        if k == "scal":
            return ift.ScalingOperator(self.dom(p[1]), complex(*p[2]) if p[2][1] else p[2][0],
                                       sampling_dtype=(np.float64 if p[3] else None))
        if k == "diag":
            vals = np.array([complex(*v) for v in p[2]])
            if np.all(vals.imag == 0):
                vals = vals.real
            d = self.dom(p[1])
            sd = np.float64 if p[3] else None
            if p[4] is None:
                return ift.DiagonalOperator(ift.Field.from_raw(d, vals.reshape(d.shape)), sampling_dtype=sd)
            sp = p[4]
            sub = ift.DomainTuple.make(d[sp])
            return ift.DiagonalOperator(ift.Field.from_raw(sub, vals.reshape(sub.shape)), domain=d, spaces=sp,
                                        sampling_dtype=sd)
        if k == "leaf":
            return self.leafs[p[1]][2]
        raise ValueError(k)

    def build(self, e):
        ift = self.ift
        k = e[0]
        if k == "prim":
            return self.prim(e[1])
        if k == "add":
            return self.build(e[1]) + self.build(e[2])
        if k == "sub":
            return self.build(e[1]) - self.build(e[2])
        if k == "comp":
            return self.build(e[1]) @ self.build(e[2])
        if k == "scale":
            c = complex(*e[1]) if e[1][1] else e[1][0]
            return self.build(e[2]).scale(c)
        if k == "neg":
            return -self.build(e[1])
        if k == "adj":
            return self.build(e[1]).adjoint
        if k == "inv":
            return self.build(e[1]).inverse
        if k == "sandwich":
            return ift.SandwichOperator.make(self.build(e[1]), self.build(e[2]))
        raise ValueError(k)

    def dense(self, op, mode, extra):
        """Columns of op in `mode` on the basis of its input domain + one complex vector."""
        ift = self.ift
        d = op._dom(mode)
        cols = []
        vecs = [np.eye(self.n)[j].astype(complex) for j in range(self.n)] + [extra]
        for v in vecs:
            x = ift.Field.from_raw(d, v.reshape(d.shape))
            with contextlib.redirect_stdout(io.StringIO()):     # MatrixProductOperator.apply prints a debug line
                y = op.apply(x, mode).asnumpy().reshape(-1)
            cols.append(np.asarray(y, dtype=complex))
        return cols


EXTRA = np.array([1 + 1j, 2 - 1j, -1 + 0.5j, 0.5j])


class WrongDomain(Exception):
    pass


def cplx(c):
    c = complex(c)
    return [c.real, c.imag]


def gen_expr(rng, w, depth, dt, tt, allow_sandwich):
    """Random typed expression of type dt -> tt ('P'/'H')."""
    def prim():
        choices = []
        if dt == tt:
            choices += ["scal", "scal", "diag", "diag", "diag"]
        choices += ["leaf%d" % i for i, (a, b, _) in enumerate(w.leafs) if a == dt and b == tt and i not in w.nulls]
        if rng.integers(12) == 0:      # a NullOperator now and then (it annihilates whole chains)
            choices = ["leaf%d" % i for i, (a, b, _) in enumerate(w.leafs) if a == dt and b == tt and i in w.nulls]
        if not choices:
            return None
        c = choices[int(rng.integers(len(choices)))]
        if c == "scal":
            return ["prim", ["scal", dt, cplx(SCALARS[int(rng.integers(len(SCALARS)))]), int(rng.integers(4) == 0)]]
        if c == "diag":
            sp = None
            if w.cfg == "prod" and rng.integers(3) == 0:
                sp = int(rng.integers(2))
                vals = [cplx(DVALS[int(rng.integers(len(DVALS)))]) for _ in range(2)]
            else:
                vals = [cplx(DVALS[int(rng.integers(len(DVALS)))]) for _ in range(w.n)]
            return ["prim", ["diag", dt, vals, int(rng.integers(4) == 0), sp]]
        return ["prim", ["leaf", int(c[4:])]]

    if depth == 0:
        p = prim()
        if p is not None:
            return p
        # no primitive of this type: adjoint/inverse of a leaf of the reversed type
        sub = gen_expr(rng, w, 0, tt, dt, False)
        return [["adj", "inv"][int(rng.integers(2))], sub]
    k = int(rng.integers(12))
    if k <= 1:
        return ["add", gen_expr(rng, w, depth - 1, dt, tt, allow_sandwich), gen_expr(rng, w, depth - 1, dt, tt, allow_sandwich)]
    if k == 2:
        return ["sub", gen_expr(rng, w, depth - 1, dt, tt, allow_sandwich), gen_expr(rng, w, depth - 1, dt, tt, allow_sandwich)]
    if k <= 5:
        mid = "PH"[int(rng.integers(2))]
        return ["comp", gen_expr(rng, w, depth - 1, mid, tt, allow_sandwich), gen_expr(rng, w, depth - 1, dt, mid, allow_sandwich)]
    if k == 6:
        return ["scale", cplx(SCALARS[int(rng.integers(len(SCALARS) - 1))]), gen_expr(rng, w, depth - 1, dt, tt, allow_sandwich)]
    if k == 7:
        return ["neg", gen_expr(rng, w, depth - 1, dt, tt, allow_sandwich)]
    if k == 8:
        return ["adj", gen_expr(rng, w, depth - 1, tt, dt, allow_sandwich)]
    if k == 9:
        return ["inv", gen_expr(rng, w, depth - 1, tt, dt, allow_sandwich)]
    if k == 10 and allow_sandwich and dt == tt:
        mid = "PH"[int(rng.integers(2))]
        return ["sandwich", gen_expr(rng, w, depth - 1, dt, mid, allow_sandwich), gen_expr(rng, w, depth - 1, mid, mid, allow_sandwich)]
    return gen_expr(rng, w, depth - 1, dt, tt, allow_sandwich)


def has_sandwich(e):
    return e[0] == "sandwich" or any(isinstance(x, list) and x and isinstance(x[0], str) and has_sandwich(x)
                                    for x in e[1:] if isinstance(x, list) and x and isinstance(x[0], str))


def size(e):
    return 1 + sum(size(x) for x in e[1:] if isinstance(x, list) and x and isinstance(x[0], str) and x[0] != "scal" and e[0] != "prim")


# ---------------------------------------------------------------------------------------------
# NumPy reference semantics (the direct oracle)
# ---------------------------------------------------------------------------------------------

def ref_matrix(w, e, leafmats):
    """Dense TIMES matrix of the expression by NumPy, or None if an inverse does not exist."""
    k = e[0]
    if k == "prim":
        p = e[1]
        if p[0] == "scal":
            return complex(*p[2]) * np.eye(w.n, dtype=complex)
        if p[0] == "diag":
            vals = np.array([complex(*v) for v in p[2]])
            if p[4] is not None:
                d = w.dom(p[1])
                shp = [s if i == p[4] else 1 for i, s in enumerate(d.shape)]
                vals = np.broadcast_to(vals.reshape(shp), d.shape).reshape(-1)
            return np.diag(vals)
        return leafmats[p[1]]
    sub = [ref_matrix(w, x, leafmats) for x in e[1:] if isinstance(x, list) and x and isinstance(x[0], str)]
    if any(s is None for s in sub):
        return None
    if k == "add":
        return sub[0] + sub[1]
    if k == "sub":
        return sub[0] - sub[1]
    if k == "comp":
        return sub[0] @ sub[1]
    if k == "scale":
        return complex(*e[1]) * sub[0]
    if k == "neg":
        return -sub[0]
    if k == "adj":
        return sub[0].conj().T
    if k == "inv":
        if np.linalg.cond(sub[0]) > 1e6:
            return None
        return np.linalg.inv(sub[0])
    if k == "sandwich":
        return sub[0].conj().T @ sub[1] @ sub[0]
    raise ValueError(k)


def adv_rule(w, e, leafcaps):
    """The advertised-mode rule of the property statement (a lower bound, see notes/C01.md)."""
    k = e[0]
    ct = c01_tables_cache["capTable"]
    if k == "prim":
        return 15 if e[1][0] in ("scal", "diag") else leafcaps[e[1][1]]
    sub = [adv_rule(w, x, leafcaps) for x in e[1:] if isinstance(x, list) and x and isinstance(x[0], str)]
    if k in ("add", "sub"):
        return sub[0] & sub[1] & 3
    if k == "comp":
        return sub[0] & sub[1]
    if k in ("scale", "neg"):
        return sub[0]
    if k == "adj":
        return ct[1][sub[0]]
    if k == "inv":
        return ct[2][sub[0]]
    if k == "sandwich":
        return ct[1][sub[0]] & sub[1] & sub[0]
    raise ValueError(k)


c01_tables_cache = {}


# ---------------------------------------------------------------------------------------------
# Coq literals
# ---------------------------------------------------------------------------------------------

def cqc(c):
    c = complex(c)
    return "(%s, %s)" % (C.cq(c.real).replace("%Q", ""), C.cq(c.imag).replace("%Q", ""))


def coq_prim(w, p, leafcaps):
    if p[0] == "scal":
        return "(@Scal CQA %s %s)" % (cqc(complex(*p[2])), "(Some 1%nat)" if p[3] else "None")
    if p[0] == "diag":
        vals = np.array([complex(*v) for v in p[2]])
        if p[4] is not None:
            d = w.dom(p[1])
            shp = [s if i == p[4] else 1 for i, s in enumerate(d.shape)]
            vals = np.broadcast_to(vals.reshape(shp), d.shape).reshape(-1)
        return "(@Diag CQA (vec_of %s) 0%%Z %s)" % (C.clist([cqc(v) for v in vals]), "(Some 1%nat)" if p[3] else "None")
    if p[1] in w.nulls:
        return "(null_op CQA)"
    return "(@Leaf CQA %d%%nat %d%%Z)" % (p[1], leafcaps[p[1]])


def coq_expr(w, e, leafcaps):
    k = e[0]
    if k == "prim":
        return "(@EPrim CQA %s)" % coq_prim(w, e[1], leafcaps)
    if k == "scale":
        return "(@EScale CQA %s %s)" % (cqc(complex(*e[1])), coq_expr(w, e[2], leafcaps))
    name = {"add": "EAdd", "sub": "ESub", "comp": "EComp", "neg": "ENeg", "adj": "EAdj", "inv": "EInv",
            "sandwich": "@ESandwich CQA"}[k]
    return "(%s %s)" % (name, " ".join(coq_expr(w, x, leafcaps) for x in e[1:]))


def coq_cols(cols):
    return C.clist([C.clist([cqc(v) for v in col]) for col in cols])


HEADER = ("From Coq Require Import ZArith QArith List. Import ListNotations.\n"
          "Require Import NV.C01.Gen_Tables NV.C01.Model NV.C01.Exec.\nOpen Scope Q_scope.\n")


class C01(C.Check):
    prop = "C01"
    coq_dir = "C01"
    extra_targets = ["C01/Exec.vo", "C01/ExecBlock.vo"]     # used by the cases files, not a dependency of Props.vo
    trusted_base = [
        "Coq 8.16.1 kernel; vm_compute for table theorems and the correspondence evaluation",
        "translator tr/c01_tables.py (literal class attributes of LinearOperator -> Gallina lists)",
        "hand model coq/C01/Model.v + Block.v of BlockDiagonalOperator/ SumOperator/ChainOperator/DiagonalOperator/ScalingOperator/OperatorAdapter construction and apply (tie = correspondence)",
        "library leaves (MatrixProductOperator, HartleyOperator, FFTOperator) enter as dense matrices per mode measured on the implementation (their own correctness is C02/C09)",
        "closeness predicate 2^-30 relative between exact Gaussian-rational model output and float64 implementation output",
    ]
    assumptions = [
        "all operators of one expression live on domains of equal size; BlockDiagonalOperator (apply, capability, _combine_chain, _combine_sum) is modelled in coq/C01/Block.v with all keys on one 4-pixel space; MultiDomain sums with several (domain,target) groups are covered by the direct oracle only",
        "NullOperator is the reserved leaf null_id of the model; the theorems assume that this leaf is the zero map (the implementation's NullOperator.apply is compared with zero in the correspondence)",
        "exact field arithmetic in the theorems; float rounding only enters the tolerance of the correspondence",
    ]

    def __init__(self):
        self.cases = []

    def translate(self, ctx):
        text, sha = c01_tables.translate(ctx.repo)
        C.write_if_changed(os.path.join(C.COQ, "C01", "Gen_Tables.v"), text)
        self.sha = sha

    def world(self, cfg):
        w = World(cfg)
        leafcaps = [int(l[2].capability) for l in w.leafs]
        leafmats = []
        leafmode = []
        for (a, b, op) in w.leafs:
            per = []
            for m in MODES:
                if op.capability & m:
                    per.append(w.dense(op, m, EXTRA)[:w.n])
                else:
                    per.append(None)
            leafmode.append(per)
            leafmats.append(np.array(per[0]).T)
        return w, leafcaps, leafmats, leafmode

    def run_impl(self, w, e, leafcaps, leafmats):
        """Build the expression with the real operators; capability, dense action per mode, raises."""
        o = {"expr": e, "cfg": w.cfg}
        try:
            op = w.build(e)
        except Exception as ex:  # construction must not raise for well-typed expressions
            o["build_error"] = "%s: %s" % (type(ex).__name__, str(ex)[:200])
            return o
        o["cap"] = int(op.capability)
        o["mats"] = {}
        o["raises"] = {}
        for m in MODES:
            try:
                cols = w.dense(op, m, EXTRA)
                o["mats"][m] = cols
                o["raises"][m] = None
            except NotImplementedError as ex:
                o["raises"][m] = "NotImplementedError"
            except Exception as ex:
                o["raises"][m] = "%s: %s" % (type(ex).__name__, str(ex)[:200])
        return o

    def direct(self, w, o, leafcaps, leafmats):
        """The property on the implementation against the NumPy reference; None if it holds."""
        e = o["expr"]
        if "build_error" in o:
            # inverting a singular operand (e.g. a zero scaling) has no matrix meaning: NIFTy may
            # raise ZeroDivisionError there; everything else must build
            if ref_matrix(w, e, leafmats) is None and "ZeroDivisionError" in o["build_error"]:
                return None
            return "building the expression raised " + o["build_error"]
        cap = o["cap"]
        adv = adv_rule(w, e, leafcaps)
        if adv & ~cap:
            return "capability %d lacks modes of the rule-advertised set %d" % (cap, adv)
        for m in MODES:
            r = o["raises"][m]
            if (cap & m) and r is not None:
                return "advertised mode %d raises %s" % (m, r)
            if not (cap & m) and r != "NotImplementedError":
                return "mode %d is not advertised but apply did not raise NotImplementedError" % m
        M = ref_matrix(w, e, leafmats)
        if M is None:
            return None
        refs = {1: M, 2: M.conj().T}
        if np.linalg.cond(M) < 1e6:
            Mi = np.linalg.inv(M)
            refs[4] = Mi
            refs[8] = Mi.conj().T
        for m in MODES:
            if not (cap & m) or m not in refs:
                continue
            R = refs[m]
            cols = o["mats"][m]
            got = np.array(cols[:w.n]).T
            if not np.all(np.isfinite(got)):
                continue
            scale = 1 + np.abs(R).max()
            if np.abs(got - R).max() > 1e-8 * scale:
                return "mode %d: dense action differs from the matrix expression (max abs diff %.3g)" % (m, np.abs(got - R).max())
            ex = np.array(cols[w.n])
            if np.all(np.isfinite(ex)) and np.abs(ex - R @ EXTRA).max() > 1e-8 * scale * 4:
                return "mode %d: action on a complex vector differs from the matrix expression" % m
        return None

    def templates(self, ctx):
        """Structured multi-step builds that random trees hit too rarely: a diagonal (plain,
        adjoint, inverse, with/without sampling dtype) enters a sum or a chain at every position and
        with every sign BEFORE a second diagonal / scaling is combined with the result, so that
        the absorption and merging rules of simplify() run on already simplified operands."""
        def D(vals, flag=0, wrap=None):
            e = ["prim", ["diag", "P", [cplx(v) for v in vals], flag, None]]
            return [wrap, e] if wrap else e
        def S(c, flag=0):
            return ["prim", ["scal", "P", cplx(c), flag]]
        A = ["prim", ["leaf", 0]]
        d1, d2 = [1, -2, 4, 0.5], [2, 3, -1, 1 + 1j]
        out = []
        diag_variants = [lambda v: D(v), lambda v: D(v, 0, "inv"), lambda v: D(v, 0, "adj"), lambda v: D(v, 1)]
        xs = [A, S(2), S(1j), S(-0.25, 1)]
        for i, dv1 in enumerate(diag_variants):
            for j, dv2 in enumerate(diag_variants[:3] if ctx.quick else diag_variants):
                for x in (xs[:2] if ctx.quick else xs):
                    for o1 in ("add", "sub"):
                        for o2 in ("add", "sub"):
                            out.append(("rg", [o2, [o1, x, dv1(d1)], dv2(d2)]))       # (X ± D1) ± D2
                            out.append(("rg", [o2, [o1, dv1(d1), x], dv2(d2)]))       # (D1 ± X) ± D2
                            out.append(("rg", [o2, x, [o1, dv1(d1), dv2(d2)]]))       # X ± (D1 ± D2)
                out.append(("rg", ["scale", cplx(3 if i % 2 else -0.5), ["comp", dv1(d1), dv2(d2)]]))
                out.append(("rg", ["comp", ["scale", cplx(2), A], ["comp", dv1(d1), ["scale", cplx(4), dv2(d2)]]]))
                out.append(("rg", ["inv", ["comp", dv1(d1), ["scale", cplx(-2), dv2(d2)]]]))
                out.append(("rg", ["adj", ["sub", ["comp", A, dv1(d1)], ["scale", cplx(1j), dv2(d2)]]]))
        # SandwichOperator.make (direct oracle only): scaling buns incl. complex and negative
        # factors, operator buns, nested sandwiches as cheese
        # NullOperator: collapse of chains (also of re-made flipped chains and through unpacking),
        # sums with a null summand, sandwiches with a null bun / cheese
        N = ["prim", ["leaf", 4]]          # NullOperator(P, P) in the "rg" world
        B = ["prim", ["leaf", 1]]
        for x in [A, B, D(d1), D(d1, 0, "inv"), S(2), S(1j), ["comp", A, D(d1)], ["add", A, D(d2)]]:
            out.append(("rg", ["comp", x, N]))
            out.append(("rg", ["comp", N, x]))
            out.append(("rg", ["adj", ["comp", x, N]]))
            out.append(("rg", ["comp", ["adj", N], x]))
            out.append(("rg", ["adj", ["comp", ["adj", N], x]]))          # hidden Null re-exposed by the flip
            out.append(("rg", ["inv", ["comp", ["inv", N], x]]))
            out.append(("rg", ["comp", x, ["comp", ["scale", cplx(3), N], D(d2)]]))
            out.append(("rg", ["add", x, N]))
            out.append(("rg", ["sub", N, x]))
            out.append(("rg", ["add", ["comp", x, N], D(d2)]))
            out.append(("rg", ["scale", cplx(-2), ["comp", N, x]]))
            out.append(("rg", ["sandwich", N, x]))
            out.append(("rg", ["sandwich", x, N]))
        out.append(("rg", ["neg", N]))
        out.append(("rg", ["scale", cplx(1j), N]))
        out.append(("rg", ["adj", N]))
        out.append(("rg", ["inv", N]))
        out.append(("rg", ["comp", N, N]))
        buns = [S(2), S(-2), S(1j), S(1 + 1j), S(-0.5, 1), A, ["prim", ["leaf", 1]], D(d2), D(d2, 0, "inv")]
        cheeses = [D(d1), D(d1, 1), S(4), ["sandwich", A, D(d1)], ["sandwich", S(2j), D(d1)]]
        for b in buns:
            for c in cheeses:
                out.append(("rg", ["sandwich", b, c]))
                out.append(("rg", ["add", ["sandwich", b, c], D(d2)]))
        return out

    def gen(self, ctx):
        rng = ctx.rng(1)
        n = 140 if ctx.quick else 1500
        out = []
        for i in range(n):
            cfg = "rg" if i % 3 else "prod"
            depth = int(rng.integers(1, 4 if ctx.quick else 6))
            out.append((cfg, depth, int(rng.integers(1 << 30)), i % 7 == 6))
        return out

    def correspondence(self, ctx, res):
        c01_tables_cache["capTable"] = [[int(x) for x in row] for row in __import__("nifty.cl", fromlist=["x"]).LinearOperator._capTable]
        worlds = {cfg: self.world(cfg) for cfg in ("rg", "prod")}
        self.worlds = worlds
        self.cases = []
        todo = []
        for c in ctx.corpus():
            if "expr" in c and c.get("cfg") in worlds:       # cfg multi / blockdiag: oracle only
                todo.append((c["cfg"], c["expr"]))
        todo += self.templates(ctx)
        for cfg, depth, s, sand in self.gen(ctx):
            w = worlds[cfg][0]
            rng = np.random.default_rng(s)
            dt = "PH"[int(rng.integers(2))]
            tt = "PH"[int(rng.integers(2))]
            todo.append((cfg, gen_expr(rng, w, depth, dt, tt, sand)))
        checks = []
        idx = []
        kinds = {}
        for cfg, e in todo:
            w, leafcaps, leafmats, leafmode = worlds[cfg]
            o = self.run_impl(w, e, leafcaps, leafmats)
            self.cases.append(o)
            def count(x):
                kinds[x[0]] = kinds.get(x[0], 0) + 1
                for y in x[1:]:
                    if isinstance(y, list) and y and isinstance(y[0], str) and x[0] != "prim":
                        count(y)
            count(e)
            if "build_error" in o:
                continue      # direct oracle only
            lt = C.clist([C.clist([coq_cols(np.array(per).T.tolist()) if per is not None else "[]" for per in lm])
                          for lm in leafmode])
            mats = []
            for m in MODES:
                cols = o["mats"].get(m)
                if cols is None or not np.all(np.isfinite(np.array(cols))):
                    mats.append("[]")
                else:
                    mats.append(coq_cols(cols))
            checks.append("case5 %d%%nat %s %s %d%%Z %s" % (w.n, lt, coq_expr(w, e, leafcaps), o["cap"], C.clist(mats)))
            idx.append(len(self.cases) - 1)
        hdr = HEADER + ("Definition case5 (n : nat) lt e capI mats := case_ok_x n lt %s e capI mats.\n"
                        % C.clist([cqc(v) for v in EXTRA]))
        bad = C.eval_cases(self.prop, "corr", hdr, checks, shard=60)
        for b in bad[:3]:
            o = self.cases[idx[b]]
            res.add_broken("correspondence", "operator algebra vs coq/C01/Model.v",
                           {"cfg": o["cfg"], "expr": o["expr"], "cap": o.get("cap")})
        distinct = len({json.dumps(o["expr"]) for o in self.cases if size(o["expr"]) >= 3})
        res.coverage.update({
            "evaluations": len(self.cases), "modelled_cases": len(checks),
            "distinct_nontrivial": distinct,
            "rule": "random typed expression trees (depth<=%d) over scaling/diagonal (full and partial-space, real and complex, with and without sampling dtype)/matrix/Hartley/FFT/NullOperator leaves on a 4-pixel RG space and a (RG(2),Unstructured(2)) product; non-trivial = at least 3 nodes; distinct by JSON of the tree" % (3 if ctx.quick else 5),
            "samples": [self.cases[i]["expr"] for i in range(min(3, len(self.cases)))],
            "input_distribution": kinds, "disagreements": len(bad),
            "tables_sha256": getattr(self, "sha", None),
        })
        self.block_corr(ctx, res)
        return [self.cases[idx[b]] for b in bad]

    # -----------------------------------------------------------------------------------------
    # BlockDiagonalOperator._combine_chain / _combine_sum vs coq/C01/Block.v (bd_chain / bd_sum)
    # -----------------------------------------------------------------------------------------
    BKEYS = ("a", "b", "c")

    def block_gen(self, ctx):
        """Cases: (chain?, n1, n2, e1, e2); e1/e2 = per key an expression P->P or None (missing)."""
        w = self.worlds["rg"][0]
        rng = ctx.rng(31)
        out = []
        for c in ctx.corpus():
            if c.get("cfg") == "blockcomb":
                out.append(c["case"])
        n = 48 if ctx.quick else 400
        for i in range(n):
            def side():
                return [None if rng.integers(3) == 0 else gen_expr(rng, w, int(rng.integers(0, 3)), "P", "P", False)
                        for _ in self.BKEYS]
            chain = bool(i % 2)
            out.append([chain, bool(rng.integers(2)), bool(rng.integers(2)), side(), side()])
        return out

    def block_run(self, case):
        """Run the real BlockDiagonalOperator combination; None if a block cannot be built."""
        import nifty.cl as ift
        w = self.worlds["rg"][0]
        chain, n1, n2, e1, e2 = case
        md = ift.MultiDomain.make({k: w.P for k in self.BKEYS})
        try:
            with np.errstate(all="ignore"):
                d1 = {k: w.build(e) for k, e in zip(self.BKEYS, e1) if e is not None}
                d2 = {k: w.build(e) for k, e in zip(self.BKEYS, e2) if e is not None}
        except ZeroDivisionError:
            return None
        o = {"case": case}
        try:
            with np.errstate(all="ignore"):
                B1 = ift.BlockDiagonalOperator(md, d1)
                B2 = ift.BlockDiagonalOperator(md, d2)
                r = B1._combine_chain(B2) if chain else B1._combine_sum(B2, n1, n2)
        except ZeroDivisionError:
            return None
        except Exception as ex:
            o["build_error"] = "%s: %s" % (type(ex).__name__, str(ex)[:200])
            return o
        o["cap"] = int(r.capability)
        o["pres"] = [op is not None for op in r._ops]
        o["mats"] = {}
        vecs = [np.eye(w.n)[j].astype(complex) for j in range(w.n)] + [EXTRA]
        for m in MODES:
            if not (r.capability & m):
                continue
            try:
                per = []
                for v in vecs:
                    x = ift.MultiField.from_dict({k: ift.Field.from_raw(w.P, v.reshape(w.P.shape)) for k in self.BKEYS}, md)
                    with contextlib.redirect_stdout(io.StringIO()), np.errstate(all="ignore"):
                        y = r.apply(x, m)
                    per.append([np.asarray(y[k].asnumpy().reshape(-1), dtype=complex) for k in self.BKEYS])
                o["mats"][m] = per
            except Exception as ex:
                o.setdefault("raises", {})[m] = "%s: %s" % (type(ex).__name__, str(ex)[:200])
        return o

    def block_direct(self, o):
        """The property directly: TIMES / ADJOINT_TIMES action = block-matrix product / signed sum."""
        w, leafcaps, leafmats, _ = self.worlds["rg"]
        chain, n1, n2, e1, e2 = o["case"]
        if "build_error" in o:
            return "blockdiag combine: raised " + o["build_error"]
        if o.get("raises"):
            return "blockdiag combine: advertised mode raises %s" % (o["raises"],)
        I = np.eye(w.n, dtype=complex)
        for ki in range(len(self.BKEYS)):
            M1 = I if e1[ki] is None else ref_matrix(w, e1[ki], leafmats)
            M2 = I if e2[ki] is None else ref_matrix(w, e2[ki], leafmats)
            if M1 is None or M2 is None or not (np.all(np.isfinite(M1)) and np.all(np.isfinite(M2))):
                continue
            R = M1 @ M2 if chain else (-M1 if n1 else M1) + (-M2 if n2 else M2)
            if chain and e1[ki] is None and e2[ki] is None and o["pres"][ki]:
                return "blockdiag combine: key missing in both operands is present in the chain"
            for m, Rm in ((1, R), (2, R.conj().T)):
                if m not in o["mats"]:
                    continue
                got = np.array([o["mats"][m][c][ki] for c in range(w.n)]).T
                if not np.all(np.isfinite(got)):
                    continue
                if np.abs(got - Rm).max() > 1e-8 * (1 + np.abs(Rm).max()):
                    return "blockdiag combine: %s differs from the block-matrix %s in mode %d at key %s" % (
                        "_combine_chain" if chain else "_combine_sum", "product" if chain else "sum", m, self.BKEYS[ki])
        return None

    def block_corr(self, ctx, res):
        w, leafcaps, leafmats, leafmode = self.worlds["rg"]
        self.block_cases = []
        checks, idx = [], []
        lt = C.clist([C.clist([coq_cols(np.array(per).T.tolist()) if per is not None else "[]" for per in lm])
                      for lm in leafmode])
        nchain = nsum = nmissing = 0
        for case in self.block_gen(ctx):
            o = self.block_run(case)
            if o is None:
                continue
            self.block_cases.append(o)
            if "build_error" in o:
                continue
            chain, n1, n2, e1, e2 = case
            nchain += chain
            nsum += (not chain)
            nmissing += sum(1 for a, b in zip(e1, e2) if a is None or b is None)
            def side(es):
                return C.clist(["None" if e is None else "(Some %s)" % coq_expr(w, e, leafcaps) for e in es])
            mats = []
            for m in MODES:
                per = o["mats"].get(m)
                if per is None or not all(np.all(np.isfinite(col)) for v in per for col in v):
                    mats.append("[]")
                else:
                    mats.append(C.clist([coq_cols(v) for v in per]))
            checks.append("bcase %s %s %s %s %s %d%%Z %s %s" % (
                C.cbool(chain), C.cbool(n1), C.cbool(n2), side(e1), side(e2), o["cap"],
                C.clist([C.cbool(b) for b in o["pres"]]), C.clist(mats)))
            idx.append(len(self.block_cases) - 1)
        hdr = (HEADER + "Require Import NV.C01.Block NV.C01.ExecBlock.\n"
               "Definition bcase := bd_case_ok %d%%nat %s %s.\n" % (w.n, lt, C.clist([cqc(v) for v in EXTRA])))
        bad = C.eval_cases(self.prop, "corrblk", hdr, checks, shard=30)
        for b in bad[:3]:
            o = self.block_cases[idx[b]]
            res.add_broken("correspondence", "BlockDiagonalOperator._combine_chain/_combine_sum vs coq/C01/Block.v",
                           {"cfg": "blockcomb", "case": o["case"], "cap": o.get("cap"), "pres": o.get("pres")})
        res.coverage.update({
            "block_evaluations": len(checks), "block_chain_cases": int(nchain), "block_sum_cases": int(nsum),
            "block_keys_with_missing_entry": int(nmissing), "block_disagreements": len(bad),
            "block_distinct": len({json.dumps(o["case"]) for o in self.block_cases}),
            "block_rule": "two BlockDiagonalOperators over {a,b,c}->RG(4); each key missing with probability 1/3, otherwise a random typed expression of depth<=2; alternately _combine_chain and _combine_sum with random signs; capability, present keys and the per-key action in every advertised mode are compared with bd_chain/bd_sum/bd_cap/bd_apply",
        })

    def blockdiag_oracle(self, ctx, res):
        """BlockDiagonalOperator (multi-domain; not in the Coq model): chains, sums and differences of
        two block-diagonal operators with missing keys (= identity), in all advertised modes, against
        NumPy block matrices."""
        import nifty.cl as ift
        rng = ctx.rng(31)
        d = ift.MultiDomain.make({"a": ift.RGSpace(2), "b": ift.RGSpace(3)})
        keys = list(d.keys())
        sizes = {k: d[k].size for k in keys}

        def entry(k, kind):
            n = sizes[k]
            if kind == 0:
                return None, np.eye(n)
            if kind == 1:
                c = float(rng.integers(1, 4)) * (-1) ** int(rng.integers(2))
                return ift.ScalingOperator(d[k], c), c * np.eye(n)
            v = rng.integers(1, 5, size=n).astype(float) * (-1) ** rng.integers(0, 2, size=n)
            return ift.DiagonalOperator(ift.Field.from_raw(d[k], v)), np.diag(v)

        def dense(op, mode):
            cols = []
            tot = sum(sizes.values())
            for j in range(tot):
                e = np.zeros(tot)
                e[j] = 1
                x = ift.MultiField.from_dict({"a": ift.Field.from_raw(d["a"], e[:2]), "b": ift.Field.from_raw(d["b"], e[2:])})
                y = op.apply(x, mode).asnumpy()
                cols.append(np.concatenate([y["a"], y["b"]]))
            return np.array(cols).T

        n = 0
        kinds_list = [c["kinds"] for c in ctx.corpus() if c.get("cfg") == "blockdiag"]
        kinds_list += [[[int(rng.integers(3)) for _ in keys] for _ in range(2)] for _ in range(36)]
        for kinds in kinds_list:
            ops, mats = [], []
            for kk in kinds:
                dct, blocks = {}, []
                for k, kind in zip(keys, kk):
                    o, m = entry(k, kind)
                    if o is not None:
                        dct[k] = o
                    blocks.append(m)
                ops.append(ift.BlockDiagonalOperator(d, dct))
                M = np.zeros((5, 5))
                M[:2, :2] = blocks[0]
                M[2:, 2:] = blocks[1]
                mats.append(M)
            for name, f, R in [("chain", lambda: ops[0] @ ops[1], mats[0] @ mats[1]),
                               ("sum", lambda: ops[0] + ops[1], mats[0] + mats[1]),
                               ("diff", lambda: ops[0] - ops[1], mats[0] - mats[1])]:
                n += 1
                inp = {"cfg": "blockdiag", "kinds": kinds, "combine": name, "seed": ctx.seed}
                try:
                    op = f()
                    got = dense(op, 1)
                    gotadj = dense(op, 2)
                except Exception as ex:
                    res.add_failing({"what": "block-diagonal combination raises"},
                                    "BlockDiagonalOperator %s with kinds %s raised %s: %s" % (name, kinds, type(ex).__name__, str(ex)[:100]), inp)
                    return n
                if np.abs(got - R).max() > 1e-12 or np.abs(gotadj - R.T).max() > 1e-12:
                    res.add_failing({"what": "block-diagonal combination wrong"},
                                    "BlockDiagonalOperator %s with kinds %s differs from the block matrix expression" % (name, kinds), inp)
                    return n
        return n


    # -----------------------------------------------------------------------------------------
    # MultiDomain expressions (several (domain, target) groups inside one SumOperator, block-
    # diagonal operators, null operators between sub-domains): not in the Coq model, decided on
    # the implementation against NumPy block matrices.
    # -----------------------------------------------------------------------------------------
    def multi_build(self, e):
        """expression -> (operator, dense 5x5 reference or None if an inverse does not exist).
        keys a (2 pixels) and b (3 pixels); every sub-expression is an operator between
        sub-MultiDomains, its reference is embedded into the full 5x5 matrix."""
        import nifty.cl as ift
        doms = {"a": ift.RGSpace(2), "b": ift.RGSpace(3)}
        sl = {"a": slice(0, 2), "b": slice(2, 5)}
        D = ift.MultiDomain.make(doms)
        k = e[0]

        def emb(key, m, key2=None):
            M = np.zeros((5, 5), dtype=complex)
            M[sl[key2 or key], sl[key]] = m
            return M

        if k == "atom":            # operator on one key: {key} -> {key}
            _, key, kind, vals = e
            n = doms[key].size
            if kind == "scal":
                op, m = ift.ScalingOperator(ift.DomainTuple.make(doms[key]), complex(*vals[0]) if vals[0][1] else vals[0][0]), complex(*vals[0]) * np.eye(n)
            elif kind == "diag":
                v = np.array([complex(*x) for x in vals[:n]])
                v = v.real if np.all(v.imag == 0) else v
                op, m = ift.DiagonalOperator(ift.Field.from_raw(doms[key], v)), np.diag(v)
            else:
                v = np.array([complex(*x) for x in vals[:n * n]]).reshape(n, n)
                v = v.real if np.all(v.imag == 0) else v
                op, m = ift.MatrixProductOperator(doms[key], v), v
            return op.ducktape(key).ducktape_left(key), emb(key, m)
        if k == "null":            # NullOperator {keys} -> {keys2}
            _, key, key2 = e
            return ift.NullOperator(ift.MultiDomain.make({kk: doms[kk] for kk in key}),
                                    ift.MultiDomain.make({kk: doms[kk] for kk in key2})), np.zeros((5, 5), dtype=complex)
        if k == "fscal":
            c = complex(*e[1]) if e[1][1] else e[1][0]
            return ift.ScalingOperator(D, c), complex(*e[1]) * np.eye(5)
        if k == "block":           # BlockDiagonalOperator(D, {key: operator}), a missing key = identity
            dct, M = {}, np.eye(5, dtype=complex)
            for key, sub in zip("ab", e[1]):
                if sub is None:
                    continue
                n = doms[key].size
                if sub[0] == "scal":
                    c = complex(*sub[1][0]) if sub[1][0][1] else sub[1][0][0]
                    dct[key], m = ift.ScalingOperator(ift.DomainTuple.make(doms[key]), c), complex(*sub[1][0]) * np.eye(n)
                elif sub[0] == "mat":      # a dense block: does not commute with the other block kinds
                    v = np.array([complex(*x) for x in sub[1][:n * n]]).reshape(n, n)
                    v = v.real if np.all(v.imag == 0) else v
                    dct[key], m = ift.MatrixProductOperator(doms[key], v), v
                else:
                    v = np.array([complex(*x) for x in sub[1][:n]])
                    v = v.real if np.all(v.imag == 0) else v
                    dct[key], m = ift.DiagonalOperator(ift.Field.from_raw(doms[key], v)), np.diag(v)
                M[sl[key], sl[key]] = m
            return ift.BlockDiagonalOperator(D, dct), M
        subs = [self.multi_build(x) for x in e[1:] if isinstance(x, list) and x and isinstance(x[0], str)]
        ops = [x[0] for x in subs]
        Ms = [x[1] for x in subs]
        if any(m is None for m in Ms):
            Ms = None
        if k == "sum":             # signs in e[-1]
            sg = e[-1]
            op = ops[0] if not sg[0] else -ops[0]
            for o, g in zip(ops[1:], sg[1:]):
                op = op - o if g else op + o
            return op, (None if Ms is None else sum((-m if g else m) for m, g in zip(Ms, sg)))
        if k == "comp":
            return ops[0] @ ops[1], (None if Ms is None else Ms[0] @ Ms[1])
        if k == "adj":
            return ops[0].adjoint, (None if Ms is None else Ms[0].conj().T)
        if k == "neg":
            return -ops[0], (None if Ms is None else -Ms[0])
        if k == "scale":
            c = complex(*e[1]) if e[1][1] else e[1][0]
            return ops[0].scale(c), (None if Ms is None else complex(*e[1]) * Ms[0])
        raise ValueError(k)

    def multi_gen(self, rng, depth, top=False):
        def vals(n):
            return [cplx(DVALS[int(rng.integers(len(DVALS)))]) for _ in range(n)]
        def atom(key):
            kind = ["scal", "diag", "diag", "mat"][int(rng.integers(4))]
            return ["atom", key, kind, [cplx(SCALARS[int(rng.integers(len(SCALARS)))])] if kind == "scal" else vals(9)]
        def block():
            subs = []
            for key in "ab":
                r = int(rng.integers(4))
                subs.append(None if r == 0 else (["scal", [cplx(SCALARS[int(rng.integers(len(SCALARS)))])]] if r == 1 else
                                                 ["diag", vals(3)] if r == 2 else ["mat", vals(9)]))
            return ["block", subs]
        def full_sum():
            """a SumOperator D -> D with several (domain, target) groups"""
            terms = [atom("a"), atom("b")]
            for _ in range(int(rng.integers(0, 4))):
                r = int(rng.integers(6))
                terms.append(atom("ab"[int(rng.integers(2))]) if r <= 1 else block() if r <= 3 else
                             ["fscal", cplx(SCALARS[int(rng.integers(len(SCALARS)))])] if r == 4 else
                             ["null", "ab"[int(rng.integers(2))], "ab"[int(rng.integers(2))]])
            order = rng.permutation(len(terms))
            terms = [terms[i] for i in order]
            return ["sum"] + terms + [[int(rng.integers(3) == 0) for _ in terms]]
        def partial_sum():
            """a SumOperator between sub-domains in which a NullOperator is the only summand that
            covers some key of the domain or of the target (at any position of the sum)"""
            src = ["a", "b", "ab"][int(rng.integers(3))]
            terms = [atom(k) for k in src if rng.integers(3)] or [atom(src[0])]
            terms += [atom(src[int(rng.integers(len(src)))]) for _ in range(int(rng.integers(0, 2)))]
            terms.append(["null", src, "ab"])
            if rng.integers(2):
                terms.append(["null", "ab"[int(rng.integers(2))], src[0]])
            order = rng.permutation(len(terms))
            terms = [terms[i] for i in order]
            return ["sum"] + terms + [[int(rng.integers(3) == 0) for _ in terms]]
        if top and rng.integers(5) == 0:
            e = partial_sum()
            r = int(rng.integers(4))
            return e if r == 0 else ["adj", e] if r == 1 else ["neg", e] if r == 2 else ["scale", cplx(SCALARS[int(rng.integers(len(SCALARS) - 1))]), e]
        if depth == 0:
            return full_sum() if rng.integers(4) else block()
        r = int(rng.integers(7))
        if r <= 1:
            return ["comp", self.multi_gen(rng, depth - 1), self.multi_gen(rng, depth - 1)]
        if r == 2:
            return ["adj", self.multi_gen(rng, depth - 1)]
        if r == 3:
            return ["neg", self.multi_gen(rng, depth - 1)]
        if r == 4:
            return ["scale", cplx(SCALARS[int(rng.integers(len(SCALARS) - 1))]), self.multi_gen(rng, depth - 1)]
        a, b = self.multi_gen(rng, depth - 1), self.multi_gen(rng, depth - 1)
        return ["sum", a, b, [0, int(rng.integers(2))]]

    def multi_failure(self, e):
        """None if the MultiDomain expression e acts as its block-matrix reference in the modes it advertises."""
        import nifty.cl as ift
        try:
            op, M = self.multi_build(e)
        except Exception as ex:
            return "building the MultiDomain expression raised %s: %s" % (type(ex).__name__, str(ex)[:160])
        doms = {"a": 2, "b": 3}
        off = {"a": 0, "b": 2}

        def dense(mode):
            d, t = op._dom(mode), op._tgt(mode)
            cols = np.zeros((5, 5), dtype=complex)
            for key in d.keys():
                for j in range(doms[key]):
                    x = {kk: np.zeros(doms[kk], dtype=complex) for kk in d.keys()}
                    x[key][j] = 1.
                    with contextlib.redirect_stdout(io.StringIO()):
                        yf = op.apply(ift.MultiField.from_dict({kk: ift.Field.from_raw(d[kk], v) for kk, v in x.items()}), mode)
                    if yf.domain is not t:
                        raise WrongDomain("the result lives on %s, the advertised output domain is %s" % (sorted(yf.domain.keys()), sorted(t.keys())))
                    y = yf.asnumpy()
                    for kk in t.keys():
                        cols[off[kk]:off[kk] + doms[kk], off[key] + j] = y[kk]
            return cols
        for mode, R in ((1, M), (2, None if M is None else M.conj().T)):
            if not (op.capability & mode):
                return "a sum/chain of operators that all provide mode %d does not advertise it" % mode
            try:
                got = dense(mode)
            except WrongDomain as ex:
                return "MultiDomain expression: mode %d: %s" % (mode, ex)
            except Exception as ex:
                return "MultiDomain expression: advertised mode %d raises %s: %s" % (mode, type(ex).__name__, str(ex)[:160])
            if R is not None and np.abs(got - R).max() > 1e-9 * (1 + np.abs(R).max()):
                return "MultiDomain expression: mode %d differs from the block-matrix expression (max abs diff %.3g)" % (mode, np.abs(got - R).max())
        return None

    def multi_oracle(self, ctx, res):
        rng = ctx.rng(41)
        n = 0
        todo = [c["expr"] for c in ctx.corpus() if c.get("cfg") == "multi"]
        # fixed cases: products / sums of block-diagonal operators whose blocks on the same key do
        # NOT commute (dense x dense, dense x diagonal), in both orders and under adjoint / scaling
        def V(k):
            r = np.random.default_rng(100 + k)
            return [cplx(complex(int(a), int(b))) for a, b in zip(r.integers(-2, 3, size=9), r.integers(-1, 2, size=9))]
        B1 = ["block", [["mat", V(1)], ["diag", V(2)[:3]]]]
        B2 = ["block", [["diag", V(3)[:3]], ["mat", V(4)]]]
        B3 = ["block", [["mat", V(5)], ["mat", V(6)]]]
        B4 = ["block", [["mat", V(7)], None]]
        for x, y in [(B1, B2), (B2, B1), (B3, B1), (B1, B3), (B3, B3), (B4, B3), (B3, B4)]:
            todo.append(["comp", x, y])
            todo.append(["adj", ["comp", x, y]])
            todo.append(["comp", ["scale", cplx(2), x], ["comp", y, x]])
            todo.append(["sum", ["comp", x, y], ["comp", y, x], [0, 1]])
            todo.append(["sum", x, ["sum", y, ["comp", x, y], [0, 1]], [0, 1]])      # A - (B - C)
        for i in range(60 if ctx.quick else 600):
            todo.append(self.multi_gen(rng, int(rng.integers(0, 3)), top=True))
        for e in todo:
            n += 1
            f = self.multi_failure(e)
            if f:
                res.add_failing({"what": f.split(":")[0][:60]}, f, {"cfg": "multi", "expr": e})
                break
        return n

    def oracle(self, ctx, res, hints, budget):
        nb = self.blockdiag_oracle(ctx, res)
        res.coverage["blockdiag_oracle_evaluations"] = nb
        res.coverage["multidomain_oracle_evaluations"] = self.multi_oracle(ctx, res)
        n = 0
        for o in getattr(self, "block_cases", []):
            f = self.block_direct(o)
            n += 1
            if f:
                res.add_failing(self.signature(o, f), f, {"cfg": "blockcomb", "case": o["case"]})
                break
        for o in self.cases:
            w, leafcaps, leafmats, _ = self.worlds[o["cfg"]]
            f = self.direct(w, o, leafcaps, leafmats)
            n += 1
            if f:
                res.add_failing(self.signature(o, f), f, {"cfg": o["cfg"], "expr": o["expr"]})
                if len(res.failing) >= 5:
                    break
        if budget > 1 and not res.failing:
            rng = ctx.rng(77)
            for i in range(1500):
                cfg = "rg" if i % 3 else "prod"
                w, leafcaps, leafmats, _ = self.worlds[cfg]
                e = gen_expr(rng, w, int(rng.integers(1, 5)), "PH"[int(rng.integers(2))], "PH"[int(rng.integers(2))], i % 5 == 0)
                o = self.run_impl(w, e, leafcaps, leafmats)
                n += 1
                f = self.direct(w, o, leafcaps, leafmats)
                if f:
                    res.add_failing(self.signature(o, f), f, {"cfg": cfg, "expr": e})
                    break
        res.coverage["impl_property_evaluations"] = n

    def signature(self, o, f):
        return {"what": f.split(":")[0][:60]}

    def replay(self, ctx, rp):
        c01_tables_cache["capTable"] = [[int(x) for x in row] for row in __import__("nifty.cl", fromlist=["x"]).LinearOperator._capTable]
        i = rp["input"]
        if i["cfg"] == "multi":
            return self.multi_failure(i["expr"]) is not None
        if i["cfg"] == "blockcomb":
            self.worlds = {"rg": self.world("rg")}
            o = self.block_run(i["case"])
            return o is not None and self.block_direct(o) is not None
        if i["cfg"] == "blockdiag":
            r = C.Result(self.prop, ctx.tier, int(i.get("seed", 0)))
            self.blockdiag_oracle(C.Ctx(self.prop, ctx.tier, int(i.get("seed", 0))), r)
            return bool(r.failing)
        w, leafcaps, leafmats, _ = self.world(i["cfg"])
        o = self.run_impl(w, i["expr"], leafcaps, leafmats)
        return self.direct(w, o, leafcaps, leafmats) is not None


CHECK = C01()
