"""C15 -- JAX conjugate gradients: accurate, and eager and compiled variants agree.

Tie: hand model coq/C15/Model.v (both loops, statement by statement, exact rationals) + correspondence:
`_cg` and `_static_cg` of the tree under test are run on generated small symmetric systems (HPD,
indefinite, negative definite, singular; integer entries; flat arrays and pytree-shaped vectors;
with and without x0) under generated stopping configurations whose thresholds are placed BETWEEN the
values of the exact CG trajectory (so no comparison of the path is a near-tie) and whose iteration
limits are taken from that trajectory (convergence exactly at the limit is hit on purpose).  info and
nit are compared exactly, x within 1e-9*scale, inside coqc by vm_compute.

Direct oracle (no Coq): eager == static; info = 0 => the requested criterion holds for the true
residual / energies; failure is reported for a non-positive first curvature when asked to; without
failure reporting the quadratic energy of the result is not above the start and a first direction of
negative curvature gives the steepest-descent point."""
import json
import math
import os
from fractions import Fraction as Fr

import numpy as np

from .. import common as C

EPS = 6.0 * float(np.finfo(np.float64).eps)
TINY = 6.0 * float(np.finfo(np.float64).tiny)
MARGIN = 1e-6          # relative distance every comparison of a generated case keeps from a tie
TOLX = 1e-9


# --------------------------------------------------------------------------------------------------
# exact CG trajectory (no stopping logic): only used to PLACE thresholds and limits
# --------------------------------------------------------------------------------------------------

def fdot(a, b):
    return sum((x * y for x, y in zip(a, b)), Fr(0))


def fmat(M, x):
    return [fdot(row, x) for row in M]


def trajectory(M, j, x0, kmax):
    """Exact CG recurrences.  Returns (rows, end) where rows[m-1] describes iteration m:
    curv, and for curv > 0: gamma, norm1, norm2sq, energy, ediff.  end in {'curv0','curvneg','gamma0','horizon'}."""
    n = len(j)
    if x0 is None:
        pos = [Fr(0)] * n
        r = [-v for v in j]
        en = Fr(0)
    else:
        pos = list(x0)
        r = [a - b for a, b in zip(fmat(M, pos), j)]
        en = fdot([(a - b) / 2 for a, b in zip(r, j)], pos)
    d = list(r)
    gam = fdot(r, r)
    rows = []
    start = {"gamma0": gam, "e0": en, "r0": list(r), "pos0": list(pos)}
    if gam == 0:
        return rows, "start0", start
    for m in range(1, kmax + 1):
        q = fmat(M, d)
        curv = fdot(d, q)
        if curv <= 0:
            rows.append({"curv": curv})
            return rows, ("curv0" if curv == 0 else "curvneg"), start
        alpha = gam / curv
        pos = [p - alpha * dd for p, dd in zip(pos, d)]
        r = [a - alpha * b for a, b in zip(r, q)]
        gamma = fdot(r, r)
        e2 = fdot([(a - b) / 2 for a, b in zip(r, j)], pos)
        rows.append({"curv": curv, "gamma": gamma, "norm1": sum((abs(v) for v in r), Fr(0)), "norm2sq": gamma,
                     "energy": e2, "ediff": en - e2, "pos": list(pos)})
        if gamma == 0:
            return rows, "gamma0", start
        beta = gamma / gam
        d = [dd * beta + rr for dd, rr in zip(d, r)]
        gam, en = gamma, e2
    return rows, "horizon", start


def rel_far(a, b):
    """a and b are not within MARGIN of each other (relative to the larger)."""
    a, b = float(a), float(b)
    return abs(a - b) > MARGIN * max(abs(a), abs(b), 1e-300)


# --------------------------------------------------------------------------------------------------
# case generation
# --------------------------------------------------------------------------------------------------

def gen_system(rng, kind, n):
    while True:
        if kind == "hpd":
            A = rng.integers(-2, 3, size=(n, n))
            M = A @ A.T + np.eye(n, dtype=int) * int(rng.integers(1, 3))
        elif kind == "negdef":
            A = rng.integers(-2, 3, size=(n, n))
            M = -(A @ A.T + np.eye(n, dtype=int))
        elif kind == "singular":
            A = rng.integers(-2, 3, size=(n, max(1, n - 1)))
            M = A @ A.T
        elif kind == "illcond":
            # eigenvalues spread over almost three decades, small symmetric perturbation: slow residual decay
            S = rng.integers(-1, 2, size=(n, n))
            M = np.diag(np.array([1, 9, 80, 700])[:n] * int(rng.integers(1, 3))) + np.triu(S, 1) + np.triu(S, 1).T
        elif kind == "diag":
            M = np.diag(rng.integers(-3, 6, size=n))
        else:  # indefinite
            A = rng.integers(-3, 4, size=(n, n))
            M = A + A.T
            ev = np.linalg.eigvalsh(M.astype(float))
            if not (ev.min() < -0.5 and ev.max() > 0.5):
                continue
        j = rng.integers(-3, 4, size=n)
        if not np.any(j):
            continue
        return [[int(v) for v in row] for row in M], [int(v) for v in j]


def system_horizon(M, j, x0):
    """Tie-free horizon K of a system and its trajectory (None if unusable)."""
    n = len(j)
    Mf = [[Fr(v) for v in row] for row in M]
    jf = [Fr(v) for v in j]
    xf = None if x0 is None else [Fr(v) for v in x0]
    rows, end, start = trajectory(Mf, jf, xf, n + 2)
    if end == "start0":
        return None
    scale = max(1.0, max(abs(float(v)) for row in M for v in row), max(abs(float(v)) for v in j))
    K = 0
    for m, row in enumerate(rows, 1):
        c = float(row["curv"])
        if row["curv"] == 0:
            # an exactly zero curvature is reproduced by float64 only in the first iteration (integer data)
            if m == 1:
                K = m
            break
        if abs(c) < 1e-6 * scale:
            break
        if c < 0:
            K = m
            break
        if max(abs(float(v)) for v in row["pos"]) > 1e6:
            break
        if row["gamma"] == 0:
            K = m
            break
        if float(row["gamma"]) < 1e-12 * scale ** 2 or float(row["ediff"]) < 1e-9 * max(1.0, abs(float(row["energy"]))):
            break
        K = m
    if K == 0:
        return None
    return {"rows": rows[:K], "end": end if K == len(rows) else "horizon", "start": start, "K": K}


def stop_iteration(h, kw):
    """First iteration at which the exact trajectory meets a stop of configuration kw, within the
    tie-free horizon; None if the run would leave the horizon or pass a near-tie on the way.
    (Only used to SELECT cases; the verdicts themselves come from the Coq model.)"""
    rows, K = h["rows"], h["K"]
    n = len(rows[0].get("pos", [0])) if rows and "pos" in rows[0] else None
    size = kw["_n"]
    mi = kw["miniter"]
    mx = kw["maxiter"]
    mfb = 20 * size
    if mi is None:
        mi = min(6, mx if mx is not None else mfb)
    if mx is None:
        mx = max(min(200, mfb), mi)
    thr, ad = kw["_thr"], kw["absdelta"]       # thr: effective threshold on norm (ord 1) / norm^2 (ord 2)
    if mx == 0:
        return 0
    for m, row in enumerate(rows, 1):
        if row["curv"] <= 0:
            return m
        key = "norm2sq" if kw["norm_ord"] == 2 else "norm1"
        g0 = row["gamma"] == 0
        if thr is not None and not g0 and not rel_far(row[key], thr):
            return None
        if ad is not None and not rel_far(row["ediff"], ad):
            return None
        hit_norm = thr is not None and float(row[key]) < float(thr) and m >= mi
        hit_abs = ad is not None and float(row["ediff"]) < float(ad) and m >= mi
        if g0:
            # float64 does not see gamma == 0 exactly: the run must stop here through a criterion
            if (thr is not None and float(thr) > 0 and m >= mi) or hit_abs:
                return m
            return None
        if hit_norm or hit_abs:
            return m
        if m >= mx:
            return m
    return None


def eff_thr(kw, j):
    """Effective threshold as the model computes it (norm for ord 1, squared norm for ord 2)."""
    o2 = kw["norm_ord"] == 2
    if kw["resnorm"] is not None:
        rn = Fr(kw["resnorm"])
        return (rn * rn if rn > 0 else Fr(0)) if o2 else rn
    if kw["absdelta"] is not None:
        return None
    tol, atol = Fr(kw["tol"]), Fr(kw["atol"])
    jf = [Fr(v) for v in j]
    if o2:
        return max(tol * tol * fdot(jf, jf), atol * atol if atol > 0 else Fr(0))
    return max(tol * sum((abs(v) for v in jf), Fr(0)), atol)


def between(a, b):
    """A float well between two positive numbers a > b >= 0 (geometric mean; b = 0 -> a/1000)."""
    a, b = float(a), float(b)
    if b <= 0:
        return a / 1000.0
    return math.sqrt(a * b)


def gen_configs(rng, h, M, j, x0):
    """Stopping configurations for one system, built around its exact trajectory."""
    rows, K, n = h["rows"], h["K"], len(j)
    st = h["start"]
    out = []
    base = {"absdelta": None, "resnorm": None, "norm_ord": 1, "tol": 1e-5, "atol": 0.0, "miniter": 0, "maxiter": None,
            "raise": True}
    reg = [m for m, row in enumerate(rows, 1) if row["curv"] > 0]
    nonpd = any(row["curv"] <= 0 for row in rows)
    # previous values for iteration m: m-1 (or the start)
    def prev(key, m):
        if m == 1:
            return {"norm1": sum((abs(v) for v in st["r0"]), Fr(0)), "norm2sq": st["gamma0"]}[key]
        return rows[m - 2][key]
    for m in reg:
        for o in (1, 2):
            key = "norm1" if o == 1 else "norm2sq"
            cur, prv = rows[m - 1][key], prev(key, m)
            if not prv > cur:
                continue
            t = between(prv, cur)
            rn = math.sqrt(t) if o == 2 else t
            for mx in (m, m + 1, None):
                out.append(dict(base, resnorm=rn, norm_ord=o, maxiter=mx, miniter=int(rng.integers(0, m + 1))))
            if m >= 2:
                out.append(dict(base, resnorm=rn, norm_ord=o, maxiter=m - 1))          # limit before convergence
            out.append(dict(base, resnorm=rn, norm_ord=o, miniter=m + 1, maxiter=m + 1))  # miniter forces one more
            out.append(dict(base, resnorm=rn, norm_ord=o, miniter=None, maxiter=m))
            # tol/atol fallback
            jn = sum(abs(v) for v in j) if o == 1 else math.sqrt(sum(v * v for v in j))
            out.append(dict(base, tol=rn / jn, norm_ord=o, maxiter=m + 1))
            out.append(dict(base, tol=0.0, atol=rn, norm_ord=o, maxiter=m))
        # absdelta placed just above this iteration's energy decrease
        ed = float(rows[m - 1]["ediff"])
        if ed > 0:
            out.append(dict(base, absdelta=ed * 1.7, maxiter=m + 1, miniter=0))
            out.append(dict(base, absdelta=ed * 1.7, maxiter=m, miniter=m))
            out.append(dict(base, absdelta=ed * 1.7, resnorm=float(rows[m - 1]["norm1"]) * 0.37, maxiter=m + 1))
            out.append(dict(base, absdelta=ed * 0.6, maxiter=m, miniter=0))
    # precedence of the stopping options: `absdelta` / `resnorm`, when given, switch the tol/atol fallback OFF.
    # absdelta (resp. resnorm) is placed below everything the trajectory reaches inside the horizon, tol / atol
    # so that tol*|j| (resp. atol) lies between two successive residual norms: the fallback "would fire first".
    eds = [float(rows[m - 1]["ediff"]) for m in reg if float(rows[m - 1]["ediff"]) > 0]
    for m in reg:
        for o in (1, 2):
            key = "norm1" if o == 1 else "norm2sq"
            cur, prv = rows[m - 1][key], prev(key, m)
            if not prv > cur or cur == 0:
                continue
            t = between(prv, cur)
            rn = math.sqrt(t) if o == 2 else t
            jn = sum(abs(v) for v in j) if o == 1 else math.sqrt(sum(v * v for v in j))
            later = [float(rows[q - 1][key]) for q in reg if float(rows[q - 1][key]) > 0]
            tiny_rn = 0.5 * min(later)
            tiny_rn = math.sqrt(tiny_rn) if o == 2 else tiny_rn
            for mx in (m + 1, m + 2, K):
                if eds:
                    out.append(dict(base, absdelta=0.5 * min(eds), tol=rn / jn, norm_ord=o, maxiter=mx, _prio=1))
                    out.append(dict(base, absdelta=0.5 * min(eds), tol=0.0, atol=rn, norm_ord=o, maxiter=mx, _prio=1))
                    out.append(dict(base, absdelta=0.5 * min(eds), tol=rn / jn, atol=rn, norm_ord=o, maxiter=mx, miniter=None, _prio=1))
                out.append(dict(base, resnorm=tiny_rn, tol=rn / jn, norm_ord=o, maxiter=mx, _prio=1))
                out.append(dict(base, resnorm=tiny_rn, tol=0.0, atol=rn, norm_ord=o, maxiter=mx, _prio=1))
                if eds:
                    out.append(dict(base, absdelta=0.5 * min(eds), resnorm=tiny_rn, tol=rn / jn, atol=rn, norm_ord=o, maxiter=mx, _prio=1))
    out.append(dict(base, resnorm=1e-7, maxiter=0))                                   # open finding C15-F3
    out.append(dict(base, resnorm=1e-7, maxiter=1))
    out.append(dict(base, resnorm=1e-7, maxiter=K))
    out.append(dict(base, resnorm=1e-7, norm_ord=2, maxiter=K, miniter=None))
    out.append(dict(base, absdelta=1e-9, maxiter=K))
    if nonpd:
        for c in list(out):
            out.append(dict(c, **{"raise": False}))
    res = []
    for kw in out:
        kw = dict(kw)
        kw["_n"] = n
        kw["_thr"] = eff_thr(kw, j)
        s = stop_iteration(h, kw)
        if s is None:
            continue
        kw.pop("_thr")
        kw.pop("_n")
        res.append(kw)
    return res


def _dyadic(fr, bits=30):
    d = fr.denominator
    return d & (d - 1) == 0 and abs(fr.numerator).bit_length() <= bits and d.bit_length() <= bits


def exact_termination(M, j, x0):
    """m >= 0 if the exact CG trajectory reaches a residual of exactly zero at iteration m (0: already at
    the start) AND every quantity on the way is a short dyadic rational -- then float64 computes the very
    same numbers in any evaluation order, the residual is exactly 0.0 and `gamma <= tiny` is not a tie.
    None otherwise."""
    n = len(j)
    Mf = [[Fr(v) for v in row] for row in M]
    jf = [Fr(v) for v in j]
    xf = None if x0 is None else [Fr(v) for v in x0]
    rows, end, start = trajectory(Mf, jf, xf, n + 1)
    if end == "start0":
        return 0
    if end != "gamma0":
        return None
    vals = [start["gamma0"], start["e0"]] + list(start["r0"])
    for row in rows:
        vals += [row["curv"], row["gamma"], row["energy"], row["ediff"], row["norm1"]] + list(row["pos"])
    gam = start["gamma0"]
    for row in rows:
        vals.append(gam / row["curv"])
        if row["gamma"] != 0:
            vals.append(row["gamma"] / gam)
        gam = row["gamma"]
    if not all(_dyadic(Fr(v)) for v in vals):
        return None
    return len(rows)


EXACT_LIBRARY = [
    ([[2]], [3]), ([[4]], [-1]), ([[1]], [5]), ([[8]], [2]),
    ([[2, 0], [0, 2]], [1, -3]), ([[4, 0, 0], [0, 4, 0], [0, 0, 4]], [1, 2, -1]),
    ([[1, 0, 0, 0], [0, 1, 0, 0], [0, 0, 1, 0], [0, 0, 0, 1]], [2, -1, 0, 3]),
    ([[3, 1], [1, 3]], [2, 2]), ([[3, 1], [1, 3]], [1, -1]), ([[5, 3], [3, 5]], [-2, -2]), ([[5, 3], [3, 5]], [3, -3]),
    ([[4, 0, 0], [0, 7, 0], [0, 0, 9]], [3, 0, 0]), ([[2, 0, 0], [0, 3, 1], [0, 1, 3]], [0, 1, 1]),
    ([[6, 2, 0], [2, 6, 0], [0, 0, 5]], [1, 1, 0]), ([[3, -1, 0, 0], [-1, 3, 0, 0], [0, 0, 7, 0], [0, 0, 0, 2]], [2, 2, 0, 0]),
]


def gen_exact_cases(rng, quick):
    """Systems on which CG terminates EXACTLY (operator proportional to the identity, right-hand side an
    eigenvector with a power-of-two eigenvalue, 1x1 systems, start = solution) before `miniter`."""
    systems = []
    for M, j in EXACT_LIBRARY:
        systems.append((M, j, None))
    systems.append(([[2, 0], [0, 2]], [1, -3], [0.5, -1.5]))          # start = solution: gamma0 == 0
    systems.append(([[3, 1], [1, 3]], [2, 2], [1.0, 1.0]))            # start on the eigen-line
    for _ in range(4000):
        if len(systems) >= (24 if quick else 60):
            break
        n = int(rng.integers(1, 5))
        A = rng.integers(-3, 4, size=(n, n))
        Mi = A + A.T + np.diag(rng.integers(0, 9, size=n))
        ji = rng.integers(-3, 4, size=n)
        if not np.any(ji):
            continue
        M, j = [[int(v) for v in row] for row in Mi], [int(v) for v in ji]
        m = exact_termination(M, j, None)
        if m is not None and m >= 1:
            systems.append((M, j, None))
    base = {"absdelta": None, "resnorm": None, "norm_ord": 1, "tol": 1e-5, "atol": 0.0, "miniter": None, "maxiter": None, "raise": True}
    cfgs = [dict(base), dict(base, maxiter=5), dict(base, miniter=3, maxiter=5), dict(base, miniter=4),
            dict(base, resnorm=1e-3), dict(base, resnorm=1e-3, norm_ord=2, maxiter=7), dict(base, absdelta=1e-3),
            dict(base, absdelta=1e-3, miniter=5, maxiter=6), dict(base, absdelta=1e-3, resnorm=1e-3, maxiter=4),
            dict(base, **{"raise": False}), dict(base, miniter=0, maxiter=2)]
    cases = []
    for M, j, x0 in systems:
        m = exact_termination(M, j, x0)
        if m is None:
            continue
        n = len(j)
        idx = rng.permutation(len(cfgs))[: (2 if quick else 6)]
        for i in sorted(idx):
            kw = dict(cfgs[i])
            mx = kw["maxiter"]
            if mx is not None and mx < m:
                continue
            tree = "flat" if n == 1 else ["flat", "dict", "nested"][int(rng.integers(0, 3))]
            cases.append({"M": M, "j": j, "x0": x0, "kw": kw, "tree": tree, "kind": "exact", "nreset": 20, "prec": False})
    return cases


def gen_cases(ctx, salt=15, nsys=None):
    rng = ctx.rng(salt)
    nsys = nsys or (18 if ctx.quick else 150)
    kinds = ["hpd", "indef", "negdef", "illcond", "singular", "diag", "hpd", "illcond", "indef"]
    cases = []
    tries = 0
    nsel = 0
    while nsel < nsys and tries < 40 * nsys:
        tries += 1
        kind = kinds[tries % len(kinds)]
        n = int(rng.integers(2, 5))
        M, j = gen_system(rng, kind, n)
        x0 = None
        if rng.random() < 0.4:
            x0 = [float(v) / 2 for v in rng.integers(-4, 5, size=n)]
        h = system_horizon(M, j, x0)
        if h is None:
            continue
        cfgs = gen_configs(rng, h, M, j, x0)
        if not cfgs:
            continue
        per = 6 if ctx.quick else 12
        prio = [i for i, c in enumerate(cfgs) if c.get("_prio")]
        rest = [i for i, c in enumerate(cfgs) if not c.get("_prio")]
        nprio = min(len(prio), 3 if ctx.quick else 6)
        idx = [prio[i] for i in rng.permutation(len(prio))[:nprio]] + [rest[i] for i in rng.permutation(len(rest))[:per - nprio]]
        tree = ["flat", "dict", "nested"][int(rng.integers(0, 3))]
        nreset = [20, 20, 2, 3][int(rng.integers(0, 4))]
        for i in sorted(idx):
            cases.append({"M": M, "j": j, "x0": x0, "kw": {k: v for k, v in cfgs[i].items() if not k.startswith("_")},
                          "tree": tree, "kind": kind, "nreset": nreset, "prec": bool(cfgs[i].get("_prio"))})
        nsel += 1
    return cases + gen_exact_cases(rng, ctx.quick)


# --------------------------------------------------------------------------------------------------
# implementation side
# --------------------------------------------------------------------------------------------------

def make_tree(arr, tree):
    import jax.numpy as jnp
    import nifty.re as jft
    a = jnp.asarray(arr, dtype=jnp.float64)
    n = a.shape[0]
    if tree == "flat":
        return a
    if tree == "dict":
        k = max(1, n // 2)
        return jft.Vector({"a": a[:k], "b": a[k:]})
    if n < 3:
        return jft.Vector({"a": a[:1], "b": a[1:]})
    return jft.Vector([a[0], (a[1:2],), {"c": a[2:]}])


def flatten(t):
    from jax.flatten_util import ravel_pytree
    return np.asarray(ravel_pytree(t)[0], dtype=np.float64)


def run_impl(case):
    """Run _cg and _static_cg of the tree under test.  Returns {'eager': obs, 'static': obs} with
    obs = {'failed', 'x', 'info', 'nit', 'success'}."""
    import logging
    import jax.numpy as jnp
    from jax.flatten_util import ravel_pytree
    from nifty.re import conjugate_gradient as cgm
    logging.getLogger("nifty.re.logger").setLevel(logging.CRITICAL)
    M = jnp.asarray(np.array(case["M"], dtype=np.float64))
    jt = make_tree(np.array(case["j"], dtype=np.float64), case["tree"])
    _, unravel = ravel_pytree(jt)

    def mat(x):
        return unravel(M @ ravel_pytree(x)[0])

    x0 = None if case["x0"] is None else make_tree(np.array(case["x0"], dtype=np.float64), case["tree"])
    kw = case["kw"]
    kwargs = dict(absdelta=kw["absdelta"], resnorm=kw["resnorm"], norm_ord=kw["norm_ord"], tol=kw["tol"], atol=kw["atol"],
                  miniter=kw["miniter"], maxiter=kw["maxiter"], _raise_nonposdef=kw["raise"])
    out = {}
    # N_RESET (module constant, 20) is lowered for some cases so that the residual-recomputation branch
    # is exercised on small systems; the model takes the same value
    old_nreset = cgm.N_RESET
    cgm.N_RESET = int(case.get("nreset", old_nreset))
    try:
        _run_both(cgm, mat, jt, x0, kwargs, out)
    finally:
        cgm.N_RESET = old_nreset
    return out


def _run_both(cgm, mat, jt, x0, kwargs, out):
    for name, fn in (("eager", cgm._cg), ("static", cgm._static_cg)):
        try:
            r = fn(mat, jt, x0, **kwargs)
            x = flatten(r.x)
            info, nit = int(r.info), int(r.nit)
            out[name] = {"failed": info == -1, "x": [float(v) for v in x], "info": info, "nit": nit, "success": bool(r.success)}
        except ValueError as e:
            out[name] = {"failed": True, "x": None, "info": -1, "nit": -1, "success": False, "error": str(e)[:80]}
    return out


# --------------------------------------------------------------------------------------------------
# direct oracle (property on the implementation, no Coq)
# --------------------------------------------------------------------------------------------------

def run_cases(cases, module="harness.props.c15", prop="C15", chunk=60, jobs=4, timeout=2400):
    """Run the implementation on the cases in worker subprocesses of bounded size (a long-lived process that
    compiles thousands of XLA programs runs out of memory mappings: "LLVM compilation error: Cannot allocate
    memory").  Each worker handles one slice and returns JSON; a failed worker is retried once in halves."""
    import subprocess
    import sys
    if not cases:
        return []
    d = C.run_dir(prop)
    chunk = max(1, min(chunk, -(-len(cases) // jobs)))
    nsl = -(-len(cases) // chunk)
    slices = [(k, cases[k::nsl]) for k in range(nsl)]        # strided: expensive neighbours are spread over the workers
    results = {}

    def launch(k, sl, tag):
        fin = os.path.join(d, "worker_%s_%d.in.json" % (tag, k))
        fout = os.path.join(d, "worker_%s_%d.out.json" % (tag, k))
        json.dump(sl, open(fin, "w"))
        if os.path.exists(fout):
            os.remove(fout)
        p = subprocess.Popen([sys.executable, "-m", module, "--worker", fin, fout], cwd=C.HOME,
                             stdout=subprocess.PIPE, stderr=subprocess.STDOUT, text=True)
        return p, fout

    pending = list(slices)
    running = []
    failed = []
    while pending or running:
        while pending and len(running) < jobs:
            k, sl = pending.pop(0)
            running.append((k, sl) + launch(k, sl, "a"))
        k, sl, p, fout = running.pop(0)
        try:
            out, _ = p.communicate(timeout=timeout)
        except subprocess.TimeoutExpired:
            p.kill()
            out = "[timeout]"
        if p.returncode == 0 and os.path.exists(fout):
            results[k] = json.load(open(fout))
        else:
            failed.append((k, sl, out))
    for k, sl, out in failed:                      # retry once, in halves, sequentially
        res = []
        h = max(1, len(sl) // 2)
        for q, part in ((0, sl[:h]), (1, sl[h:])):
            if not part:
                continue
            p, fout = launch(k, part, "r%d" % q)
            try:
                o2, _ = p.communicate(timeout=timeout)
            except subprocess.TimeoutExpired:
                p.kill()
                o2 = "[timeout]"
            if p.returncode != 0 or not os.path.exists(fout):
                raise C.MachineryError("implementation worker failed twice (rc %s):\n%s\n%s" % (p.returncode, out[-1500:], o2[-1500:]))
            res += json.load(open(fout))
        results[k] = res
    obs = [None] * len(cases)
    for k, sl in slices:
        if len(results[k]) != len(sl):
            raise C.MachineryError("implementation worker returned %d observations for %d cases" % (len(results[k]), len(sl)))
        obs[k::nsl] = results[k]
    return obs


def worker_main(argv, run_one):
    import jax
    cases = json.load(open(argv[0]))
    out = []
    for i, c in enumerate(cases):
        out.append(run_one(c))
        if i % 15 == 14:
            jax.clear_caches()
    json.dump(out, open(argv[1], "w"))


def energy(M, j, x):
    return 0.5 * x @ M @ x - x @ j


def direct_failures(case, obs):
    """List of (class, message) for one case; empty if the property holds on it."""
    M = np.array(case["M"], dtype=float)
    j = np.array(case["j"], dtype=float)
    n = len(j)
    kw = case["kw"]
    x0 = np.zeros(n) if case["x0"] is None else np.array(case["x0"], dtype=float)
    r0 = M @ x0 - j
    g0 = float(r0 @ r0)
    curv0 = float(r0 @ M @ r0)
    scale = max(1.0, np.abs(M).max(), np.abs(j).max(), np.abs(x0).max())
    e, s = obs["eager"], obs["static"]
    fails = []
    mx0 = kw["maxiter"] == 0
    cls = (lambda c: "maxiter=0" if mx0 else c)
    # 1. eager == static
    if e["failed"] != s["failed"]:
        fails.append((cls("eager-vs-static"), "failure verdicts differ: eager %s static %s" % (e["failed"], s["failed"])))
    elif not e["failed"]:
        xs = max(1.0, max(abs(v) for v in e["x"]))
        if e["info"] != s["info"] or e["nit"] != s["nit"]:
            fails.append((cls("eager-vs-static"), "eager (info %d, nit %d) vs static (info %d, nit %d)" % (e["info"], e["nit"], s["info"], s["nit"])))
        elif max(abs(a - b) for a, b in zip(e["x"], s["x"])) > TOLX * xs:
            fails.append((cls("eager-vs-static"), "solutions differ: eager %s static %s" % (e["x"], s["x"])))
    for name, o in (("eager", e), ("static", s)):
        if g0 == 0:
            continue
        first_nonpos = curv0 <= 0 if curv0 == 0 else curv0 < -1e-9 * scale ** 3
        # 4. failure reporting
        if kw["raise"] and first_nonpos and not mx0 and not o["failed"]:
            fails.append(("no-failure-report", "%s: non-positive first curvature %g not reported (info %d)" % (name, curv0, o["info"])))
        if o["failed"]:
            continue
        x = np.array(o["x"])
        # 3. never uphill without failure reporting; steepest descent at a negative first curvature
        if not kw["raise"]:
            if not np.all(np.isfinite(x)) or energy(M, j, x) > energy(M, j, x0) + 1e-9 * scale ** 3:
                fails.append(("uphill", "%s: energy %.6g above start %.6g" % (name, energy(M, j, x), energy(M, j, x0))))
            if curv0 < -1e-9 * scale ** 3 and not mx0:
                t = g0 / (-curv0)
                want = x0 - t * r0
                if o["info"] != 0 or o["nit"] != 1 or np.abs(x - want).max() > TOLX * max(1.0, np.abs(want).max()):
                    fails.append(("fallback", "%s: first direction has negative curvature; expected steepest descent point %s info 0 nit 1, got %s info %d nit %d"
                                  % (name, want.tolist(), x.tolist(), o["info"], o["nit"])))
        # 2. success means criterion (with failure reporting, info = 0 cannot stem from a curvature stop)
        if kw["raise"] and o["info"] == 0:
            res = M @ x - j
            ok = False
            rn = kw["resnorm"]
            if rn is None and kw["absdelta"] is None:
                jn = np.abs(j).sum() if kw["norm_ord"] == 1 else np.sqrt(j @ j)
                rn = max(kw["tol"] * jn, kw["atol"])
            mi = kw["miniter"]
            if mi is None:
                mi = min(6, kw["maxiter"] if kw["maxiter"] is not None else 20 * n)
            nr = np.abs(res).sum() if kw["norm_ord"] == 1 else np.sqrt(res @ res)
            if float(res @ res) <= 1e-24 * scale ** 2:
                ok = True
            if rn is not None and nr < rn * (1 + 1e-6) + 1e-12 * scale and o["nit"] >= mi:
                ok = True
            if not ok and kw["absdelta"] is not None and o["nit"] >= max(mi, 1):
                prev = prev_iterate(case, o["nit"] - 1)
                if prev is not None and energy(M, j, prev) - energy(M, j, x) < kw["absdelta"] * (1 + 1e-6) + 1e-13 * scale ** 3:
                    ok = True
            if not ok:
                fails.append((cls("criterion"), "%s: info 0 after %d iterations but |Mx-j| = %.3g (resnorm %s, absdelta %s, miniter %s)"
                              % (name, o["nit"], nr, rn, kw["absdelta"], mi)))
    return fails


def prev_iterate(case, k):
    """The iterate after k plain CG iterations (NumPy recurrences; used only for the energy criterion)."""
    M = np.array(case["M"], dtype=float)
    j = np.array(case["j"], dtype=float)
    x = np.zeros(len(j)) if case["x0"] is None else np.array(case["x0"], dtype=float)
    r = M @ x - j
    d = r.copy()
    g = r @ r
    for _ in range(k):
        q = M @ d
        c = d @ q
        if c <= 0:
            return None
        a = g / c
        x = x - a * d
        r = r - a * q
        g2 = r @ r
        d = d * max(0.0, g2 / g) + r
        g = g2
    return x


# --------------------------------------------------------------------------------------------------
# Coq side
# --------------------------------------------------------------------------------------------------

HEADER = ("From Coq Require Import List ZArith QArith Qcanon Bool.\nImport ListNotations.\n"
          "Require Import NV.C15.Model.\nOpen Scope Q_scope.\n")


def qlist(v):
    return C.clist([C.cq(x) for x in v])


def cfg_term(kw, nreset=20):
    return "(mkcfg %s %s %s %s %s %s %s %s %s %s %s)" % (
        C.copt(kw["absdelta"], C.cq), C.copt(kw["resnorm"], C.cq), C.cbool(kw["norm_ord"] == 2), C.cq(kw["tol"]), C.cq(kw["atol"]),
        C.copt(kw["miniter"], C.cnat), C.copt(kw["maxiter"], C.cnat), C.cbool(kw["raise"]), C.cq(EPS), C.cq(TINY), C.cnat(nreset))


def obs_args(o, n):
    ok = (not o["failed"]) and o["x"] is not None and all(math.isfinite(v) for v in o["x"])
    x = o["x"] if ok else [0.0] * n
    failed = o["failed"] or not ok
    return "%s %s %s %s" % (C.cbool(failed), qlist(x), C.cz(o["info"] if not failed else -1), C.cnat(max(o["nit"], 0)))


def check_term(case, obs):
    n = len(case["j"])
    M = C.clist([qlist(row) for row in case["M"]])
    xs = [abs(v) for o in obs.values() if o["x"] is not None for v in o["x"] if math.isfinite(v)]
    tolx = TOLX * max([1.0] + xs)
    mx = case["kw"]["maxiter"]
    fuel = (mx if mx is not None else 20 * n + 200) + 2
    return "chk %s %s %s %s %s %s %s %s %s" % (
        C.cnat(n), M, qlist(case["j"]), C.copt(case["x0"], qlist), cfg_term(case["kw"], case.get("nreset", 20)), C.cq(tolx), C.cnat(fuel),
        obs_args(obs["eager"], n), obs_args(obs["static"], n))


def case_class(case, obs):
    e = obs["eager"]
    kw = case["kw"]
    return (case["kind"], case["x0"] is not None, case["tree"], kw["norm_ord"], kw["absdelta"] is not None, kw["resnorm"] is not None,
            kw["miniter"], kw["maxiter"], kw["raise"], e["failed"], e["info"], e["nit"])


class C15(C.Check):
    prop = "C15"
    coq_dir = "C15"
    trusted_base = [
        "Coq 8.16.1 kernel (coqc; vm_compute for the correspondence evaluation); no axioms",
        "hand-written model coq/C15/Model.v of _cg/_static_cg over exact rationals (tied by correspondence on generated systems and stopping configurations, not by translation)",
        "norm_ord = 2 is modelled through squares (sqrt(g) < t <-> 0 < t and g < t^2); complex systems, time_threshold and logging are not modelled",
        "case selection uses an exact-rational replica of the plain CG recurrences to keep every comparison of the path 1e-6 (relative) away from a tie",
    ]
    assumptions = [
        "exact arithmetic in the theorems; float64 runs are compared away from near-ties only",
        "mat is linear and symmetric for the energy theorems (C15_equiv needs no assumption on mat)",
        "at least one iteration is allowed (maxiter >= 1) for equivalence and success-means-criterion (maxiter = 0: open finding C15-F3)",
    ]

    def __init__(self):
        self.cases = []
        self.obs = []

    def _run(self, cases):
        return run_cases(cases)

    def correspondence(self, ctx, res):
        corpus = [c for c in ctx.corpus()]
        for c in corpus:
            c.setdefault("tree", "flat")
            c.setdefault("kind", "corpus")
        self.cases = corpus + gen_cases(ctx)
        self.obs = self._run(self.cases)
        checks = [check_term(c, o) for c, o in zip(self.cases, self.obs)]
        bad = C.eval_cases(self.prop, "corr", HEADER, checks, shard=60)
        for i in bad[:4]:
            res.add_broken("correspondence", "_cg/_static_cg vs coq/C15/Model.v",
                           {"case": strip(self.cases[i]), "implementation": self.obs[i]})
        classes = {case_class(c, o) for c, o in zip(self.cases, self.obs)}
        nontriv = {k for k in classes if k[-1] >= 1 or k[-3]}
        dist = {}
        for c, o in zip(self.cases, self.obs):
            e = o["eager"]
            key = "%s/%s" % (c["kind"], "raised" if e["failed"] else ("info0" if e["info"] == 0 else "info>0"))
            dist[key] = dist.get(key, 0) + 1
        res.coverage.update({
            "evaluations": len(self.cases), "distinct_nontrivial": len(nontriv),
            "rule": "symmetric integer systems n=2..4 (HPD, indefinite, negative definite, ill-conditioned, singular, diagonal), x0 None or half-integers, flat/dict/nested pytrees; "
                    "systems with EXACT early termination in float64 (c*identity, eigenvector right-hand sides with power-of-two eigenvalues, 1x1, start = solution) under default/large miniter; "
                    "stopping configurations placed between values of the exact CG trajectory (resnorm ord 1/2, tol/atol fallback, absdelta, miniter incl. default, "
                    "maxiter = convergence iteration / one less / one more / default / 0, failure reporting on/off); non-trivial = at least one iteration or a reported failure; "
                    "distinct by (kind, x0?, tree, ord, absdelta?, resnorm?, miniter, maxiter, raise, verdict, info, nit)",
            "samples": [{"case": strip(c), "eager": o["eager"], "static": o["static"]} for c, o in list(zip(self.cases, self.obs))[3:6]],
            "input_distribution": dist, "disagreements": len(bad), "exhaustive": False,
            "option_precedence_cases": sum(1 for c in self.cases if c.get("prec")),
            "with_lowered_N_RESET": sum(1 for c in self.cases if c.get("nreset", 20) != 20),
            "at_iteration_limit": sum(1 for c, o in zip(self.cases, self.obs)
                                      if c["kw"]["maxiter"] is not None and o["eager"]["nit"] == c["kw"]["maxiter"] and o["eager"]["info"] == 0),
        })
        return bad

    def oracle(self, ctx, res, hints, budget):
        nev = 0
        seen = set()

        def report(case, obs):
            for cl, msg in direct_failures(case, obs):
                if (cl,) in seen and len(res.failing) > 6:
                    continue
                seen.add((cl,))
                res.add_failing({"fn": "cg", "class": cl}, msg, {"case": strip(case)})

        for c, o in zip(self.cases, self.obs):
            nev += 1
            report(c, o)
        if budget > 1 and not [f for f in res.failing if f["signature"]["class"] != "maxiter=0"]:
            extra = gen_cases(ctx, salt=1515, nsys=60)
            for c, o in zip(extra, run_cases(extra)):
                nev += 1
                report(c, o)
                if [f for f in res.failing if f["signature"]["class"] != "maxiter=0"]:
                    break
        res.coverage["impl_property_evaluations"] = nev

    def replay(self, ctx, rp):
        case = rp["input"]["case"]
        case.setdefault("tree", "flat")
        case.setdefault("kind", "replay")
        return len(direct_failures(case, run_impl(case))) > 0


def strip(case):
    return {"M": case["M"], "j": case["j"], "x0": case["x0"], "kw": case["kw"], "tree": case.get("tree", "flat"), "kind": case.get("kind", ""),
            "nreset": case.get("nreset", 20)}


CHECK = C15()

if __name__ == "__main__":
    import sys
    if len(sys.argv) >= 4 and sys.argv[1] == "--worker":
        worker_main(sys.argv[2:4], run_impl)
