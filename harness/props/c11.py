"""C11 -- Classic likelihood energies are negative log-pdfs with Fisher metrics.

Tie: translator.  tr/realexpr.py + tr/c11_spec.py regenerate coq/C11/Gen_Energies.v (per-pixel energy
E, coordinate transformation t, explicit metric M of every likelihood) from
nifty/cl/operators/energy_operators.py on every run; Props.v proves nll / gradient / pull-back /
Fisher theorems about those generated definitions.
Correspondence: sum over pixels of the generated E (independent Python rendering of the same IR)
against EnergyOperator(x).val, generated t against get_transformation()(x), generated M against the
dense metric, on generated parameters, data and points.
Direct oracle (no Coq): finite-difference gradients, E(x)-E(x') against scipy log-densities, dense
metric == J^T J of the transformation, metric == exact expectation of the score outer product over
the documented data distribution (finite sums / truncated series / Gauss-Hermite / quad), expected
pull-back for the variable-covariance Gaussian, and the scaled / model-composed / summed /
Hamiltonian versions."""
import math
import os

import numpy as np

from .. import common as C

GEN = os.path.join(C.COQ, "C11", "Gen_Energies.v")
RTOL = 1e-10


def logu(rng, lo, hi):
    return float(math.exp(rng.uniform(math.log(lo), math.log(hi))))


def close(a, b, rtol, atol=0.0):
    a, b = np.asarray(a, dtype=float), np.asarray(b, dtype=float)
    if not (np.all(np.isfinite(a)) and np.all(np.isfinite(b))):
        return False
    return bool(np.all(np.abs(a - b) <= atol + rtol * np.maximum(np.abs(a), np.abs(b))))


# ---------------------------------------------------------------------------------------------------
# real coordinates on (Multi)Fields
# ---------------------------------------------------------------------------------------------------
class Coords:
    """Real coordinate system of a DomainTuple / MultiDomain with (possibly complex) dtypes:
    complex entries contribute (re, im)."""

    def __init__(self, domain, dtypes):
        import nifty.cl as ift
        self.ift = ift
        self.domain = ift.makeDomain(domain)
        self.multi = isinstance(self.domain, ift.MultiDomain)
        keys = list(self.domain.keys()) if self.multi else [None]
        self.slots = []
        for k in keys:
            dom = self.domain[k] if self.multi else self.domain
            dt = dtypes[k] if isinstance(dtypes, dict) else dtypes
            cplx = np.issubdtype(np.dtype(dt), np.complexfloating)
            self.slots.append((k, dom, cplx, int(np.prod(dom.shape, dtype=int))))
        self.n = sum(sz * (2 if c else 1) for _, _, c, sz in self.slots)

    def to_field(self, vec):
        ift = self.ift
        out = {}
        pos = 0
        for k, dom, cplx, sz in self.slots:
            if cplx:
                v = vec[pos:pos + 2 * sz]
                arr = (v[0::2] + 1j * v[1::2]).reshape(dom.shape)
                pos += 2 * sz
            else:
                arr = np.array(vec[pos:pos + sz], dtype=float).reshape(dom.shape)
                pos += sz
            out[k] = ift.Field.from_raw(dom, arr)
        return ift.MultiField.from_dict(out, domain=self.domain) if self.multi else out[None]

    def to_vec(self, fld):
        parts = []
        for k, dom, cplx, sz in self.slots:
            a = np.asarray((fld[k] if self.multi else fld).asnumpy()).reshape(-1)
            if cplx:
                v = np.empty(2 * sz)
                v[0::2], v[1::2] = a.real, a.imag
                parts.append(v)
            else:
                if np.iscomplexobj(a):
                    if np.max(np.abs(a.imag), initial=0.0) > 1e-12 * (1 + np.max(np.abs(a.real), initial=0.0)):
                        raise ValueError("imaginary part in a real slot")
                    a = a.real
                parts.append(np.asarray(a, dtype=float))
        return np.concatenate(parts) if parts else np.zeros(0)

    def dense(self, linop, tgt):
        """Matrix of a (real-)linear operator from these coordinates to the coordinates `tgt`."""
        cols = []
        for j in range(self.n):
            e = np.zeros(self.n)
            e[j] = 1.0
            cols.append(tgt.to_vec(linop(self.to_field(e))))
        return np.array(cols).T


# ---------------------------------------------------------------------------------------------------
# instances
# ---------------------------------------------------------------------------------------------------
KINDS = ["gauss_diag", "gauss_unit", "gauss_scaling", "gauss_sandwich", "poisson", "bernoulli", "invgamma",
         "invgamma_field_alpha", "studentt", "categorical", "vcg_real", "vcg_cplx", "sgamma_real", "sgamma_cplx",
         "scaled_poisson", "model_poisson", "sum_gauss_bernoulli", "hamiltonian_poisson", "scaled_model_vcg_real",
         "cgauss", "cplx_scaling_gauss", "cplx_diag_gauss", "cplx_chain_gauss",
         # the same energies with every data dtype the constructors accept ("kind@dtype"): unsigned and
         # narrow integers (masks, detector files) and float32 data
         "gauss_diag@float32", "gauss_unit@float32"]
INT_DTYPES = ("int64", "int32", "uint8", "uint16", "uint64")
# every parenthesisation of likelihood sums (summands a: Gaussian, b: Bernoulli, c: Poisson, d: inverse gamma, each on
# its own key; "s" = some summands scaled by a ScalingOperator)
SUM_SHAPES = {"sum_left": "((a+b)+c)", "sum_right": "(a+(b+c))", "sum_balanced": "((a+b)+(c+d))", "sum_deep": "(a+(b+(c+d)))",
              "sum_scaled_right": "(2a+(3b+c))", "sum_scaled_balanced": "((a+2b)+(3c+d))", "sum_chain4": "(((a+b)+c)+d)"}
KINDS += sorted(SUM_SHAPES)
# every spelling of a dtype argument: numpy scalar type (base kinds), builtin, np.dtype object
# (strings are rejected by nifty.cl.utilities.check_dtype_or_none -- not a legal spelling)
DT_SPELL = {"builtin": (float, complex), "npdtype": (np.dtype(np.float64), np.dtype(np.complex128))}
KINDS += ["%s#%s" % (k, sp) for k in ("vcg_real", "vcg_cplx", "cgauss", "gauss_diag") for sp in sorted(DT_SPELL)]
# covariance operators handed over in lazily flipped states, alone, inside Hamiltonians and in likelihood sums
COV_STATES = ("invflag", "recip", "adjoint", "invadj", "scal_inv")
KINDS += ["gauss_%s" % c for c in COV_STATES] + ["hamiltonian_gauss_%s" % c for c in COV_STATES] \
    + ["hamiltonian_icsamp_gauss_%s" % c for c in ("invflag", "recip")] + ["sumsame_gauss_%s" % c for c in COV_STATES]
KINDS += ["%s@%s" % (k, t) for k in ("bernoulli", "poisson", "categorical") for t in INT_DTYPES[1:]]


def krng(kind, seed):
    return np.random.Generator(np.random.PCG64([int(seed), KINDS.index(kind), 1111]))


class Inst:
    """One energy instance: energy operator, a point, its coordinate system, optional log-density."""
    logp = None            # point field -> float (documented log-density of the data given the point)
    exact_pullback = True  # metric == J^T J of the transformation at every point
    expected_metric = None  # callable(point) -> dense matrix the metric has to equal (composites)


def make(kind, seed, n=3):
    import nifty.cl as ift
    import scipy.stats as st
    from nifty.cl.operators import energy_operators as eo
    rng = krng(kind, seed)
    dom = ift.UnstructuredDomain(n)
    I = Inst()
    I.kind, I.seed, I.n = kind, seed, n
    kind, _, spell = kind.partition("#")
    sp_real, sp_cplx = DT_SPELL[spell] if spell else (np.float64, np.complex128)
    kind, _, dtn = kind.partition("@")
    idt = np.dtype(dtn) if (dtn and np.issubdtype(np.dtype(dtn), np.integer)) else np.dtype(np.int64)     # integer data
    fdt = np.dtype(dtn) if (dtn and np.issubdtype(np.dtype(dtn), np.floating)) else np.dtype(np.float64)  # real data
    F = lambda a: ift.Field.from_raw(dom, np.asarray(a))
    dt = np.float64

    def finish(energy, x, dtypes=np.float64):
        I.energy, I.x = energy, x
        I.coords = Coords(energy.domain, dtypes)
        return I

    cs = [c for c in COV_STATES if kind.endswith("gauss_" + c)]
    if cs:
        # N^-1 = diag(1/var) written in different lazy states of DiagonalOperator / ScalingOperator
        c = cs[0]
        var = np.exp(rng.normal(size=n) * 0.7)
        d, x = rng.normal(size=n) * 2, rng.normal(size=n) * 2
        if c == "invflag":
            icov, ic = ift.makeOp(F(var), sampling_dtype=dt).inverse, 1 / var
        elif c == "recip":
            icov, ic = ift.makeOp(F(1 / var), sampling_dtype=dt), 1 / var
        elif c == "adjoint":
            icov, ic = ift.makeOp(F(1 / var), sampling_dtype=dt).adjoint, 1 / var
        elif c == "invadj":
            icov, ic = ift.makeOp(F(var), sampling_dtype=dt).adjoint.inverse, 1 / var
        else:
            sv = logu(rng, 0.3, 4)
            icov, ic = ift.ScalingOperator(dom, sv, sampling_dtype=dt).inverse, np.full(n, 1 / sv)
        lh = ift.GaussianEnergy(data=F(d), inverse_covariance=icov)
        I.params = {"d": d, "icov": ic}
        glogp = lambda p: float(np.sum(st.norm.logpdf(d, loc=p.asnumpy(), scale=1 / np.sqrt(ic))))
        if kind.startswith("gauss_"):
            I.logp = glogp
            I.expected_metric = lambda p: np.diag(ic)
            return finish(lh, F(x))
        if kind.startswith("hamiltonian"):
            I.logp = lambda p: glogp(p) - 0.5 * float(np.sum(p.asnumpy() ** 2))
            I.expected_metric = lambda p: np.diag(ic) + np.eye(n)
            I.is_hamiltonian = True
            kw = {"ic_samp": ift.GradientNormController(iteration_limit=5)} if "icsamp" in kind else {}
            return finish(ift.StandardHamiltonian(lh, prior_sampling_dtype=np.float64, **kw), F(x))
        # sum of two likelihoods on the SAME domain, equal sampling dtypes: metrics add
        c2 = logu(rng, 0.3, 4)
        d2 = rng.normal(size=n)
        lh2 = ift.GaussianEnergy(data=F(d2), inverse_covariance=ift.ScalingOperator(dom, c2, dt))
        I.logp = lambda p: glogp(p) + float(np.sum(st.norm.logpdf(d2, loc=p.asnumpy(), scale=1 / math.sqrt(c2))))
        I.expected_metric = lambda p: np.diag(ic) + c2 * np.eye(n)
        return finish(lh + lh2, F(x))
    if kind.startswith("gauss"):
        d = (rng.normal(size=n) * 2).astype(fdt)          # float32 data: the values ARE the float32 numbers
        x = rng.normal(size=n) * 2
        if fdt != np.float64:
            dt = fdt                                       # GaussianEnergy insists on sampling dtype == data dtype
        elif spell:
            dt = sp_real
        if kind == "gauss_diag":
            ic = np.exp(rng.normal(size=n))
            icov = ift.makeOp(F(ic), sampling_dtype=dt)
        elif kind == "gauss_unit":
            ic = np.ones(n)
            icov = None
        elif kind == "gauss_scaling":
            c = logu(rng, 0.1, 10)
            ic = np.full(n, c)
            icov = ift.ScalingOperator(dom, c, sampling_dtype=dt)
        else:
            a, c = np.exp(rng.normal(size=n) * 0.5), np.exp(rng.normal(size=n))
            ic = a * a * c
            icov = ift.SandwichOperator.make(ift.makeOp(F(a)), ift.makeOp(F(c), sampling_dtype=dt))
        I.params = {"d": d.astype(np.float64), "icov": ic}
        I.logp = lambda p: float(np.sum(st.norm.logpdf(d.astype(np.float64), loc=p.asnumpy(), scale=1 / np.sqrt(ic))))
        return finish(ift.GaussianEnergy(data=F(d), inverse_covariance=icov), F(x))
    if kind == "cgauss":
        # complex data, real diagonal precision: re and im independent with inverse variance icov each
        d = rng.normal(size=n) + 1j * rng.normal(size=n)
        x = rng.normal(size=n) + 1j * rng.normal(size=n)
        ic = np.exp(rng.normal(size=n))
        I.params = {"d": d, "icov": ic}

        def logp(p):
            v, sdev = p.asnumpy(), 1 / np.sqrt(ic)
            return float(np.sum(st.norm.logpdf(d.real, loc=v.real, scale=sdev)) + np.sum(st.norm.logpdf(d.imag, loc=v.imag, scale=sdev)))
        I.logp = logp
        return finish(ift.GaussianEnergy(data=F(d), inverse_covariance=ift.makeOp(F(ic), sampling_dtype=sp_cplx)), F(x), np.complex128)
    if kind in ("cplx_scaling_gauss", "cplx_diag_gauss", "cplx_chain_gauss"):
        # complex Gaussian energy behind a model with a COMPLEX (complex-linear) Jacobian: the metric has
        # to be J^dagger M J (dense, over real coordinates (re, im)), positive, and equal to the pull-back
        base = make("cgauss", seed, n)
        facs = [2j, -1.5j, 1 + 1j, 0.6 - 0.8j, complex(rng.normal(), rng.normal())]
        fac = facs[int(rng.integers(0, len(facs)))]
        cd = rng.normal(size=n) + 1j * rng.normal(size=n)
        if kind == "cplx_scaling_gauss":
            model = ift.ScalingOperator(dom, fac)
        elif kind == "cplx_diag_gauss":
            model = ift.makeOp(F(cd))
        else:
            model = ift.makeOp(F(cd)) @ ift.ScalingOperator(dom, fac)
        x = rng.normal(size=n) + 1j * rng.normal(size=n)
        I.params = {"factor": [fac.real, fac.imag], "diag": [cd.real.tolist(), cd.imag.tolist()]}
        I.logp = lambda p: base.logp(model(p))
        cc = Coords(dom, np.complex128)

        def em(p):
            Jg = cc.dense(model, cc)
            return Jg.T @ metric_dense_of(base.energy, model(p), base.coords) @ Jg
        I.expected_metric = em
        return finish(base.energy @ model, F(x), np.complex128)
    if kind == "poisson":
        x = np.exp(rng.normal(size=n))
        d = rng.poisson(x * 2).astype(idt)
        I.params = {"d": d.astype(np.int64)}
        I.logp = lambda p: float(np.sum(st.poisson.logpmf(d.astype(np.int64), p.asnumpy())))
        return finish(ift.PoissonianEnergy(F(d)), F(x))
    if kind == "bernoulli":
        x = rng.uniform(0.05, 0.95, size=n)
        d = (rng.uniform(size=n) < 0.5).astype(idt)
        d[0], d[1] = 0, 1                                   # both outcomes occur
        I.params = {"d": d.astype(np.int64)}
        I.logp = lambda p: float(np.sum(st.bernoulli.logpmf(d.astype(np.int64), p.asnumpy())))
        return finish(ift.BernoulliEnergy(F(d)), F(x))
    if kind in ("invgamma", "invgamma_field_alpha"):
        x = np.exp(rng.normal(size=n))
        beta = np.exp(rng.normal(size=n))
        if kind == "invgamma":
            al = float(rng.uniform(-0.5, 3))
            alpha, alv = al, np.full(n, al)
        else:
            alv = rng.uniform(-0.5, 3, size=n)
            alpha = F(alv)
        I.params = {"beta": beta, "alpha": alv}
        # as a density of the datum beta: Gamma(shape alpha+1, scale x)
        I.logp = lambda p: float(np.sum(st.gamma.logpdf(beta, a=alv + 1, scale=p.asnumpy())))
        return finish(ift.InverseGammaEnergy(F(beta), alpha), F(x))
    if kind == "studentt":
        theta = logu(rng, 0.5, 30)
        x = rng.normal(size=n) * 2
        I.params = {"theta": theta}
        I.logp = lambda p: float(np.sum(st.t.logpdf(p.asnumpy(), df=theta)))
        return finish(ift.StudentTEnergy(dom, theta), F(x))
    if kind == "categorical":
        K, rows = 3, n
        dom2 = ift.DomainTuple.make((ift.UnstructuredDomain(K), ift.UnstructuredDomain(rows)))
        p = rng.dirichlet(np.ones(K) * 2, size=rows).T          # (K, rows), columns sum to 1
        idx = rng.integers(0, K, size=rows)
        d = np.zeros((K, rows), dtype=idt)
        d[idx, np.arange(rows)] = 1
        I.params = {"d": d.astype(np.int64)}
        I.logp = lambda q: float(np.sum(np.log(q.asnumpy())[idx, np.arange(rows)]))
        I.energy = ift.CategoricalEnergy(ift.Field.from_raw(dom2, d), axis=0)
        I.x = ift.Field.from_raw(dom2, p)
        I.coords = Coords(dom2, np.float64)
        return I
    if kind in ("vcg_real", "vcg_cplx"):
        cplx = kind.endswith("cplx")
        dtp = np.complex128 if cplx else np.float64
        iv = np.exp(rng.normal(size=n) * 0.5)
        r = rng.normal(size=n) + (1j * rng.normal(size=n) if cplx else 0)
        e = ift.VariableCovarianceGaussianEnergy(dom, "r", "i", sp_cplx if cplx else sp_real)
        x = ift.MultiField.from_dict({"r": F(r.astype(dtp)), "i": F(iv)})
        I.exact_pullback = False
        I.params = {}

        def logp(p):
            rr, ii = p["r"].asnumpy(), p["i"].asnumpy()
            s = 1 / np.sqrt(ii)
            return float(np.sum(st.norm.logpdf(rr.real, scale=s)) + (np.sum(st.norm.logpdf(rr.imag, scale=s)) if cplx else 0.0))
        I.logp = logp
        return finish(e, x, {"r": dtp, "i": np.float64})
    if kind in ("sgamma_real", "sgamma_cplx"):
        cplx = kind.endswith("cplx")
        dtp = np.complex128 if cplx else np.float64
        r = (rng.normal(size=n) + (1j * rng.normal(size=n) if cplx else 0)).astype(dtp)
        iv = np.exp(rng.normal(size=n) * 0.5)
        I.params = {"r": r}

        def logp(p):
            s = 1 / np.sqrt(p.asnumpy())
            return float(np.sum(st.norm.logpdf(r.real, scale=s)) + (np.sum(st.norm.logpdf(r.imag, scale=s)) if cplx else 0.0))
        I.logp = logp
        return finish(eo._SpecialGammaEnergy(F(r)), F(iv))
    # ---- composites ---------------------------------------------------------------------------------
    if kind == "scaled_poisson":
        base = make("poisson", seed, n)
        f = logu(rng, 0.2, 5)
        I.params = {"factor": f}
        I.base, I.factor = base, f
        I.logp = lambda p: f * base.logp(p)
        I.expected_metric = lambda p: f * metric_dense_of(base.energy, p, base.coords)
        return finish(ift.ScalingOperator(base.energy.target, f) @ base.energy, base.x)
    if kind in ("model_poisson", "hamiltonian_poisson"):
        base = make("poisson", seed, n)
        a = rng.normal(size=n) * 0.5
        model = ift.makeOp(F(a)).ptw("exp")
        xi = rng.normal(size=n)
        lh = base.energy @ model
        I.params = {"a": a}
        I.logp = lambda p: base.logp(model(p))
        jg = lambda p: np.diag(a * np.exp(a * p.asnumpy()))
        if kind == "model_poisson":
            I.expected_metric = lambda p: jg(p).T @ metric_dense_of(base.energy, model(p), base.coords) @ jg(p)
            return finish(lh, F(xi))
        I.expected_metric = lambda p: jg(p).T @ metric_dense_of(base.energy, model(p), base.coords) @ jg(p) + np.eye(n)
        I.logp = lambda p: base.logp(model(p)) - 0.5 * float(np.sum(p.asnumpy() ** 2))
        I.is_hamiltonian = True
        return finish(ift.StandardHamiltonian(lh), F(xi))
    if kind == "sum_gauss_bernoulli":
        g = make("gauss_diag", seed, n)
        b = make("bernoulli", seed, n)
        lh = g.energy.ducktape("a") + b.energy.ducktape("b")
        x = ift.MultiField.from_dict({"a": g.x, "b": b.x})
        I.params = {}
        I.logp = lambda p: g.logp(p["a"]) + b.logp(p["b"])

        def em(p):
            ma, mb = metric_dense_of(g.energy, p["a"], g.coords), metric_dense_of(b.energy, p["b"], b.coords)
            z = np.zeros((n, n))
            return np.block([[ma, z], [z, mb]])
        I.expected_metric = em
        return finish(lh, x, {"a": np.float64, "b": np.float64})
    if kind in SUM_SHAPES:
        parts = {"a": make("gauss_diag", seed, n), "b": make("bernoulli", seed, n), "c": make("poisson", seed, n), "d": make("invgamma", seed, n)}
        expr = SUM_SHAPES[kind]
        fac = {}

        def parse(i):
            """recursive descent over '(' term '+' term ')' | [digit] letter; returns (operator, next index)"""
            if expr[i] == "(":
                l, i = parse(i + 1)
                assert expr[i] == "+"
                r, i = parse(i + 1)
                assert expr[i] == ")"
                return l + r, i + 1
            f = 1.0
            if expr[i].isdigit():
                f, i = float(expr[i]) + 0.5, i + 1          # 2 -> 2.5, 3 -> 3.5: not a perfect square
            k = expr[i]
            fac[k] = f
            e = parts[k].energy.ducktape(k)
            if f != 1.0:
                e = ift.ScalingOperator(e.target, f) @ e
            return e, i + 1
        lh, _ = parse(0)
        keys = sorted(fac)
        x = ift.MultiField.from_dict({k: parts[k].x for k in keys})
        I.params = {"shape": expr, "factors": fac}
        I.parts, I.fac = {k: parts[k] for k in keys}, fac
        I.logp = lambda p: sum(fac[k] * parts[k].logp(p[k]) for k in keys)

        def em(p):
            out = np.zeros((n * len(keys), n * len(keys)))
            for j, k in enumerate(keys):                  # coordinates are ordered by key
                out[j * n:(j + 1) * n, j * n:(j + 1) * n] = fac[k] * metric_dense_of(parts[k].energy, p[k], parts[k].coords)
            return out
        I.expected_metric = em
        if set(lh.domain.keys()) != set(keys):
            raise ValueError("domain of the sum %s has keys %s, expected %s" % (expr, sorted(lh.domain.keys()), keys))
        return finish(lh, x, {k: np.float64 for k in keys})
    if kind == "scaled_model_vcg_real":
        base = make("vcg_real", seed, n)
        f = logu(rng, 0.2, 5)
        I.params = {"factor": f}
        I.exact_pullback = False
        I.logp = lambda p: f * base.logp(p)
        I.expected_metric = lambda p: f * metric_dense_of(base.energy, p, base.coords)
        return finish(ift.ScalingOperator(base.energy.target, f) @ base.energy, base.x, {"r": np.float64, "i": np.float64})
    raise KeyError(kind)


def energy_value(energy, p):
    return float(np.asarray(energy(p).asnumpy()).real)


def gradient_vec(energy, p, coords):
    import nifty.cl as ift
    lin = energy(ift.Linearization.make_var(p))
    return coords.to_vec(lin.gradient)


def metric_dense_of(energy, p, coords):
    import nifty.cl as ift
    lin = energy(ift.Linearization.make_var(p, want_metric=True))
    return coords.dense(lin.metric, coords)


def trafo_jac_dense(energy, p, coords):
    import nifty.cl as ift
    dtp, t = energy.get_transformation()
    lin = t(ift.Linearization.make_var(p))
    # coordinates of the Euclidean target: taken from the dtype of the transformed point (the declared
    # sampling dtype may be None)
    tv = lin.val
    tdt = {k: tv[k].dtype for k in tv.keys()} if isinstance(tv, ift.MultiField) else tv.dtype
    tc = Coords(t.target, tdt)
    return coords.dense(lin.jac, tc), tc


# ---------------------------------------------------------------------------------------------------
# exact Fisher information of the documented data distribution, on the implementation (1 pixel)
# ---------------------------------------------------------------------------------------------------
def fisher_exact(kind, seed):
    """Returns (metric dense, exact E_d[score score^T] dense) for a one-pixel instance, or None."""
    import nifty.cl as ift
    import scipy.stats as st
    from scipy import integrate
    from nifty.cl.operators import energy_operators as eo
    rng = krng(kind, seed + 7919)
    kind, _, spell = kind.partition("#")
    sp_real, sp_cplx = DT_SPELL[spell] if spell else (np.float64, np.complex128)
    kind, _, dtn = kind.partition("@")
    idt = np.dtype(dtn) if (dtn and np.issubdtype(np.dtype(dtn), np.integer)) else np.dtype(np.int64)
    if dtn and not np.issubdtype(np.dtype(dtn), np.integer):
        return None                      # float32 data: the exact expectation is the float64 one (same code path)
    dom = ift.UnstructuredDomain(1)
    F = lambda a: ift.Field.from_raw(dom, np.asarray(a))
    gh_x, gh_w = np.polynomial.hermite_e.hermegauss(12)
    gh_w = gh_w / gh_w.sum()

    def score(energy, p, coords):
        return gradient_vec(energy, p, coords)

    if kind in ("gauss_diag", "gauss_unit", "gauss_scaling", "gauss_sandwich"):
        x, ic = float(rng.normal()), (1.0 if kind == "gauss_unit" else logu(rng, 0.1, 10))
        if kind == "gauss_unit":
            mk = lambda d: ift.GaussianEnergy(data=F([d]))
        elif kind == "gauss_scaling":
            mk = lambda d: ift.GaussianEnergy(data=F([d]), inverse_covariance=ift.ScalingOperator(dom, ic, sampling_dtype=np.float64))
        elif kind == "gauss_diag":
            mk = lambda d: ift.GaussianEnergy(data=F([d]), inverse_covariance=ift.makeOp(F([ic]), sampling_dtype=sp_real))
        else:
            a = math.sqrt(ic / 2.0)
            mk = lambda d: ift.GaussianEnergy(data=F([d]), inverse_covariance=ift.SandwichOperator.make(
                ift.makeOp(F([a])), ift.makeOp(F([2.0]), sampling_dtype=np.float64)))
        co = Coords(dom, np.float64)
        fis = sum(w * np.outer(*(2 * [score(mk(x + e / math.sqrt(ic)), F([x]), co)])) for e, w in zip(gh_x, gh_w))
        return metric_dense_of(mk(x), F([x]), co), fis
    if kind == "cgauss":
        ic, x = logu(rng, 0.1, 10), complex(rng.normal(), rng.normal())
        co = Coords(dom, np.complex128)
        mk = lambda d: ift.GaussianEnergy(data=F(np.array([d])), inverse_covariance=ift.makeOp(F([ic]), sampling_dtype=sp_cplx))
        P = F(np.array([x]))
        fis = sum(wa * wb * np.outer(*(2 * [score(mk(x + (a + 1j * b) / math.sqrt(ic)), P, co)]))
                  for a, wa in zip(gh_x, gh_w) for b, wb in zip(gh_x, gh_w))
        return metric_dense_of(mk(x), P, co), fis
    if kind == "poisson":
        x = logu(rng, 0.2, 6)
        co = Coords(dom, np.float64)
        dmax = int(x + 12 * math.sqrt(x) + 30)
        fis = sum(st.poisson.pmf(d, x) * np.outer(*(2 * [score(ift.PoissonianEnergy(F(np.array([d], dtype=idt))), F([x]), co)]))
                  for d in range(dmax + 1))
        return metric_dense_of(ift.PoissonianEnergy(F(np.array([0], dtype=idt))), F([x]), co), fis
    if kind == "bernoulli":
        x = float(rng.uniform(0.05, 0.95))
        co = Coords(dom, np.float64)
        fis = sum(pr * np.outer(*(2 * [score(ift.BernoulliEnergy(F(np.array([d], dtype=idt))), F([x]), co)]))
                  for d, pr in ((0, 1 - x), (1, x)))
        return metric_dense_of(ift.BernoulliEnergy(F(np.array([0], dtype=idt))), F([x]), co), fis
    if kind in ("invgamma", "invgamma_field_alpha"):
        x, al = logu(rng, 0.3, 3), float(rng.uniform(-0.5, 3))
        co = Coords(dom, np.float64)
        alpha = al if kind == "invgamma" else F([al])
        mk = lambda b: ift.InverseGammaEnergy(F([b]), alpha)
        dist = st.gamma(a=al + 1, scale=x)
        val, _ = integrate.quad(lambda b: dist.pdf(b) * score(mk(b), F([x]), co)[0] ** 2, 0, np.inf, epsabs=1e-12, epsrel=1e-10, limit=200)
        return metric_dense_of(mk(1.0), F([x]), co), np.array([[val]])
    if kind == "studentt":
        theta = logu(rng, 0.5, 30)
        co = Coords(dom, np.float64)
        e = ift.StudentTEnergy(dom, theta)
        dist = st.t(df=theta)
        # location family: the datum enters as the residual u = x - d
        val, _ = integrate.quad(lambda u: dist.pdf(u) * score(e, F([u]), co)[0] ** 2, -np.inf, np.inf, epsabs=1e-12, epsrel=1e-10, limit=200)
        return metric_dense_of(e, F([0.3]), co), np.array([[val]])
    if kind == "categorical":
        K = 3
        dom2 = ift.DomainTuple.make((ift.UnstructuredDomain(K), ift.UnstructuredDomain(1)))
        p = rng.dirichlet(np.ones(K) * 2).reshape(K, 1)
        co = Coords(dom2, np.float64)
        P = ift.Field.from_raw(dom2, p)

        def mk(k):
            d = np.zeros((K, 1), dtype=idt)
            d[k, 0] = 1
            return ift.CategoricalEnergy(ift.Field.from_raw(dom2, d), axis=0)
        fis = sum(p[k, 0] * np.outer(*(2 * [score(mk(k), P, co)])) for k in range(K))
        return metric_dense_of(mk(0), P, co), fis
    if kind in ("vcg_real", "vcg_cplx", "sgamma_real", "sgamma_cplx"):
        cplx = kind.endswith("cplx")
        dtp = np.complex128 if cplx else np.float64
        sdt = sp_cplx if cplx else sp_real
        iv = logu(rng, 0.3, 3)
        s = 1 / math.sqrt(iv)
        nodes = [(a * s + 1j * b * s, wa * wb) for a, wa in zip(gh_x, gh_w) for b, wb in zip(gh_x, gh_w)] if cplx \
            else [(a * s, wa) for a, wa in zip(gh_x, gh_w)]
        if kind.startswith("vcg"):
            e = ift.VariableCovarianceGaussianEnergy(dom, "r", "i", sdt)
            co = Coords(e.domain, {"r": dtp, "i": np.float64})
            pt = lambda r: ift.MultiField.from_dict({"r": F(np.array([r], dtype=dtp)), "i": F([iv])})
            fis = sum(w * np.outer(*(2 * [score(e, pt(r), co)])) for r, w in nodes)
            return metric_dense_of(e, pt(nodes[0][0]), co), fis
        co = Coords(dom, np.float64)
        fis = sum(w * np.outer(*(2 * [score(eo._SpecialGammaEnergy(F(np.array([r], dtype=dtp))), F([iv]), co)])) for r, w in nodes)
        return metric_dense_of(eo._SpecialGammaEnergy(F(np.array([nodes[0][0]], dtype=dtp))), F([iv]), co), fis
    return None


def expected_pullback(kind, seed, full_fisher=True):
    """VCG: (metric dense, E_r[J^T J]) with residuals drawn with inverse variance i (Gauss-Hermite, exact)."""
    import nifty.cl as ift
    rng = krng(kind, seed + 104729)
    kind, _, spell = kind.partition("#")
    cplx = kind.endswith("cplx")
    dtp = np.complex128 if cplx else np.float64
    sdt = (DT_SPELL[spell][1 if cplx else 0]) if spell else dtp
    dom = ift.UnstructuredDomain(1)
    F = lambda a: ift.Field.from_raw(dom, np.asarray(a))
    iv = logu(rng, 0.3, 3)
    s = 1 / math.sqrt(iv)
    gh_x, gh_w = np.polynomial.hermite_e.hermegauss(6)
    gh_w = gh_w / gh_w.sum()
    nodes = [(a * s + 1j * b * s, wa * wb) for a, wa in zip(gh_x, gh_w) for b, wb in zip(gh_x, gh_w)] if cplx \
        else [(a * s, wa) for a, wa in zip(gh_x, gh_w)]
    e = ift.VariableCovarianceGaussianEnergy(dom, "r", "i", sdt)
    co = Coords(e.domain, {"r": dtp, "i": np.float64})
    pt = lambda r: ift.MultiField.from_dict({"r": F(np.array([r], dtype=dtp)), "i": F([iv])})
    acc = 0
    for r, w in nodes:
        J, _ = trafo_jac_dense(e, pt(r), co)
        acc = acc + w * (J.T @ J)
    return metric_dense_of(e, pt(nodes[0][0]), co), acc, iv


# ---------------------------------------------------------------------------------------------------
# the direct checks on one instance
# ---------------------------------------------------------------------------------------------------
def run_instance(kind, seed):
    """Returns list of (check, detail)."""
    import nifty.cl as ift
    fails = []
    I = make(kind, seed)
    full_kind, kind = kind, kind.partition("@")[0].partition("#")[0]
    co = I.coords
    x0 = co.to_vec(I.x)
    E0 = energy_value(I.energy, I.x)
    # (a) gradient against central finite differences
    g = gradient_vec(I.energy, I.x, co)
    fd = np.zeros_like(g)
    for j in range(co.n):
        h = 1e-6 * max(1.0, abs(x0[j]))
        e = np.zeros(co.n)
        e[j] = h
        fd[j] = (energy_value(I.energy, co.to_field(x0 + e)) - energy_value(I.energy, co.to_field(x0 - e))) / (2 * h)
    if not close(g, fd, 2e-6, atol=2e-6 * (1 + np.max(np.abs(g)))):
        fails.append(("gradient", {"gradient": g.tolist(), "finite_difference": fd.tolist()}))
    # (b) E(x) - E(x') = -ln p(d|x) + ln p(d|x')
    if I.logp is not None:
        rng = krng(full_kind, seed + 31)
        x1 = co.to_field(x0 * (1 + 0.05 * rng.uniform(-1, 1, size=co.n))) if kind != "categorical" else I.x
        if kind == "categorical":
            a = I.x.asnumpy() * (1 + 0.05 * rng.uniform(-1, 1, size=I.x.shape))
            x1 = ift.Field.from_raw(I.x.domain, a / a.sum(axis=0, keepdims=True))
        lhs = E0 - energy_value(I.energy, x1)
        rhs = -(I.logp(I.x) - I.logp(x1))
        if not close(lhs, rhs, 1e-9, atol=1e-10 * (1 + abs(E0))):
            fails.append(("nll", {"E(x)-E(x')": lhs, "-(ln p(x) - ln p(x'))": rhs}))
    # (c) metric == J^T J of the transformation
    M = metric_dense_of(I.energy, I.x, co)
    if not np.allclose(M, M.T, rtol=1e-10, atol=1e-12):
        fails.append(("metric_symmetric", {"metric": M.tolist()}))
    ev = np.linalg.eigvalsh((M + M.T) / 2)
    if ev.min() < -1e-10 * max(1.0, abs(ev.max())):
        fails.append(("metric_positive", {"eigenvalues": ev.tolist()}))
    if I.exact_pullback and not getattr(I, "is_hamiltonian", False):
        J, _ = trafo_jac_dense(I.energy, I.x, co)
        P = J.T @ J
        if not close(M, P, 1e-9, atol=1e-12 * (1 + np.max(np.abs(M)))):
            fails.append(("pullback", {"metric": M.tolist(), "JtJ": P.tolist()}))
    # (f) composites: the metric is what the composition rule says
    if I.expected_metric is not None:
        X = I.expected_metric(I.x)
        if not close(M, X, 1e-9, atol=1e-12 * (1 + np.max(np.abs(M)))):
            fails.append(("composite", {"metric": M.tolist(), "expected": np.asarray(X).tolist()}))
    # (d) metric == exact Fisher information (one-pixel instance of the same kind)
    fx = fisher_exact(full_kind, seed)
    if fx is not None:
        Mf, Fi = fx
        if not close(Mf, Fi, 1e-6, atol=1e-8 * (1 + np.max(np.abs(Mf)))):
            fails.append(("fisher", {"metric": np.asarray(Mf).tolist(), "E[score score^T]": np.asarray(Fi).tolist()}))
    # (e) expected pull-back where the transformation is a local approximation
    if kind in ("vcg_real", "vcg_cplx"):
        Mv, Ev, iv = expected_pullback(full_kind, seed)
        if not close(Mv, Ev, 1e-9, atol=1e-12 * (1 + np.max(np.abs(Mv)))):
            fails.append(("expected_pullback", {"metric": Mv.tolist(), "E[JtJ]": np.asarray(Ev).tolist(), "i": iv,
                                                "ratio_ii": float(Ev[0, 0] / Mv[0, 0])}))   # coordinates are ordered by key: 'i' first
    return fails


# ---------------------------------------------------------------------------------------------------
# correspondence: generated per-pixel functions vs the implementation
# ---------------------------------------------------------------------------------------------------
def corr_cases(rend, seed, nrep):
    """Yields (name, model value(s), implementation value(s))."""
    import nifty.cl as ift
    R = rend
    for rep in range(nrep):
        s = seed * 1000 + rep
        for kind in ["gauss_diag", "gauss_unit", "gauss_scaling", "gauss_sandwich", "gauss_diag@float32", "gauss_unit@float32",
                     "gauss_diag#builtin", "gauss_diag#npdtype"] + ["gauss_%s" % c for c in COV_STATES]:
            I = make(kind, s)
            d, ic, x = I.params["d"], I.params["icov"], I.x.asnumpy()
            if kind.startswith("gauss_unit"):
                m = sum(0.5 * R["gauss_sqnorm"](R["gauss_residual"](di, xi)) for di, xi in zip(d, x))
            else:
                m = sum(R["gauss_quadform"](ci, R["gauss_residual"](di, xi)) for di, ci, xi in zip(d, ic, x))
            yield "%s energy" % kind, m, energy_value(I.energy, I.x)
            yield "%s metric (= icov)" % kind, ic, np.diag(metric_dense_of(I.energy, I.x, I.coords))
        simple = {"poisson": ("poisson_E", "poisson_t", lambda I, i: (float(I.params["d"][i]),)),
                  "bernoulli": ("bernoulli_E", "bernoulli_t", lambda I, i: (float(I.params["d"][i]),)),
                  "invgamma": ("invgamma_E", "invgamma_t", lambda I, i: (float(I.params["alpha"][i] + 1), float(I.params["beta"][i]))),
                  "invgamma_field_alpha": ("invgamma_E", "invgamma_t", lambda I, i: (float(I.params["alpha"][i] + 1), float(I.params["beta"][i]))),
                  "studentt": ("studentt_E", "studentt_t", lambda I, i: (float(I.params["theta"]),))}
        variants = [(k, k) for k in simple] + [("poisson", "poisson@" + t) for t in INT_DTYPES[1:]] \
            + [("bernoulli", "bernoulli@" + t) for t in INT_DTYPES[1:]]
        for kind, vk in variants:
            en, tn, par = simple[kind]
            I = make(vk, s)
            kind = vk
            x = I.x.asnumpy()
            yield "%s energy" % kind, sum(R[en](*(par(I, i) + (float(x[i]),))) for i in range(I.n)), energy_value(I.energy, I.x)
            _, t = I.energy.get_transformation()
            tp = [p for p in par(I, 0)]
            if kind.startswith("invgamma"):
                tv = [R[tn](par(I, i)[0], float(x[i])) for i in range(I.n)]
            elif kind == "studentt":
                tv = [R[tn](par(I, i)[0], float(x[i])) for i in range(I.n)]
            else:
                tv = [R[tn](float(x[i])) for i in range(I.n)]
            yield "%s transformation" % kind, tv, t(I.x).asnumpy()
        for ck in ["categorical"] + ["categorical@" + t for t in INT_DTYPES[1:]]:
            I = make(ck, s)
            x, d = I.x.asnumpy(), I.params["d"]
            yield "%s energy" % ck, sum(R["categorical_E"](float(d[k, j]), float(x[k, j])) for k in range(x.shape[0]) for j in range(x.shape[1])), \
                energy_value(I.energy, I.x)
            _, t = I.energy.get_transformation()
            yield "%s transformation" % ck, [[R["categorical_t"](float(v)) for v in row] for row in x], t(I.x).asnumpy()
        # StandardHamiltonian / same-domain sums over lazily flipped covariance states: metric = icov + 1 resp. icov + c2
        for c in COV_STATES:
            for pre in ("hamiltonian_gauss_", "sumsame_gauss_"):
                I = make(pre + c, s)
                Mh = metric_dense_of(I.energy, I.x, I.coords)
                yield "%s%s metric" % (pre, c), np.asarray(I.expected_metric(I.x)), Mh
        for kind in ("vcg_real", "vcg_cplx", "vcg_real#builtin", "vcg_cplx#builtin", "vcg_real#npdtype", "vcg_cplx#npdtype"):
            I = make(kind, s)
            kind = kind.partition("#")[0]
            r, iv = I.x["r"].asnumpy(), I.x["i"].asnumpy()
            _, t = I.energy.get_transformation()
            tx = t(I.x)
            M = metric_dense_of(I.energy, I.x, I.coords)
            if kind == "vcg_real":
                yield "vcg_real energy", sum(R["vcg_real_E"](float(a), float(b)) for a, b in zip(r, iv)), energy_value(I.energy, I.x)
                yield "vcg_real transformation r", [R["vcg_real_t_r"](float(a), float(b)) for a, b in zip(r, iv)], tx["r"].asnumpy()
                yield "vcg_real transformation i", [R["vcg_real_t_i"](float(b)) for b in iv], tx["i"].asnumpy()
                byk = {"r": [R["vcg_real_M_r"](float(b)) for b in iv], "i": [R["vcg_real_M_i"](float(b)) for b in iv]}
                yield "vcg_real metric", [v for k, _, _, _ in I.coords.slots for v in byk[k]], np.diag(M)
            else:
                yield "vcg_cplx energy", sum(R["vcg_cplx_E"](float(a.real), float(a.imag), float(b)) for a, b in zip(r, iv)), energy_value(I.energy, I.x)
                yield "vcg_cplx transformation re", [R["vcg_cplx_t_ra"](float(a.real), float(b)) for a, b in zip(r, iv)], tx["r"].asnumpy().real
                yield "vcg_cplx transformation im", [R["vcg_cplx_t_rb"](float(a.imag), float(b)) for a, b in zip(r, iv)], tx["r"].asnumpy().imag
                yield "vcg_cplx transformation i", [R["vcg_cplx_t_i"](float(b)) for b in iv], tx["i"].asnumpy()
                mr = [R["vcg_cplx_M_r"](float(b)) for b in iv]
                byk = {"r": [v for m_ in mr for v in (m_, m_)], "i": [R["vcg_cplx_M_i"](float(b)) for b in iv]}
                yield "vcg_cplx metric", [v for k, _, _, _ in I.coords.slots for v in byk[k]], np.diag(M)
        # sums in every parenthesisation against the sum of the GENERATED per-pixel energies of the summands
        def gen_E(k, P):
            xx = P.x.asnumpy()
            if k == "a":
                return sum(R["gauss_quadform"](float(c), R["gauss_residual"](float(dd), float(v))) for dd, c, v in zip(P.params["d"], P.params["icov"], xx))
            if k == "b":
                return sum(R["bernoulli_E"](float(dd), float(v)) for dd, v in zip(P.params["d"], xx))
            if k == "c":
                return sum(R["poisson_E"](float(dd), float(v)) for dd, v in zip(P.params["d"], xx))
            return sum(R["invgamma_E"](float(al + 1), float(be), float(v)) for al, be, v in zip(P.params["alpha"], P.params["beta"], xx))
        for kind in sorted(SUM_SHAPES):
            try:
                I = make(kind, s)
            except Exception as e:        # the implementation could not even build / evaluate the sum: a disagreement, not a crash
                yield "%s %s cannot be built: %s" % (kind, SUM_SHAPES[kind], repr(e)[:150]), [0.0], [float("nan")]
                continue
            yield "%s %s energy" % (kind, SUM_SHAPES[kind]), sum(I.fac[k] * gen_E(k, I.parts[k]) for k in I.parts), energy_value(I.energy, I.x)
            M = metric_dense_of(I.energy, I.x, I.coords)
            n_ = I.n
            j = sorted(I.parts).index("a")
            yield "%s metric block of the Gaussian summand (= factor * icov)" % kind, I.fac["a"] * I.parts["a"].params["icov"], np.diag(M)[j * n_:(j + 1) * n_]
        for kind in ("sgamma_real", "sgamma_cplx"):
            I = make(kind, s)
            r, x = I.params["r"], I.x.asnumpy()
            _, t = I.energy.get_transformation()
            if kind == "sgamma_real":
                yield "sgamma_real energy", sum(R["sgamma_real_E"](float(a.real), float(b)) for a, b in zip(r, x)), energy_value(I.energy, I.x)
                yield "sgamma_real transformation", [R["sgamma_real_t"](float(b)) for b in x], t(I.x).asnumpy()
            else:
                yield "sgamma_cplx energy", sum(R["sgamma_cplx_E"](float(a.real), float(a.imag), float(b)) for a, b in zip(r, x)), energy_value(I.energy, I.x)
                yield "sgamma_cplx transformation", [R["sgamma_cplx_t"](float(b)) for b in x], np.asarray(t(I.x).asnumpy()).real


class C11(C.Check):
    prop = "C11"
    coq_dir = "C11"
    trusted_base = [
        "Coq 8.16.1 kernel; axioms of the standard library's classical reals (see theorem_axioms)",
        "tr/realexpr.py + tr/c11_spec.py: Python ast -> real-expression IR -> Gallina text (fail closed); field algebra read pixel-wise "
        "(vdot = conj(a)*b, sum = identity, operator expressions = their value at x); the Coq text and the Python rendering used by the "
        "correspondence come from the same IR (to_coq / to_py trusted to agree); transcendental functions do not compute by vm_compute over R, "
        "hence the numeric comparison with the implementation runs in Python",
        "documented densities written out in coq/C11/Model.v (normalising constants of Student-t and inverse gamma omitted: parameter-independent); "
        "the oracle compares with scipy.stats log-densities",
        "gradients are produced by the Linearization algebra (C03), not by the energy code: covered here only by the finite-difference oracle and the "
        "derivative theorems about the generated per-pixel energies",
        "Fisher-information theorems for Poisson, inverse gamma and the variable-covariance Gaussian use the named moment hypotheses "
        "[expectation Ex], Ex d = mean (and Ex d^2 for VCG); Student-t: the Fisher integral is not formalised (C11_studentt_metric_partial); "
        "the oracle evaluates these expectations numerically on the implementation (series / quad / Gauss-Hermite)",
    ]
    assumptions = [
        "Gamma(alpha+1, scale x) mean E[beta] = (alpha+1) x; residual moments E[r] = 0, E[r^2] = 1/i per real component "
        "(consistent: C11_expectation_satisfiable)",
        "linearity of expectation on polynomials of degree <= 2 in the datum (Model.expectation)",
        "float64 rounding is outside the theorems; tolerances 1e-10 (correspondence), 1e-9 (dense identities), 1e-6 (quadrature / finite differences)",
    ]

    def __init__(self):
        self.defs = None

    def translate(self, ctx):
        from tr import c11_spec
        self.defs = None
        defs, text = c11_spec.generate(ctx.repo)
        self.defs = defs
        C.write_if_changed(GEN, text)

    def correspondence(self, ctx, res):
        from tr import realexpr as T
        if self.defs is None:
            res.coverage.update({"evaluations": 0, "distinct_nontrivial": 0, "rule": "translator failed; nothing to compare"})
            return []
        rend, _ = T.compile_py(self.defs, {})
        nrep = 3 if ctx.quick else 30
        evals, bad, names, samples = 0, [], {}, []
        used = set()
        for name, mod, imp in corr_cases(_Tracking(rend, used), ctx.seed, nrep):
            evals += 1
            names[name] = names.get(name, 0) + 1
            mod, imp = np.asarray(mod, dtype=float), np.asarray(np.real(imp), dtype=float)
            ok = mod.shape == imp.shape and close(mod, imp, RTOL, atol=1e-12 * (1 + float(np.max(np.abs(mod), initial=0.0))))
            if len(samples) < 5 and names[name] == 1:
                samples.append({"case": name, "model": mod.tolist(), "implementation": imp.tolist()})
            if not ok:
                bad.append({"case": name, "model": mod.tolist(), "implementation": imp.tolist()})
        unused = sorted({d.name for d in self.defs} - used)
        if unused:
            raise C.MachineryError("generated definitions never compared with the implementation: %s" % unused)
        for b in bad[:4]:
            res.add_broken("correspondence", "generated %s vs implementation" % b["case"], b)
        res.coverage.update({
            "evaluations": evals, "distinct_nontrivial": len(names),
            "rule": "per energy class: sum over pixels of the generated per-pixel energy vs EnergyOperator(x).val, generated transformation vs "
                    "get_transformation()(x), generated explicit metric vs dense metric; %d generated (parameters, data, point) per class, 3 pixels, "
                    "rel. tol %g; distinct = distinct (class, quantity) pairs" % (nrep, RTOL),
            "samples": samples, "disagreements": len(bad),
            "input_distribution": {"classes": sorted(names), "repetitions": nrep},
            "generated_definitions": [d.name for d in self.defs],
        })
        return [b["case"] for b in bad]

    def oracle(self, ctx, res, hints, budget):
        cases = [(c["kind"], int(c["seed"])) for c in ctx.corpus()]
        nseed = (1 if ctx.quick else 6) * budget
        for k in KINDS:
            for j in range(nseed):
                cases.append((k, ctx.seed * 100 + j))
        n = 0
        per = {}
        for kind, seed in dict.fromkeys(cases):       # corpus first, no duplicates
            if kind not in KINDS:
                continue
            try:
                fails = run_instance(kind, seed)
            except Exception as e:
                fails = [("raises", {"error": repr(e)[:300]})]
            n += 1
            per[kind] = per.get(kind, 0) + 1
            for chk, det in fails:
                if sum(1 for f in res.failing if f["signature"]["energy"] == kind and f["signature"]["check"] == chk) >= 1:
                    continue
                res.add_failing({"energy": kind, "check": chk},
                                "%s: %s check fails on the implementation: %s" % (kind, chk, json_short(det)),
                                {"kind": kind, "seed": seed, "check": chk, "detail": det})
        res.coverage["impl_property_evaluations"] = n
        res.coverage["oracle_instances_per_kind"] = per

    def replay(self, ctx, rp):
        i = rp["input"]
        try:
            fails = run_instance(i["kind"], int(i["seed"]))
        except Exception:
            return True
        return any(chk == i["check"] for chk, _ in fails)


def json_short(d):
    s = repr(d)
    return s if len(s) < 400 else s[:400] + "..."


class _Tracking(dict):
    """Rendering table that records which generated definitions were actually evaluated."""

    def __init__(self, rend, used):
        super().__init__(rend)
        self.used = used

    def __getitem__(self, k):
        self.used.add(k)
        return dict.__getitem__(self, k)


CHECK = C11()
