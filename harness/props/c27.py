"""C27 -- The classic VI driver accepts every documented configuration.

Proved (coq/C27): for the control-flow model of nifty.cl.minimization.optimize_kl WITH the fixes
fixes/C27-1..4.patch: every configuration meeting the documented preconditions returns (no exception),
the global RNG stack is balanced for every option combination and iteration count (dry run, early
termination, resume with nothing left), result shape and file set follow the options; the pinned
(unfixed) control flow is refuted on four counts (RNG leak, UnboundLocalError, stale output directory, stale mean file).

Tie: a pairwise covering array over the option values (+ error configurations + corpus) is executed on
a tiny two-key Gaussian model; compared with the model inside coqc: exception class, result shape, RNG
stack depth at return, the trace of pushes/pops (recorded by wrapping the names the driver imported),
transitions applied, minimiser calls (iteration, number of samples), inspect/terminate callbacks (with
the stack depth they see), the set of files in the output directory and files written into directories
of EARLIER calls, and (round 7) the CONTENT of the resume marker last_finished_iteration after the call
(model: marker_after; theorems C27_marker_below_total, C27_marker_dry_run).

Direct oracle (independent of Coq): every valid configuration completes, leaves the RNG stacks with the
same objects and unchanged outer generator states (depth only when the pickled state is loaded on
resume), returns a value of the requested shape, a one-element list equal to the mean for zero samples,
constants keep their values, nothing is written anywhere when output_directory is None, file names follow
the save strategy."""
import copy
import json
import os
import re
import shutil
import sys
import time

import numpy as np

from .. import common as C

HEADER = ("From Coq Require Import List Bool Arith. Import ListNotations.\n"
          "Require Import NV.C27.Model NV.C27.Gen_Variant.\n")
# head_variant is read from the current source by tr/c27_variant.py (with or without fix C27-5);
# C27_VARIANT=orig is a development aid only (models the pinned tree)
VARIANT = os.environ.get("C27_VARIANT", "head_variant")
PID = os.getpid()


def scratch(name):
    """per-process scratch name (several checks of the same property may run at the same time)"""
    return "%s_p%d" % (name, PID)


def cleanup_scratch(prop):
    import glob
    d = C.run_dir(prop)
    for f in glob.glob(os.path.join(d, "*_p%d*" % PID)) + glob.glob(os.path.join(d, ".*_p%d*" % PID)):
        try:
            if os.path.isdir(f):
                shutil.rmtree(f)
            else:
                os.remove(f)
        except OSError:
            pass


# --------------------------------------------------------------------------------------------------
# the tiny model and the instrumented run
# --------------------------------------------------------------------------------------------------

def tab(l, i):
    return l[i] if i < len(l) else l[-1]


class Recorder:
    def __init__(self):
        self.acts = []
        self.pushed = []
        self.pushes = 0
        self.first = 0

    def cur(self):
        return self.first + self.pushes - 1


def make_problem(cplx=False):
    import nifty.cl as ift
    d = ift.RGSpace(4)
    a = ift.ScalingOperator(d, 1.).ducktape("a")
    b = ift.ScalingOperator(d, 1.).ducktape("b")
    if cplx:        # complex-valued data and residuals
        cast = ift.Realizer(d).adjoint          # real -> complex; its adjoint takes the real part (real gradients)
        op = cast @ a + 1j * (cast @ (0.3 * b).ptw("exp"))
        data = ift.Field.from_raw(d, np.array([1.3 + 0.2j, 0.7 - 1j, -0.2 + 0.5j, 2.1 + 0j]))
        lh = ift.GaussianEnergy(data, ift.ScalingOperator(d, 4., np.complex128)) @ op
        return lh, op
    op = a + (0.3 * b).ptw("exp")
    data = ift.Field.from_raw(d, np.array([1.3, 0.7, -0.2, 2.1]))
    lh = ift.GaussianEnergy(data, ift.ScalingOperator(d, 4., np.float64)) @ op
    return lh, op


def listing(d):
    out = {}
    if d is None or not os.path.isdir(d):
        return out
    for r, _, fs in os.walk(d):
        for f in fs:
            p = os.path.join(r, f)
            st = os.stat(p)
            out[os.path.relpath(p, d)] = (st.st_mtime_ns, st.st_size, st.st_ino)
    return out


FN = r"(latest|iteration_(\d+))"


def fname_coq(m_latest, m_iter):
    return "Latest" if m_iter is None else "(Iter %d)" % int(m_iter)


PATTERNS = [
    (r"pickle/nifty_random_state$", lambda m: "FRandomState"),
    (r"pickle/" + FN + r"\.(\d+)\.pickle$", lambda m: "(FSample %s %d)" % (fname_coq(m.group(1), m.group(2)), int(m.group(3)))),
    (r"pickle/" + FN + r"\.mean\.pickle$", lambda m: "(FMean %s)" % fname_coq(m.group(1), m.group(2))),
    (r"last_finished_iteration$", lambda m: "FLast"),
    (r"pickle/energy_history_" + FN + "$", lambda m: "(FEnergyHist %s)" % fname_coq(m.group(1), m.group(2))),
    (r"energy_history/energy_history_" + FN + r"\.png$", lambda m: "(FEnergyPlot %s)" % fname_coq(m.group(1), m.group(2))),
    (r"energy_history/energy_change_history_" + FN + r"\.png$", lambda m: "(FEnergyChangePlot %s)" % fname_coq(m.group(1), m.group(2))),
    (r"minisanity\.txt$", lambda m: "FMinisanityTxt"),
    (r"pickle/minisanity_history_" + FN + "$", lambda m: "(FMinisanityHist %s)" % fname_coq(m.group(1), m.group(2))),
    (r"minisanity_history/minisanity_history_" + FN + r"\.png$", lambda m: "(FMinisanityPlot %s)" % fname_coq(m.group(1), m.group(2))),
    (r"counting_report\.txt$", lambda m: "FCounting"),
    (r"sky/" + FN + r"\.hdf5$", lambda m: "(FExport %s)" % fname_coq(m.group(1), m.group(2))),
]


def file_coq(path):
    for pat, f in PATTERNS:
        m = re.match(pat, path)
        if m:
            return f(m)
    return None


def run_once(cfg, total, resume, outdir, known_dirs, init_index=0):
    """One call of optimize_kl with the options of cfg.  Returns the observation dict."""
    import nifty.cl as ift
    R = ift.random
    M = sys.modules["nifty.cl.minimization.optimize_kl"]
    from nifty.cl.minimization.sample_list import ResidualSampleList
    rec = Recorder()
    lh, op = make_problem(cfg.get("cplx", False))

    class Recording:
        def __call__(self, energy):
            n = 0
            if hasattr(energy, "samples"):
                n = energy.samples.n_samples // 2
            rec.acts.append(("min", rec.cur(), n))
            return super().__call__(energy)

    class RecMin(Recording, ift.NewtonCG):
        pass

    class RecVL(Recording, ift.VL_BFGS):        # a minimiser that does not want the metric
        pass

    mini = RecMin(ift.AbsDeltaEnergyController(1e-3, iteration_limit=2))
    mini_vl = RecVL(ift.AbsDeltaEnergyController(1e-3, iteration_limit=2))
    sched = cfg.get("mini_sched", "const")
    if sched == "vl_newton":            # warm-up schedule: metric-free first, Newton afterwards
        kl_minimizer = lambda i: mini_vl if i == 0 else mini
    elif sched == "newton_vl":
        kl_minimizer = lambda i: mini if i == 0 else mini_vl
    elif sched == "alternate":
        kl_minimizer = lambda i: mini_vl if i % 2 else mini
    else:
        kl_minimizer = (lambda i: mini) if cfg["callables"] else mini
    ic = ift.AbsDeltaEnergyController(1e-3, iteration_limit=4) if cfg["sic"] else None
    nl = ift.NewtonCG(ift.AbsDeltaEnergyController(1e-3, iteration_limit=2)) if cfg["nonlinear"] else None
    init = ift.from_random(lh.domain, std=0.1)
    kw = dict(likelihood_energy=(lambda i: lh) if cfg["callables"] else lh,
              total_iterations=total,
              n_samples=(lambda i: tab(cfg["ns"], i)) if (cfg["callables"] or len(set(cfg["ns"])) > 1) else cfg["ns"][0],
              kl_minimizer=kl_minimizer,
              sampling_iteration_controller=(lambda i: ic) if cfg["callables"] else ic,
              nonlinear_sampling_minimizer=(lambda i: nl) if cfg["callables"] else nl,
              output_directory=outdir, save_strategy=cfg["save"],
              plot_energy_history=cfg["plot_e"], plot_minisanity_history=cfg["plot_m"],
              resume=resume, sanity_checks=cfg["sanity"], dry_run=cfg["dry"],
              return_final_position=cfg["ret_pos"])
    if init_index:
        kw["initial_index"] = int(init_index)
    if cfg["init_pos"]:
        kw["initial_position"] = init
    if cfg["constants"] == "list":
        kw["constants"] = ["a"]
    elif cfg["constants"] == "callable":
        kw["constants"] = lambda i: ["a"]
    elif cfg["constants"] == "sched":
        kw["constants"] = lambda i: ["a"] if i % 2 == 0 else []
    if cfg["pes"] == "list":
        kw["point_estimates"] = ["b"]
    elif cfg["pes"] == "callable":
        kw["point_estimates"] = lambda i: ["b"] if i % 2 == 0 else []
    if cfg["fresh"] != [True]:
        kw["fresh_stochasticity"] = (lambda i: tab(cfg["fresh"], i)) if len(cfg["fresh"]) > 1 else cfg["fresh"][0]
    if cfg["term"] is not None:
        def term(i):
            b = tab(cfg["term"], i)
            rec.acts.append(("term", i, b))
            return b
        kw["terminate_callback"] = term
    if cfg["inspect"] == 1:
        kw["inspect_callback"] = lambda sl: rec.acts.append(("insp", rec.cur(), len(R._sseq)))
    elif cfg["inspect"] == 2:
        kw["inspect_callback"] = lambda sl, i: rec.acts.append(("insp", i, len(R._sseq)))
    elif cfg["inspect"] == 3:
        kw["inspect_callback"] = lambda sl, i, j: None
    if cfg["trans"] is not None:
        def trans(i):
            if not tab(cfg["trans"], i):
                return None

            def t(sl):
                rec.acts.append(("trans", i))
                return sl.average()
            return t
        kw["transitions"] = trans
    if cfg["export"]:
        kw["export_operator_outputs"] = {"sky": op}

    # environment
    lfile = None if outdir is None else os.path.join(outdir, "last_finished_iteration")
    last0 = int(open(lfile).read()) if lfile and os.path.isfile(lfile) else None
    rec.first = last0 + 1 if (resume and last0 is not None) else init_index
    files0 = listing(outdir)
    others = {d: listing(d) for d in known_dirs if d != outdir}
    scratch_dir = os.path.join(C.run_dir("C27"), scratch("cwd"))       # relative writes of the driver land here
    os.makedirs(scratch_dir, exist_ok=True)
    cwd0 = listing(scratch_dir)
    old_cwd = os.getcwd()
    os.chdir(scratch_dir)
    stale = getattr(M, "_output_directory", None) is not None
    stale_all = getattr(M, "_save_strategy", None) == "all"
    depth0 = len(R._sseq)
    ids0 = ([id(x) for x in R._sseq], [id(x) for x in R._rng])
    states0 = [copy.deepcopy(g.bit_generator.state) for g in R._rng]

    orig_push, orig_pop = M.push_sseq, M.pop_sseq

    def rpush(s):
        rec.pushes += 1
        try:        # which child of spawn_sseq(total_iterations) is pushed
            j = int(s.spawn_key[-1]) - (int(R._sseq[-1].n_children_spawned) - total)
            ident = [int(s.entropy) if isinstance(s.entropy, (int, np.integer)) else -1] + [int(x) for x in s.spawn_key]
        except Exception:
            j, ident = 999, None
        rec.acts.append(("push", rec.cur(), j if 0 <= j < 999 else 999))
        rec.pushed.append((rec.cur(), ident))
        return orig_push(s)

    def rpop():
        rec.acts.append(("pop",))
        return orig_pop()
    M.push_sseq, M.pop_sseq = rpush, rpop
    err = None
    res = None
    try:
        res = ift.optimize_kl(**kw)
    except Exception as e:          # noqa: the class is what is observed
        err = e
    finally:
        M.push_sseq, M.pop_sseq = orig_push, orig_pop
        os.chdir(old_cwd)
    o = {"err": None if err is None else "%s: %s" % (type(err).__name__, str(err)[:100]),
         "code": 0 if err is None else (1 if isinstance(err, ValueError) else 2 if isinstance(err, AssertionError)
                                        else 3 if isinstance(err, UnboundLocalError) else 4 if isinstance(err, FileNotFoundError) else 5),
         "depth0": depth0, "depth1": len(R._sseq), "last0": last0, "stale": stale, "stale_all": stale_all, "first": rec.first,
         "files0": sorted(files0), "files1": sorted(listing(outdir)), "acts": rec.acts, "pushed": rec.pushed,
         "same_objects": ([id(x) for x in R._sseq[:depth0]], [id(x) for x in R._rng[:depth0]]) == ids0,
         "same_states": [g.bit_generator.state for g in R._rng[:depth0]] == states0}
    foreign = []
    for d, before in others.items():
        after = listing(d)
        for f, sig in after.items():
            if before.get(f) != sig:
                foreign.append(f)
    try:        # content of the resume marker after the call (round 7: compared with marker_after of the model)
        o["last1"] = int(open(lfile).read()) if lfile and os.path.isfile(lfile) else None
    except ValueError:
        o["last1"] = -1
    cwd1 = listing(scratch_dir)
    o["cwd_writes"] = sorted(f for f, sig in cwd1.items() if cwd0.get(f) != sig)
    o["foreign"] = sorted(foreign)
    if err is None:
        tup = isinstance(res, tuple)
        sl = res[0] if tup else res
        o["tuple"] = tup
        o["n"] = int(sl.n_samples)
        o["residual"] = isinstance(sl, ResidualSampleList)
        if tup:
            mean = res[1]
            o["mean_keys"] = sorted(mean.keys())
            if o["n"] == 1 and not o["residual"] and not cfg["dry"]:
                s0 = sl.local_item(0)
                o["single_equals_mean"] = all(np.array_equal(s0[k].asnumpy(), mean[k].asnumpy()) for k in mean.keys())
            resumed_from_file = resume and last0 is not None
            transformed = any(a[0] == "trans" for a in rec.acts)
            comparable = cfg["init_pos"] and not cfg["dry"] and not resumed_from_file and not transformed \
                and any(a[0] == "min" for a in rec.acts)
            if comparable:
                # every key that is not held constant must have been optimised (moved away from the start)
                free = [k for k in mean.keys() if not (k == "a" and cfg["constants"] != "none")]
                o["not_moved"] = [k for k in free if np.array_equal(mean[k].asnumpy(), init[k].asnumpy())]
            if comparable and cfg["constants"] in ("list", "callable") and "a" in mean.keys():
                o["constant_kept"] = bool(np.array_equal(mean["a"].asnumpy(), init["a"].asnumpy()))
    # put the RNG stack back (a leak must not influence the next configuration)
    while len(R._sseq) > depth0:
        R.pop_sseq()
    return o


def opts_coq(cfg, total, resume, outdir, init=0):
    ins = cfg["inspect"]
    return "(mkOpts %d (tabn %s) %s %s %s %s %s %s %s %s (tabb %s) %s (tabb %s) %d (tabb %s) %s %s %d)" % (
        total, C.clist([str(x) for x in cfg["ns"]]), C.cbool(cfg["sic"]), C.cbool(outdir is not None),
        C.cbool(cfg["save"] == "all"), C.cbool(cfg["plot_e"]), C.cbool(cfg["plot_m"]), C.cbool(resume),
        C.cbool(cfg["sanity"]), C.cbool(cfg["dry"]), C.clist([C.cbool(x) for x in cfg["fresh"]]),
        C.cbool(cfg["term"] is not None), C.clist([C.cbool(x) for x in (cfg["term"] or [False])]), ins,
        C.clist([C.cbool(x) for x in (cfg["trans"] or [False])]), C.cbool(cfg["ret_pos"]), C.cbool(cfg["export"]), init)


def act_coq(a):
    if a[0] == "push":
        return "(APush %d %d)" % (a[1], a[2])
    if a[0] == "pop":
        return "APop"
    if a[0] == "trans":
        return "(ATransition %d)" % a[1]
    if a[0] == "min":
        return "(AMinimise %d %d)" % (a[1], a[2])
    if a[0] == "insp":
        return "(AInspect %d %d)" % (a[1], a[2])
    return "(ATerminate %d %s)" % (a[1], C.cbool(a[2]))


def check_term(cfg, total, resume, outdir, o, init=0):
    """The Coq boolean `model(configuration, environment) == observation`, or None when the
    observation cannot be expressed (unknown file)."""
    f0 = [file_coq(f) for f in o["files0"]]
    f1 = [file_coq(f) for f in o["files1"]]
    fo = [file_coq(f) for f in o["foreign"]]
    if None in f0 or None in f1 or None in fo:
        return None
    env = "(mkEnv %d %s %s %d %s %s)" % (o["depth0"], C.clist(f0), C.copt(o["last0"], lambda x: "%d" % x),
                                         o["depth0"], C.cbool(o["stale"]), C.cbool(o["stale_all"]))
    if o["code"] == 0:
        shape = "(%s, %d, %s, %d)" % (C.cbool(o["tuple"]), o["n"], C.cbool(o["residual"]), o["depth1"])
    else:
        shape = "(false, 0, false, 0)"
    obs = "(%d, %s, %s, %s, %s)" % (o["code"], shape, C.clist([act_coq(a) for a in o["acts"]]), C.clist(f1), C.clist(fo))
    if o.get("last1") == -1:
        return None
    oc = opts_coq(cfg, total, resume, outdir, init)
    return "andb (run_ok %s %s %s %s) (marker_ok %s %s %s %d %s)" % (
        VARIANT, oc, env, obs, VARIANT, oc, env, o["code"], C.copt(o.get("last1"), lambda x: "%d" % x))


def direct_failures(cfg, total, resume, outdir, o, valid, no_history=False):
    """The property itself on the implementation: list of (signature, what)."""
    out = []
    if valid and o["code"] != 0:
        sig = {"defect": "raises", "exception": o["err"].split(":")[0]}
        if o["code"] == 3:
            sig = {"defect": "unbound_iglobal"}
        if o["code"] == 4 and "minisanity_history" in o["err"] and not no_history:
            pass
        if o["code"] == 4 and no_history:
            sig = {"defect": "fresh_dir_initial_index"}
        if resume and o["last0"] is not None and o["err"].startswith("KeyError"):
            sig = {"defect": "stale_mean_file"}
        out.append((sig, "a valid configuration raised %s" % o["err"]))
    loaded = resume and o["last0"] is not None and o["code"] == 0 and o["first"] != total
    if o["depth1"] != o["depth0"]:
        via = "dry_run" if cfg["dry"] else ("terminate_callback" if any(a[0] == "term" and a[2] for a in o["acts"]) else "other")
        if o["code"] == 0:          # (a call that raised is reported as such)
            out.append(({"defect": "rng_leak", "via": via},
                        "RNG stack depth %d at entry, %d at return (%s)" % (o["depth0"], o["depth1"], via)))
    elif o["code"] == 0 and not loaded and not (o["same_objects"] and o["same_states"]):
        out.append(({"defect": "rng_outer_modified"}, "an outer stack entry was replaced or an outer generator advanced"))
    if o["code"] == 0:
        if o["tuple"] != cfg["ret_pos"]:
            out.append(({"defect": "result_shape"}, "return_final_position=%s but tuple=%s" % (cfg["ret_pos"], o["tuple"])))
        if o.get("single_equals_mean") is False:
            out.append(({"defect": "result_shape"}, "zero samples: the single sample differs from the mean"))
        if o.get("not_moved"):
            out.append(({"defect": "not_optimised"}, "keys %s are not held constant but still have their initial value after the run"
                        % o["not_moved"]))
        if o.get("constant_kept") is False:
            out.append(({"defect": "constants"}, "a constant key changed its value"))
        mins = [a for a in o["acts"] if a[0] == "min"]
        if mins and not cfg["dry"]:
            n = mins[-1][2]
            if (n == 0 and not (o["n"] == 1 and not o["residual"])) or (n > 0 and not (o["n"] == 2 * n and o["residual"])):
                out.append(({"defect": "result_shape"}, "sample list (n=%d, residual=%s) does not match n_samples=%d of the last iteration"
                            % (o["n"], o["residual"], n)))
    if o["foreign"] or o["cwd_writes"]:
        out.append(({"defect": "stale_output_directory"},
                    "files written outside the output directory of this call: %s" % (o["foreign"] + o["cwd_writes"])[:6]))
    if outdir is None and o["files1"]:
        out.append(({"defect": "files_without_outdir"}, "files with output_directory=None"))
    if outdir is not None and o["code"] == 0:
        new = [f for f in o["files1"] if f not in o["files0"]]
        for f in new:
            m = re.search(FN, f)
            if m and ((cfg["save"] == "latest") != (m.group(1) == "latest")):
                out.append(({"defect": "save_strategy"}, "file %s does not follow save_strategy=%s" % (f, cfg["save"])))
                break
    return out


def history_to_continue(r):
    """False for a positive initial_index with an output directory that does not hold the minisanity
    history of iteration initial_index - 1 (fresh directory, or the earlier call was a dry run or was
    terminated early).  Such a call is a documented configuration; it fails without fix C27-5."""
    o = r["obs"]
    if r["init"] == 0 or r["outdir"] is None or (r["resume"] and o["last0"] is not None):
        return True
    name = "latest" if r["cfg"]["save"] == "latest" else "iteration_%d" % (r["init"] - 1)
    return ("pickle/minisanity_history_" + name) in o["files0"]


def fresh_failures(recs):
    """fresh_stochasticity(i) False <=> iteration i uses the seed sequence of iteration i-1, True <=> a new
    one -- across the calls of one history (stop by total_iterations or terminate_callback, then resume).
    Only for histories whose calls share the random state (output directory + resume)."""
    seen = {}
    order = []
    for r in recs:
        if r["outdir"] is None:
            return []
        if r is not recs[0] and not (r["resume"] and r["obs"]["last0"] is not None):
            seen, order = {}, []            # nothing to resume from: the run starts from scratch
        for i, ident in r["obs"]["pushed"]:
            if ident is None:
                return []
            if i in seen and seen[i] != ident:
                return [({"defect": "fresh_stochasticity"}, "iteration %d uses different seed sequences in two calls of one history" % i)]
            if i not in seen:
                seen[i] = ident
                order.append(i)
    fresh = recs[0]["cfg"]["fresh"]
    for i in order:
        if i == 0 or (i - 1) not in seen:
            continue
        same = seen[i] == seen[i - 1]
        if tab(fresh, i) == same:
            return [({"defect": "fresh_stochasticity"},
                     "fresh_stochasticity(%d)=%s but iteration %d uses %s seed sequence as iteration %d (calls: %s)"
                     % (i, tab(fresh, i), i, "the same" if same else "another", i - 1,
                        [(r["total"], r["resume"]) for r in recs]))]
    return []


# --------------------------------------------------------------------------------------------------
# configurations
# --------------------------------------------------------------------------------------------------

PARAMS = {
    "total": [1, 2, 3],
    "ns": [[2], [0], [2, 0], [0, 2], [1], [2, 0, 1]],
    "outdir": [False, True],
    "save": ["latest", "all"],
    "plot_e": [False, True],
    "plot_m": [False, True],
    "resume": ["no", "fresh", "continue", "done"],
    "sanity": [False, True],
    "dry": [False, True],
    "fresh": [[True], [True, False], [True, False, True], [True, False, False]],
    "term": [None, [True], [False, True], [False]],
    "inspect": [0, 1, 2],
    "trans": [None, [False], [False, True]],
    "ret_pos": [False, True],
    "export": [False, True],
    "constants": ["none", "list", "callable", "sched"],
    "mini_sched": ["const", "vl_newton", "newton_vl", "alternate"],
    "pes": ["none", "list", "callable"],
    "sic": [True, False],
    "nonlinear": [False, True],
    "callables": [False, True],
    "init_pos": [False, True],
    "init": [0, 1, 2],
    "cplx": [False, True],
    "prefill": [True, False],      # initial_index > 0: an earlier call has filled the output directory / it is fresh
}


def normalise(c):
    """Make a configuration meet the documented preconditions."""
    c = dict(c)
    if not c["outdir"]:
        c["resume"] = "no"
    if not c["sic"]:
        c["ns"] = [0]
    if c["resume"] == "continue" and c["total"] < 2:
        c["total"] = 2
    if c.get("init", 0) == 0 or not c["outdir"]:
        c["prefill"] = True
    if c.get("init", 0) > 0:
        if c["resume"] == "continue":
            c["resume"] = "no"
        c["total"] = max(c["total"], c["init"] + 1)
    if c["total"] >= 3 and c["plot_e"] and c["plot_m"]:
        c["plot_m"] = False           # plotting is slow; keep both only for short runs
    return c


def pairs_of(c):
    ks = sorted(PARAMS)
    vals = [json.dumps(c[k]) for k in ks]
    return {(i, vals[i], j, vals[j]) for i in range(len(ks)) for j in range(i + 1, len(ks))}


def covering_array(rng, limit):
    ks = sorted(PARAMS)
    uncovered = set()
    for i in range(len(ks)):
        for j in range(i + 1, len(ks)):
            for a in PARAMS[ks[i]]:
                for b in PARAMS[ks[j]]:
                    uncovered.add((i, json.dumps(a), j, json.dumps(b)))
    out = []
    while uncovered and len(out) < limit:
        best, bestn = None, -1
        for _ in range(40):
            c = normalise({k: PARAMS[k][int(rng.integers(0, len(PARAMS[k])))] for k in ks})
            n = len(pairs_of(c) & uncovered)
            if n > bestn:
                best, bestn = c, n
        if bestn <= 0:
            break
        out.append(best)
        uncovered -= pairs_of(best)
    return out, len(uncovered)


def base_cfg(**kw):
    c = {"total": 2, "ns": [2], "outdir": False, "save": "latest", "plot_e": False, "plot_m": False, "resume": "no",
         "sanity": True, "dry": False, "fresh": [True], "term": None, "inspect": 2, "trans": None, "ret_pos": True,
         "export": False, "constants": "none", "pes": "none", "sic": True, "nonlinear": False, "callables": False,
         "init_pos": False, "init": 0, "cplx": False, "prefill": True, "mini_sched": "const"}
    c.update(kw)
    return c


SPECIAL = [
    # (the configurations exposing the three defects of the pinned tree are in corpus/C27)
    # documented error paths
    ("error", base_cfg(total=0)),
    ("error", base_cfg(fresh=[False])),
    ("error", base_cfg(inspect=3)),
    ("error", base_cfg(sic=False, ns=[2], sanity=True)),
    ("error-resume-without-outdir", base_cfg()),
    ("error", base_cfg(total=2, init=2)),                                   # initial_index >= total_iterations
    # fresh_stochasticity False in two consecutive iterations straddling a stop: by terminate + resume,
    # by resume after a shorter run, by a second call with initial_index
    ("valid", base_cfg(total=4, fresh=[True, False, False, False], outdir=True, resume="continue", term=[False, True], inspect=1)),
    ("valid", base_cfg(total=3, fresh=[True, False, False], outdir=True, resume="continue", save="all")),
    ("valid", base_cfg(total=3, fresh=[True, False, False], init=2, ns=[1])),
    # minimiser schedules in both orders with zero-sample (MAP) and sampled iterations
    ("valid", base_cfg(total=3, ns=[0], mini_sched="vl_newton", init_pos=True)),
    ("valid", base_cfg(total=3, ns=[0, 2, 0], mini_sched="vl_newton", outdir=True)),
    ("valid", base_cfg(total=3, ns=[0], mini_sched="newton_vl")),
    ("valid", base_cfg(total=3, ns=[2, 0], mini_sched="alternate", constants="sched", init_pos=True)),
    # constants with samples: the constant key keeps its value AND the other key is optimised
    ("valid", base_cfg(total=2, ns=[2], constants="list", init_pos=True)),
    ("valid", base_cfg(total=2, ns=[1, 0], constants="callable", pes="list", init_pos=True, nonlinear=True)),
    # complex-valued data with every output switched on
    ("valid", base_cfg(total=2, cplx=True, outdir=True, plot_e=True, plot_m=True, export=True)),
    ("valid", base_cfg(total=2, cplx=True, outdir=True, plot_m=True, ns=[0, 2], save="all", resume="continue")),
]


class C27(C.Check):
    prop = "C27"
    coq_dir = "C27"
    trusted_base = [
        "Coq 8.16.1 kernel (coqc, vm_compute for the correspondence evaluation); no axioms",
        "hand-written control-flow model coq/C27/Model.v of nifty/cl/minimization/optimize_kl.py with fixes C27-1..4 (tied by correspondence, not by translation)",
        "the instrumentation in harness/props/c27.py: push_sseq/pop_sseq are recorded by wrapping the names imported into the driver's module; minimiser, transition and callbacks are recording objects; file sets are directory listings",
        "numerical content of minimisation and sampling is abstract in the model; the oracle checks result consistency on the tiny model only",
    ]
    assumptions = [
        "comm = None, device_id = -1 (single task, CPU); a positive initial_index with an output directory continues an earlier call into that directory",
        "the likelihood is valid (MultiDomain, scalar target) and the minimisers return",
        "a directory that is resumed from was written by an earlier call with the same save strategy",
    ]

    extra_targets = ["C27/Gen_Variant.vo"]

    def __init__(self):
        self.obs = []
        self.histories = []

    def translate(self, ctx):
        from tr import c27_variant
        text, self.fix_mh = c27_variant.translate(ctx.repo)
        C.write_if_changed(os.path.join(C.COQ, "C27", "Gen_Variant.v"), text)

    def execute(self, ctx, kind, cfg, tag):
        """Run one configuration (one or two calls).  Returns a list of stage records."""
        root = os.path.join(ctx.run_dir(), scratch("out"))
        os.makedirs(root, exist_ok=True)
        outdir = os.path.join(root, tag) if cfg["outdir"] else None
        if outdir and os.path.isdir(outdir):
            shutil.rmtree(outdir)
        stages = []
        mode = cfg["resume"]
        init = cfg.get("init", 0)
        if init and outdir is not None and cfg.get("prefill", True):
            # "May be used if optimize_kl is called multiple times": an earlier call filled the directory
            stages.append((init, False, outdir, 0))
        if kind == "error-resume-without-outdir":
            stages.append((cfg["total"], True, None, init))
        elif mode == "no":
            stages.append((cfg["total"], False, outdir, init))
        elif mode == "fresh":
            stages.append((cfg["total"], True, outdir, init))
        elif mode == "continue":
            stages.append((cfg["total"] - 1, False, outdir, init))
            stages.append((cfg["total"], True, outdir, init))
        else:
            stages.append((cfg["total"], False, outdir, init))
            stages.append((cfg["total"], True, outdir, init))
        recs = []
        for total, resume, od, ini in stages:
            o = run_once(cfg, total, resume, od, self.dirs, ini)
            if od is not None and od not in self.dirs:
                self.dirs.append(od)
            recs.append({"kind": kind, "cfg": cfg, "total": total, "resume": resume, "outdir": od, "init": ini, "obs": o})
        return recs

    def correspondence(self, ctx, res):
        import logging
        import warnings
        import nifty.cl as ift
        import matplotlib
        matplotlib.use("Agg")
        ift.logger.setLevel(logging.ERROR)
        warnings.filterwarnings("ignore")
        t0 = time.time()
        rng = ctx.rng(27)
        self.dirs = []
        root = os.path.join(ctx.run_dir(), scratch("out"))
        if os.path.isdir(root):
            shutil.rmtree(root)
        todo = [(c.get("kind", "valid"), c["cfg"]) for c in ctx.corpus()]
        todo += SPECIAL
        arr, left = covering_array(rng, 45 if ctx.quick else 140)
        todo += [("valid", c) for c in arr]
        ks = sorted(PARAMS)
        for _ in range(0 if ctx.quick else 120):       # beyond pairwise: random configurations
            todo.append(("valid", normalise({k: PARAMS[k][int(rng.integers(0, len(PARAMS[k])))] for k in ks})))
        self.obs = []
        self.histories = []
        for k, (kind, cfg) in enumerate(todo):
            recs = self.execute(ctx, kind, cfg, "c%03d" % k)
            self.obs += recs
            self.histories.append(recs)
        checks = []
        for r in self.obs:
            t = check_term(r["cfg"], r["total"], r["resume"], r["outdir"], r["obs"], r["init"])
            checks.append("false" if t is None else t)
        bad = C.eval_cases(self.prop, scratch("corr"), HEADER, checks)
        for i in bad[:4]:
            r = self.obs[i]
            o = dict(r["obs"])
            res.add_broken("correspondence", "optimize_kl vs coq/C27/Model.v (%s)" % VARIANT,
                           {"kind": r["kind"], "cfg": r["cfg"], "total": r["total"], "resume": r["resume"],
                            "has_outdir": r["outdir"] is not None, "initial_index": r["init"],
                            "observed": {k: o[k] for k in ("err", "code", "depth0", "depth1", "last0", "stale", "acts",
                                                           "files0", "files1", "foreign", "last1") if k in o},
                            "shape": {k: o.get(k) for k in ("tuple", "n", "residual")}})
        distinct = len({json.dumps(r["cfg"], sort_keys=True) + str((r["total"], r["resume"], r["init"])) for r in self.obs
                        if r["obs"]["code"] == 0 and any(a[0] == "min" for a in r["obs"]["acts"])})
        res.notes.append("timing: %d calls of optimize_kl + coqc %.1fs; uncovered value pairs: %d" % (len(self.obs), time.time() - t0, left))
        res.coverage.update({
            "evaluations": len(self.obs), "distinct_nontrivial": distinct,
            "rule": "greedy pairwise covering array over %d option parameters (values in harness/props/c27.py:PARAMS), "
                    "normalised to the documented preconditions, plus corpus, the configurations exposing the three defects "
                    "and the documented error paths; resume modes run two calls; non-trivial = returned normally and minimised "
                    "at least once; distinct by (configuration, total, resume)" % len(PARAMS),
            "samples": [{"cfg": r["cfg"], "acts": r["obs"]["acts"]} for r in self.obs[-2:]],
            "input_distribution": {"calls": len(self.obs), "raised": sum(1 for r in self.obs if r["obs"]["code"] != 0),
                                   "with_outdir": sum(1 for r in self.obs if r["outdir"]),
                                   "resumed": sum(1 for r in self.obs if r["resume"]),
                                   "uncovered_pairs": left},
            "disagreements": len(bad), "exhaustive": False,
        })
        return bad

    def oracle(self, ctx, res, hints, budget):
        n = 0
        seen = set()
        for r in self.obs:
            n += 1
            valid = r["kind"] == "valid"
            for sig, what in direct_failures(r["cfg"], r["total"], r["resume"], r["outdir"], r["obs"], valid,
                                             not history_to_continue(r)):
                key = json.dumps(sig, sort_keys=True)
                if key in seen:
                    continue
                seen.add(key)
                res.add_failing(sig, what, {"kind": r["kind"], "cfg": r["cfg"], "signature": sig})
        for recs in self.histories:
            if recs and recs[0]["kind"] == "valid" and all(r["obs"]["code"] == 0 for r in recs):
                for sig, what in fresh_failures(recs):
                    key = json.dumps(sig, sort_keys=True)
                    if key not in seen:
                        seen.add(key)
                        res.add_failing(sig, what, {"kind": "valid", "cfg": recs[0]["cfg"], "signature": sig})
        res.coverage["impl_property_evaluations"] = n + len(self.histories)
        cleanup_scratch(self.prop)

    def replay(self, ctx, rp):
        try:
            return self.replay_(ctx, rp)
        finally:
            cleanup_scratch(self.prop)

    def replay_(self, ctx, rp):
        import logging
        import warnings
        import nifty.cl as ift
        import matplotlib
        matplotlib.use("Agg")
        ift.logger.setLevel(logging.ERROR)
        warnings.filterwarnings("ignore")
        self.dirs = []
        root = os.path.join(ctx.run_dir(), scratch("out"))
        if os.path.isdir(root):
            shutil.rmtree(root)
        if rp.get("kind") == "no-failing-input-found":
            still = False
            for b in rp.get("broken", []):
                if b.get("kind") != "correspondence":
                    return True
                d = b["detail"]
                recs = self.execute(ctx, d["kind"], d["cfg"], "replay")
                checks = [check_term(r["cfg"], r["total"], r["resume"], r["outdir"], r["obs"], r["init"]) or "false" for r in recs]
                still = still or bool(C.eval_cases(self.prop, scratch("replay"), HEADER, checks))
            return still
        inp = rp["input"]
        cfgs = [inp["cfg"]]
        if inp["signature"].get("defect") == "stale_output_directory":
            cfgs = [base_cfg(outdir=True, total=1), inp["cfg"]]       # a directory must have been used before
        fails = []
        for k, cfg in enumerate(cfgs):
            recs_k = self.execute(ctx, inp["kind"], cfg, "replay%d" % k)
            for r in recs_k:
                fails += direct_failures(r["cfg"], r["total"], r["resume"], r["outdir"], r["obs"],
                                         inp["kind"] == "valid", not history_to_continue(r))
            fails += fresh_failures(recs_k)
        return any(sig == inp["signature"] for sig, _ in fails)


CHECK = C27()
