"""C07 -- Fields are immutable once constructed.

Tie: hand model coq/C07/Model.v (heap of buffers / ndarray objects / AnyArrays / Fields) + correspondence.
Generated histories of public operations are executed against the real NumPy + nifty.cl objects; after
EVERY step the result (object identity, or the class of the exception raised), the admissibility of
the step measured on the real arrays, and the complete object graph with contents (per ndarray:
buffer, flags.writeable, values; per AnyArray: which ndarray, _writeable; per Field: which AnyArray;
per DiagonalOperator: the diagonal it applies) are compared with the model inside coqc.
Direct oracle: a field (or the operator made from it) whose construction was admissible shows a
different value later; plus probes of the constructors / holders that are not in the model."""
import json

import numpy as np

from .. import common as C

HEADER = ("From Coq Require Import ZArith List Bool Arith. Import ListNotations.\n"
          "Require Import NV.C07.Model.\nOpen Scope nat_scope.\n")

# op name -> (argument kinds, number of implementation variants)
OPS = {
    "NewArr": ("V", 2), "NewArrRO": ("V", 2), "NdView": ("n", 4), "NdCopy": ("n", 1), "NdWrite": ("niv", 1), "NdIAdd": ("nn", 2),
    "MkAny": ("n", 1), "AnyLock": ("a", 1), "AnyVal": ("a", 1), "AnyAsNumpy": ("a", 1), "AnyView": ("a", 4),
    "AnySame": ("a", 3), "AnyCopy": ("a", 1), "AnySetItem": ("aiv", 1), "AnyIAdd": ("aa", 1),
    "AnyUfuncOut": ("aa", 1),
    "MkField": ("n", 3), "MkFieldAny": ("a", 2), "FieldFull": ("v", 2), "FieldCast": ("f", 1),
    "FieldVal": ("f", 1), "FieldRaw": ("f", 1), "FieldAsNumpy": ("f", 1), "FieldValRw": ("f", 1),
    "FieldAsNumpyRw": ("f", 1), "FieldAdd": ("ff", 2), "FieldClone": ("f", 3), "MkDiag": ("f", 2),
    "FieldNeg": ("f", 4),
}
EXN = {"ValueError": "EValue", "TypeError": "EType", "IndexError": "EIndex"}


class TaggedArray(np.ndarray):
    """Minimal user-defined ndarray subclass (an array carrying a unit)."""

    def __new__(cls, data, dtype=np.int64, tag="Jy"):
        obj = np.array(data, dtype=dtype).view(cls)
        obj.tag = tag
        return obj

    def __array_finalize__(self, obj):
        self.tag = getattr(obj, "tag", None)


class Runner:
    """Executes ops on real objects; keeps every object alive (so data pointers identify buffers)."""

    def __init__(self, L):
        import nifty.cl as ift
        self.ift = ift
        self.L = L
        self.dom = ift.DomainTuple.make(ift.RGSpace(L))
        self.dom2 = ift.DomainTuple.make(ift.UnstructuredDomain(L))
        self.nds, self.anys, self.flds, self.diags = [], [], [], []
        self.fld_entitled, self.fld_birth, self.diag_entitled, self.diag_birth = [], [], [], []

    # -- registration by identity
    @staticmethod
    def _find(lst, x):
        for i, y in enumerate(lst):
            if y is x:
                return i
        return None

    def _reg(self, lst, x):
        i = self._find(lst, x)
        if i is None:
            lst.append(x)
            i = len(lst) - 1
        return i

    def reg_any(self, a):
        self._reg(self.nds, a.val)
        return self._reg(self.anys, a)

    def reg_field(self, f, entitled):
        self.reg_any(f.val)
        i = self._reg(self.flds, f)
        if i == len(self.fld_entitled):
            self.fld_entitled.append(entitled)
            self.fld_birth.append(f.raw.tolist())
        return i

    def dom_of(self, f):
        return f.domain

    def obs_diag(self, k):
        op = self.diags[k]
        return op(self.ift.full(op.domain, 1)).raw.tolist()

    def src_ok(self, src):
        return all((x is src) or (not x.flags.writeable) or (not np.shares_memory(x, src)) for x in self.nds)

    def admissible(self, o):
        if o["op"] == "MkField":
            return self.src_ok(self.nds[o["args"][0]])
        if o["op"] == "MkFieldAny":
            return self.src_ok(self.anys[o["args"][0]].val)
        return True

    def do(self, o):
        """Returns the result descriptor; raises nothing."""
        try:
            return self._do(o)
        except Exception as e:   # anything but Value/Type/IndexError has no counterpart in the model
            return ("raise", type(e).__name__)

    def _do(self, o):
        ift, L = self.ift, self.L
        k, a, var = o["op"], o["args"], o.get("var", 0)
        nds, anys, flds = self.nds, self.anys, self.flds
        if k in ("NewArr", "NewArrRO"):
            x = np.array([int(v) for v in a[0]], dtype=np.int64) if var == 0 else TaggedArray([int(v) for v in a[0]])
            if k == "NewArrRO":
                x.flags.writeable = False
            return ("nd", self._reg(nds, x))
        if k == "NdView":
            x = nds[a[0]]
            y = [lambda: x.view(), lambda: x[:], lambda: x.reshape(L), lambda: x.T][var]()
            return ("nd", self._reg(nds, y))
        if k == "NdCopy":
            return ("nd", self._reg(nds, nds[a[0]].copy()))
        if k == "NdWrite":
            nds[a[0]][a[1]] = int(a[2])
            return ("none",)
        if k == "NdIAdd":
            x, y = nds[a[0]], nds[a[1]]
            if var == 0:
                x += y
            else:
                np.add(x, y, out=x)
            return ("none",)
        if k == "MkAny":
            return ("any", self.reg_any(ift.AnyArray(nds[a[0]])))
        if k == "AnyLock":
            anys[a[0]].lock()
            return ("none",)
        if k == "AnyVal":
            return ("nd", self._reg(nds, anys[a[0]].val))
        if k == "AnyAsNumpy":
            return ("nd", self._reg(nds, anys[a[0]].asnumpy()))
        if k == "AnyView":
            x = anys[a[0]]
            y = [lambda: x.view(), lambda: x[:], lambda: x.reshape(L), lambda: x.T][var]()
            return ("any", self.reg_any(y))
        if k == "AnySame":
            x = anys[a[0]]
            y = [lambda: x.conj(), lambda: x.conjugate(), lambda: x.real][var]()
            return ("any", self.reg_any(y))
        if k == "AnyCopy":
            return ("any", self.reg_any(anys[a[0]].copy()))
        if k == "AnySetItem":
            anys[a[0]][a[1]] = int(a[2])
            return ("none",)
        if k == "AnyIAdd":
            x = anys[a[0]]
            x += anys[a[1]]
            return ("any", self.reg_any(x))
        if k == "AnyUfuncOut":
            np.add(anys[a[0]], anys[a[1]], out=anys[a[0]])
            return ("none",)
        if k == "MkField":
            ok = self.admissible(o)
            x = nds[a[0]]
            f = [lambda: ift.Field(self.dom, x), lambda: ift.Field.from_raw(self.dom, x),
                 lambda: ift.makeField(self.dom, x)][var]()
            return ("fld", self.reg_field(f, ok))
        if k == "MkFieldAny":
            ok = self.admissible(o)
            x = anys[a[0]]
            f = [lambda: ift.Field(self.dom, x), lambda: ift.Field.from_raw(self.dom, x)][var]()
            return ("fld", self.reg_field(f, ok))
        if k == "FieldFull":
            f = [lambda: ift.Field.full(self.dom, int(a[0])), lambda: ift.full(self.dom, int(a[0]))][var]()
            return ("fld", self.reg_field(f, True))
        if k == "FieldCast":
            g = flds[a[0]]
            f = g.cast_domain(self.dom2 if g.domain is self.dom else self.dom)
            return ("fld", self.reg_field(f, self.fld_entitled[a[0]]))
        if k == "FieldVal":
            return ("any", self.reg_any(flds[a[0]].val))
        if k == "FieldRaw":
            return ("nd", self._reg(nds, flds[a[0]].raw))
        if k == "FieldAsNumpy":
            return ("nd", self._reg(nds, flds[a[0]].asnumpy()))
        if k == "FieldValRw":
            return ("any", self.reg_any(flds[a[0]].val_rw()))
        if k == "FieldAsNumpyRw":
            return ("nd", self._reg(nds, flds[a[0]].asnumpy_rw()))
        if k == "FieldAdd":
            f, g = flds[a[0]], flds[a[1]]
            if g.domain is not f.domain:   # the model has no domains: the generators never do this
                raise RuntimeError("generator must not combine fields on different domains")
            h = (f + g) if var == 0 else f.unite(g)
            return ("fld", self.reg_field(h, True))
        if k == "FieldNeg":
            f = flds[a[0]]
            g = [lambda: -f, lambda: f * (-1), lambda: (-1) * f, lambda: f.scale(-1)][var]()
            return ("fld", self.reg_field(g, True))
        if k == "FieldClone":
            import copy
            import pickle
            f = flds[a[0]]
            g = [lambda: pickle.loads(pickle.dumps(f)), lambda: pickle.loads(pickle.dumps(f, 0)), lambda: copy.deepcopy(f)][var]()
            return ("fld", self.reg_field(g, True))
        if k == "MkDiag":
            f = flds[a[0]]
            op = ift.makeOp(f) if var == 0 else ift.DiagonalOperator(f)
            self.diags.append(op)
            self.diag_entitled.append(self.fld_entitled[a[0]])
            self.diag_birth.append(f.raw.tolist())
            return ("diag", len(self.diags) - 1)
        raise RuntimeError("unknown op " + k)

    def snapshot(self):
        ptr = {}
        nd_s = []
        for x in self.nds:
            p = x.__array_interface__["data"][0]
            b = ptr.setdefault(p, len(ptr))
            nd_s.append((b, bool(x.flags.writeable), [int(v) for v in x.tolist()]))
        an_s = []
        for a in self.anys:
            i = self._find(self.nds, a.val)
            an_s.append((9999 if i is None else i, not a.readonly))
        fl_s = []
        for f in self.flds:
            i = self._find(self.anys, f.val)
            fl_s.append(9999 if i is None else i)
        dg_s = [[int(v) for v in self.obs_diag(k)] for k in range(len(self.diags))]
        return (nd_s, an_s, fl_s, dg_s)

    def changed(self):
        """The property itself: entitled fields / operators whose value differs from the value at birth."""
        out = []
        for i, f in enumerate(self.flds):
            if self.fld_entitled[i] and f.raw.tolist() != self.fld_birth[i]:
                out.append(("field", i, self.fld_birth[i], f.raw.tolist()))
        for i in range(len(self.diags)):
            if self.diag_entitled[i] and self.obs_diag(i) != self.diag_birth[i]:
                out.append(("operator", i, self.diag_birth[i], self.obs_diag(i)))
        return out


def run_history(L, ops):
    """Execute a history; returns per-step records and the first property failure (or None)."""
    r = Runner(L)
    steps = []
    fail = None
    ctor = {}
    for t, o in enumerate(ops):
        adm = r.admissible(o)
        nf = len(r.flds)
        res = r.do(o)
        if len(r.flds) > nf:
            ctor[nf] = o["op"]
        if o["op"] == "MkDiag" and res[0] == "diag":
            ctor[("d", res[1])] = "MkDiag"
        steps.append({"res": res, "adm": adm, "snap": r.snapshot()})
        if fail is None:
            ch = r.changed()
            if ch:
                kind, i, old, new = ch[0]
                c = ctor.get(i if kind == "field" else ("d", i), "?")
                fail = {"step": t, "kind": kind, "index": i, "birth": old, "now": new, "ctor": c,
                        "route": o["op"]}
    return steps, fail


# ---- Coq encoding ------------------------------------------------------------------------------

def zl(vs):
    return C.clist([C.cz(v) for v in vs])


def op_coq(o):
    k, a = o["op"], o["args"]
    kinds = OPS[k][0]
    parts = []
    for kd, x in zip(kinds, a):
        if kd == "V":
            parts.append(zl(x))
        elif kd == "v":
            parts.append(C.cz(x))
        else:
            parts.append(str(int(x)))
    return "(%s %s)" % (k, " ".join(parts))


def res_coq(r):
    if r[0] == "none":
        return "RNone"
    if r[0] == "raise":
        return "(RRaise %s)" % EXN[r[1]]
    return "(%s %d)" % ({"nd": "RNd", "any": "RAny", "fld": "RFld", "diag": "RDiag"}[r[0]], r[1])


def snap_coq(s):
    nd_s, an_s, fl_s, dg_s = s
    return "(%s, %s, %s, %s)" % (
        C.clist(["(%d, %s, %s)" % (b, C.cbool(w), zl(v)) for b, w, v in nd_s]),
        C.clist(["(%d, %s)" % (i, C.cbool(w)) for i, w in an_s]),
        C.clist([str(i) for i in fl_s]),
        C.clist([zl(v) for v in dg_s]))


def check_term(L, ops, steps):
    exp = C.clist(["(%s, %s, %s)" % (res_coq(s["res"]), C.cbool(s["adm"]), snap_coq(s["snap"])) for s in steps])
    return "check_hist %d init %s %s" % (L, C.clist([op_coq(o) for o in ops]), exp)


# ---- generation --------------------------------------------------------------------------------

def mk(op, *args, var=0):
    return {"op": op, "args": list(args), "var": var}


def systematic():
    """constructor x handle x write route, each a short history (L = 2)."""
    out = []
    ctors = {
        "MkField": [mk("NewArr", [1, 2]), mk("MkField", 0, var=1)],                      # nd0, any0, fld0
        "MkField_ctor": [mk("NewArr", [1, 2]), mk("MkField", 0, var=0)],
        "makeField": [mk("NewArr", [1, 2]), mk("MkField", 0, var=2)],
        "MkFieldAny": [mk("NewArr", [1, 2]), mk("MkAny", 0), mk("MkFieldAny", 0, var=0)],
        "from_raw_any": [mk("NewArr", [1, 2]), mk("MkAny", 0), mk("MkFieldAny", 0, var=1)],
        "MkField_subclass": [mk("NewArr", [1, 2], var=1), mk("MkField", 0, var=1)],
        "MkField_ctor_subclass": [mk("NewArr", [1, 2], var=1), mk("MkField", 0, var=0)],
        "MkFieldAny_subclass": [mk("NewArr", [1, 2], var=1), mk("MkAny", 0), mk("MkFieldAny", 0, var=0)],
        "MkField_readonly": [mk("NewArrRO", [1, 2]), mk("MkField", 0, var=2)],
        "FieldClone_pickle": [mk("NewArr", [1, 2]), mk("MkField", 0, var=1), mk("FieldClone", 0, var=0)],
        "FieldClone_deepcopy": [mk("FieldFull", 3), mk("FieldClone", 0, var=2)],
        "FieldFull": [mk("FieldFull", 3)],
        "FieldNeg": [mk("NewArr", [1, 2]), mk("MkField", 0, var=1), mk("FieldNeg", 0, var=0)],   # attack -f
        "FieldNeg_scalar": [mk("FieldFull", 3), mk("FieldNeg", 0, var=1)],
        "FieldAdd": [mk("FieldFull", 3), mk("FieldAdd", 0, 0), mk("FieldCast", 1)],       # attack field 1/2
        "view_first": [mk("NewArr", [1, 2]), mk("NdView", 0), mk("MkField", 0, var=1)],   # inadmissible
    }
    for cn, pre in ctors.items():
        r = Runner(2)
        for o in pre:
            r.do(o)
        f = len(r.flds) - 1
        n0, a0 = len(r.nds), len(r.anys)
        # handles: each is (ops to obtain it, kind, id-expression)
        handles = [
            ([], "n", 0 if r.nds else None),
            ([mk("FieldRaw", f)], "n", r._find(r.nds, r.flds[f].raw)),
            ([mk("FieldAsNumpy", f)], "n", r._find(r.nds, r.flds[f].raw)),
            ([mk("FieldRaw", f), mk("NdView", r._find(r.nds, r.flds[f].raw), var=1)], "n", n0),
            ([mk("FieldVal", f)], "a", r._find(r.anys, r.flds[f].val)),
            ([mk("AnyView", r._find(r.anys, r.flds[f].val), var=0)], "a", a0),
            ([mk("AnyView", r._find(r.anys, r.flds[f].val), var=2)], "a", a0),
            ([mk("AnySame", r._find(r.anys, r.flds[f].val), var=0)], "a", a0),
            ([mk("AnySame", r._find(r.anys, r.flds[f].val), var=2)], "a", a0),
            ([mk("MkAny", r._find(r.nds, r.flds[f].raw))], "a", a0),
            ([mk("FieldValRw", f)], "a", a0),
            ([mk("FieldAsNumpyRw", f)], "n", n0),
            ([mk("FieldCast", f), mk("FieldRaw", f + 1)], "n", r._find(r.nds, r.flds[f].raw)),
            ([mk("MkDiag", f, var=0)], "a", r._find(r.anys, r.flds[f].val)),
        ]
        if cn == "view_first":
            handles.append(([], "n", 1))
        for get, kind, hid in handles:
            if hid is None:
                continue
            if kind == "n":
                writes = [[mk("NdWrite", hid, 0, 9)], [mk("NdIAdd", hid, hid, var=0)], [mk("NdIAdd", hid, hid, var=1)]]
            else:
                writes = [[mk("AnySetItem", hid, 1, 9)], [mk("AnyIAdd", hid, hid)], [mk("AnyUfuncOut", hid, hid)],
                          [mk("AnyVal", hid), mk("AnyAsNumpy", hid)]]
            for w in writes:
                out.append((2, pre + get + w + [mk("MkDiag", f, var=1), mk("FieldAdd", f, f)]))
    return out


def random_history(rng, L, n):
    """Ops chosen against the live objects so that every id exists (deterministic given rng)."""
    r = Runner(L)
    ops = []
    names = list(OPS)
    w = {"NewArr": 3, "NewArrRO": 1, "FieldClone": 2, "FieldNeg": 2, "MkField": 4, "MkFieldAny": 3, "NdWrite": 4, "AnySetItem": 3, "NdIAdd": 2, "AnyIAdd": 2,
         "AnyUfuncOut": 2, "NdView": 2, "AnyView": 2, "AnySame": 2, "FieldRaw": 2, "FieldVal": 2, "MkAny": 2}
    p = np.array([w.get(k, 1) for k in names], dtype=float)
    p /= p.sum()
    tries = 0
    while len(ops) < n and tries < 20 * n:
        tries += 1
        k = names[int(rng.choice(len(names), p=p))]
        kinds, nv = OPS[k]
        args = []
        ok = True
        for kd in kinds:
            pool = {"n": r.nds, "a": r.anys, "f": r.flds}.get(kd)
            if kd == "V":
                args.append([int(x) for x in rng.integers(-9, 10, size=L)])
            elif kd == "v":
                args.append(int(rng.integers(-9, 10)))
            elif kd == "i":
                args.append(int(rng.integers(0, L)))
            elif not pool:
                ok = False
                break
            else:
                # prefer recent objects and objects that alias a field
                if rng.random() < 0.5:
                    args.append(int(rng.integers(max(0, len(pool) - 3), len(pool))))
                else:
                    args.append(int(rng.integers(0, len(pool))))
        if not ok:
            continue
        if k == "FieldAdd" and r.flds[args[0]].domain is not r.flds[args[1]].domain:
            continue
        o = mk(k, *args, var=int(rng.integers(0, nv)))
        r.do(o)
        ops.append(o)
    return ops


def gen_cases(ctx):
    rng = ctx.rng(7)
    cases = systematic()
    nrand = 260 if ctx.quick else 3000
    for i in range(nrand):
        L = int(rng.integers(1, 4))
        n = int(rng.integers(3, 13)) if ctx.quick else int(rng.integers(3, 31))
        cases.append((L, random_history(rng, L, n)))
    return cases


# ---- probes of constructors / holders outside the model (direct oracle only) ---------------------

def attack(h, np_, ift):
    """Try every write route through handle h; exceptions are the expected outcome."""
    routes = []
    if isinstance(h, np_.ndarray):
        routes = [lambda: h.__setitem__(Ellipsis, 77), lambda: h.__iadd__(1), lambda: np_.copyto(h, 77),
                  lambda: h.fill(77), lambda: np_.add(h, 1, out=h), lambda: h.view().__setitem__(Ellipsis, 77),
                  lambda: h.reshape(-1).__setitem__(0, 77), lambda: h.real.__setitem__(Ellipsis, 77),
                  lambda: h.T.__setitem__(Ellipsis, 77), lambda: np_.multiply(h, 0, out=h)]
    else:
        one = ift.AnyArray(np_.ones(h.shape, dtype=h.dtype))
        routes = [lambda: h.__setitem__(Ellipsis, 77), lambda: h.__iadd__(one), lambda: h.__imul__(one + one),
                  lambda: np_.add(h, one, out=h), lambda: np_.copyto(h, one), lambda: h.view().__setitem__(Ellipsis, 77),
                  lambda: h.val.__setitem__(Ellipsis, 77), lambda: h.asnumpy().__setitem__(Ellipsis, 77),
                  lambda: h.conj().__setitem__(Ellipsis, 77), lambda: h.real.__setitem__(Ellipsis, 77),
                  lambda: h.reshape(-1).__setitem__(0, 77), lambda: h[...].__setitem__(Ellipsis, 77),
                  lambda: h.T.val.__setitem__(Ellipsis, 77)]
    for i, rt in enumerate(routes):
        try:
            rt()
        except Exception:
            pass
        yield i


def probe_list():
    import nifty.cl as ift
    d1 = ift.RGSpace(3)
    d2 = ift.RGSpace((2, 2))
    dt2 = ift.DomainTuple.make((ift.RGSpace(2), ift.UnstructuredDomain(2)))

    def tl(x):
        return np.asarray(x).tolist()

    def P(name, build):
        return (name, build)

    def p_from_raw(dom, arr_fn, ctor):
        def build():
            src = arr_fn()
            f = ctor(dom, src)
            return {"observe": lambda: tl(f.raw), "handles": [src, f.raw, f.val, f.asnumpy(), f.val.val]}
        return build

    def p_complex():
        src = np.array([1 + 2j, 3 - 1j, 0.5j])
        f = ift.Field.from_raw(d1, src)
        re, im, cj = f.real, f.imag, f.conjugate()
        return {"observe": lambda: [tl(f.raw.view(float)), tl(re.raw), tl(im.raw), tl(cj.raw.view(float))],
                "handles": [src, f.raw, f.val, re.raw, im.raw, cj.raw, re.val, im.val]}

    def p_multi():
        a1, a2 = np.arange(3.), np.arange(4.).reshape(2, 2)
        md = ift.MultiDomain.make({"a": d1, "b": d2})
        mf = ift.MultiField.from_raw(md, {"a": a1, "b": a2})
        mg = ift.makeField(md, {"a": a1.copy(), "b": a2.copy()})
        v = mf.val
        return {"observe": lambda: [tl(mf["a"].raw), tl(mf["b"].raw), tl(mg["a"].raw)],
                "handles": [a1, a2, mf["a"].raw, mf["b"].val, v["a"], v["b"], mg["a"].raw] + list(mf.asnumpy().values())}

    def p_multi_dict():
        f1 = ift.Field.from_raw(d1, np.arange(3.))
        mf = ift.MultiField.from_dict({"x": f1})
        return {"observe": lambda: [tl(mf["x"].raw), tl(f1.raw)], "handles": [mf["x"].raw, f1.raw, mf.val["x"]]}

    def p_derived():
        f = ift.Field.from_raw(d1, np.array([1., 2., 3.]))
        g = [f.astype(np.float32), -f, abs(f), f.ptw("exp"), f * 2, 2 + f, f.cast_domain(ift.UnstructuredDomain(3)),
             ift.Field.from_random(d1), ift.Field.scalar(3.), ift.Field.from_raw(d1, 2.), ift.full(d1, 1.5),
             f.sum(), f.weight(1), f.scale(3.)]
        return {"observe": lambda: [tl(x.raw) for x in g] + [tl(f.raw)],
                "handles": [x.raw for x in g] + [x.val for x in g]}

    def p_ops():
        src = np.array([1., 2., 4.])
        f = ift.Field.from_raw(d1, src)
        x = ift.Field.from_raw(d1, np.array([1., 1., 1.]))
        dg = ift.makeOp(f)
        ad = ift.Adder(f)
        en = ift.GaussianEnergy(data=f)
        md = ift.MultiDomain.make({"a": d1})
        mf = ift.MultiField.from_dict({"a": f})
        bd = ift.makeOp(mf)
        xm = ift.MultiField.from_dict({"a": x})
        sub = ift.DiagonalOperator(ift.Field.from_raw(ift.RGSpace(2), np.array([3., 5.])), domain=dt2, spaces=0)
        xs = ift.full(dt2, 1.)
        return {"observe": lambda: [tl(dg(x).raw), tl(dg.inverse(x).raw), tl(ad(x).raw), tl(en(x).raw), tl(bd(xm)["a"].raw),
                                    tl(sub(xs).raw)],
                "handles": [src, f.raw, f.val, f.asnumpy(), x.raw, sub._ldiag if hasattr(sub, "_ldiag") else f.val]}

    def p_size1():
        src = np.array([5.])
        f = ift.Field.from_raw(ift.RGSpace(1), src)
        s0 = np.array(4.)
        g = ift.Field(ift.DomainTuple.scalar_domain(), s0)
        return {"observe": lambda: [tl(f.raw), tl(g.raw)], "handles": [src, f.raw, f.val, s0, g.raw, g.val]}

    def p_clones():
        import copy
        import pickle
        f = ift.Field.from_raw(d1, np.array([1., 2., 3.]))
        c = ift.Field.from_raw(d1, np.array([1 + 1j, 2, 3j]))
        mf = ift.MultiField.from_dict({"a": f, "b": c})
        g = [pickle.loads(pickle.dumps(f)), pickle.loads(pickle.dumps(f, 0)), copy.deepcopy(f), copy.copy(f),
             pickle.loads(pickle.dumps(c)), copy.deepcopy(c.real), pickle.loads(pickle.dumps(mf))["a"],
             copy.deepcopy(mf)["b"], copy.copy(mf)["a"], pickle.loads(pickle.dumps(ift.full(d1, 2.)))]
        av = [pickle.loads(pickle.dumps(f.val)), copy.deepcopy(f.val)]
        mo = pickle.loads(pickle.dumps(ift.makeOp(f)))
        x = ift.full(d1, 1.)
        return {"observe": lambda: [tl(z.raw.view(float)) for z in g] + [tl(z.val) for z in av] + [tl(mo(x).raw)],
                "handles": [z.raw for z in g] + [z.val for z in g] + av + [z.val for z in av]
                + [getattr(mo, "_ldiag", f.val)]}

    return [
        P("FieldClone (pickle / copy.deepcopy / copy.copy of Field, MultiField, AnyArray, DiagonalOperator)", p_clones),
        P("Field.from_raw(float ndarray)", p_from_raw(d1, lambda: np.array([1., 2., 3.]), ift.Field.from_raw)),
        P("makeField(2-D ndarray)", p_from_raw(d2, lambda: np.arange(4.).reshape(2, 2), ift.makeField)),
        P("Field.from_raw(AnyArray)", p_from_raw(d1, lambda: ift.AnyArray(np.array([1., 2., 3.])), ift.Field.from_raw)),
        P("Field(DomainTuple, int ndarray)", p_from_raw(ift.DomainTuple.make(d1), lambda: np.array([1, 2, 3]), ift.Field)),
        P("complex field, real/imag/conjugate", p_complex),
        P("MultiField.from_raw / makeField(dict)", p_multi),
        P("MultiField.from_dict", p_multi_dict),
        P("derived fields (astype, neg, abs, ptw, scalar ops, cast, random, scalar, full, sum, weight)", p_derived),
        P("makeOp / Adder / GaussianEnergy(data) / BlockDiagonal / sub-space diagonal", p_ops),
        P("size-1 and 0-d fields", p_size1),
    ]


def run_probe(name, build):
    """Returns (number of attacks, first failure or None)."""
    import nifty.cl as ift
    st = build()
    birth = json.dumps(st["observe"]())
    n = 0
    for hi, h in enumerate(st["handles"]):
        for ri in attack(h, np, ift):
            n += 1
            now = json.dumps(st["observe"]())
            if now != birth:
                return n, {"probe": name, "handle": hi, "handle_type": type(h).__name__, "route": ri,
                           "birth": birth, "now": now}
    return n, None


# ---- source-array kinds x constructors x writes through the SOURCE object (direct oracle) ----------

def source_kinds(tmpdir):
    """name -> (factory returning a fresh source array, domain kind '2d' | '0d')"""
    import os

    def base():
        return np.arange(12.).reshape(3, 4) + 1.

    def memmap():
        mm = np.memmap(os.path.join(tmpdir, "c07_src.bin"), dtype=np.float64, mode="w+", shape=(3, 4))
        mm[...] = base()
        return mm

    def noncontig():
        big = np.arange(24.).reshape(3, 8) + 1.
        return big[:, ::2]

    def readonly():
        x = base()
        x.flags.writeable = False
        return x

    return {
        "plain float64": (base, "2d"),
        "plain int64": (lambda: (np.arange(12).reshape(3, 4) + 1), "2d"),
        "plain complex128": (lambda: base() * (1 + 2j), "2d"),
        "Fortran order": (lambda: np.asfortranarray(base()), "2d"),
        "non-contiguous view": (noncontig, "2d"),
        "transposed view": (lambda: (np.arange(12.).reshape(4, 3) + 1.).T, "2d"),
        "read-only": (readonly, "2d"),
        "user subclass": (lambda: TaggedArray(base(), dtype=float), "2d"),
        "np.memmap": (memmap, "2d"),
        "np.ma.MaskedArray": (lambda: np.ma.masked_array(base()), "2d"),
        "np.matrix": (lambda: np.matrix(base()), "2d"),
        "np.recarray view": (lambda: base().view(np.recarray), "2d"),
        "0-d float64": (lambda: np.array(3.0), "0d"),
        "0-d int64": (lambda: np.array(3), "0d"),
        "0-d from reduction": (lambda: np.asarray(np.arange(4.).sum(keepdims=False)).reshape(()), "0d"),
        "0-d user subclass": (lambda: TaggedArray(3.0, dtype=float), "0d"),
    }


def source_writes(src):
    """every way to write through the source object itself (exceptions are the expected outcome)"""
    first = () if src.ndim == 0 else (0,) * src.ndim

    def isub():
        nonlocal src
        s = src
        s -= 5

    def iadd():
        s = src
        s += 1000

    return [
        ("item assignment", lambda: src.__setitem__(first, 99)),
        ("slice assignment", lambda: src.__setitem__(Ellipsis, -1)),
        ("fill", lambda: src.fill(43)),
        ("np.copyto", lambda: np.copyto(src, 44)),
        ("+=", iadd),
        ("-=", isub),
        ("ufunc out=", lambda: np.multiply(src, 2, out=src)),
        # not attacked: np.add.at -- ufunc.at of NumPy 2.5 writes through read-only arrays (a NumPy defect,
        # measured and recorded in the evidence by numpy_ufunc_at_ignores_readonly(); exclusion 4)
        ("put", lambda: src.put(0, 55)),
        ("np.put", lambda: np.put(src, [0], 56)),
        ("flat", lambda: src.flat.__setitem__(0, 57)),
        ("np.place", lambda: np.place(src, np.ones(src.shape, dtype=bool), 58)),
        ("np.putmask", lambda: np.putmask(src, np.ones(src.shape, dtype=bool), 59)),
        ("sort", lambda: src.sort()),
        ("byteswap inplace", lambda: src.byteswap(True)),
        ("view assignment", lambda: src.view().__setitem__(Ellipsis, 60)),
        ("reshape assignment", lambda: src.reshape(-1).__setitem__(0, 61)),
        ("np.asarray assignment", lambda: np.asarray(src).__setitem__(Ellipsis, 62)),
    ]


def source_grid(tmpdir):
    """yields (case name, number of writes attempted, failure dict or None).  The property on the
    implementation: after a field has been built from `src`, no write THROUGH `src` changes the
    field or the operators built from it.  (Other aliases the caller may hold are excluded.)"""
    import nifty.cl as ift
    d2 = ift.DomainTuple.make(ift.RGSpace((3, 4)))
    d0 = ift.DomainTuple.scalar_domain()
    ctors = {
        "Field()": lambda d, a: ift.Field(d, a),
        "Field.from_raw": lambda d, a: ift.Field.from_raw(d, a),
        "makeField": lambda d, a: ift.makeField(d, a),
        "MultiField.from_raw": lambda d, a: ift.MultiField.from_raw(ift.MultiDomain.make({"k": d}), {"k": a})["k"],
        "makeField(dict)": lambda d, a: ift.makeField(ift.MultiDomain.make({"k": d}), {"k": a})["k"],
        "Field(AnyArray)": lambda d, a: ift.Field(d, ift.AnyArray(a)),
        "Field.from_raw(AnyArray)": lambda d, a: ift.Field.from_raw(d, ift.AnyArray(a)),
    }
    for kname, (factory, dk) in source_kinds(tmpdir).items():
        dom = d2 if dk == "2d" else d0
        for cname, ctor in ctors.items():
            src = factory()
            try:
                f = ctor(dom, src)
            except (ValueError, TypeError):
                continue        # a constructor may refuse a source kind; then there is nothing to protect
            one = ift.full(dom, 1.)

            def lst(x):
                x = np.array(np.asarray(x), dtype=complex)
                return [x.real.tolist(), x.imag.tolist()]

            def observe():
                return json.dumps([lst(f.raw), lst(ift.Adder(f)(one).raw), lst(ift.makeOp(f)(one).raw)])
            adder, diag = ift.Adder(f), ift.makeOp(f)

            def observe_ops():
                return json.dumps([lst(adder(one).raw), lst(diag(one).raw)])
            birth, birth_ops = observe(), observe_ops()
            n = 0
            fail = None
            for wname, w in source_writes(src):
                n += 1
                try:
                    w()
                except Exception:
                    pass
                if observe() != birth or observe_ops() != birth_ops:
                    fail = {"source": kname, "ctor": cname, "write": wname}
                    break
            yield "%s from %s" % (cname, kname), n, fail


def numpy_ufunc_at_ignores_readonly():
    """NumPy fact N4 has a hole in some NumPy versions: ufunc.at does not check flags.writeable."""
    a = np.arange(3.)
    a.flags.writeable = False
    try:
        np.add.at(a, 0, 7)
    except ValueError:
        return False
    return bool(a[0] == 7.)


def ufunc_at_probe():
    """The route of the open known finding C07-K1, exercised on every run: np.<ufunc>.at through the
    handles a field gives out (and through its source array).  Returns the list of (handle, ufunc)
    pairs that changed the field (empty when NumPy enforces flags.writeable for ufunc.at)."""
    import nifty.cl as ift
    dom = ift.RGSpace(3)
    changed = []
    for hname in ("source", "raw", "asnumpy", "val.val", "val"):
        for uname in ("add", "multiply", "subtract", "maximum"):
            src = np.array([1., 2., 3.])
            f = ift.Field.from_raw(dom, src)
            birth = f.raw.tolist()
            h = {"source": src, "raw": f.raw, "asnumpy": f.asnumpy(), "val.val": f.val.val, "val": f.val}[hname]
            try:
                getattr(np, uname).at(h, 0, 7.)
            except Exception:
                pass
            if f.raw.tolist() != birth:
                changed.append([hname, uname])
    return changed


def clone_loses_write_protection():
    """the defect of finding C07-F3: a pickled / deep-copied field comes back with a writeable array"""
    import pickle
    import nifty.cl as ift
    f = ift.Field.from_raw(ift.RGSpace(2), np.array([1., 2.]))
    return bool(pickle.loads(pickle.dumps(f)).raw.flags.writeable)


def run_grid(ctx_dir, only=None):
    out = []
    for name, n, fail in source_grid(ctx_dir):
        if only is None or name == only:
            out.append((name, n, fail))
    return out


# ---- every public builder of Fields from caller data, enumerated from the source (tr/c07_builders.py) ----

class Persist:
    """Registry of the arrays the caller keeps (and may edit later)."""

    def __init__(self):
        self.arrays = []

    def __call__(self, a, dtype=float):
        a = a if isinstance(a, np.ndarray) else np.array(a, dtype=dtype)
        self.arrays.append(a)
        return a

    def fn(self, make):
        """a tabulated / memoised callable: evaluates once per argument shape, then serves the stored array"""
        store = {}

        def f(k):
            key = np.shape(k)
            if key not in store:
                store[key] = self(np.array(make(np.asarray(k)), dtype=float))
            return store[key]
        return f


def builder_recipes():
    """qualified name (as enumerated from the source) -> list of recipes (ift, P) -> built object(s)"""
    import nifty.cl as ift
    d1 = ift.RGSpace(4)
    d2 = ift.RGSpace((2, 3))
    dt1 = ift.DomainTuple.make(d1)
    hs = ift.RGSpace(8, harmonic=True)
    ps = ift.PowerSpace(hs)
    md = ift.MultiDomain.make({"a": d1, "b": d2})
    spec = lambda k: 42. / (1. + k) ** 2          # noqa: E731

    def F(P, dom=d1, off=1.):
        return ift.Field.from_raw(dom, P(np.arange(int(np.prod(ift.DomainTuple.make(dom).shape)), dtype=float).reshape(ift.DomainTuple.make(dom).shape) + off))

    R = {
        "nifty.cl.field:Field.__init__": [
            lambda P: ift.Field(dt1, P(np.arange(4.) + 1)),
            lambda P: ift.Field(dt1, ift.AnyArray(P(np.arange(4.) + 1))),
            lambda P: ift.Field(ift.DomainTuple.scalar_domain(), P(np.array(3.)))],
        "nifty.cl.field:Field.from_raw": [
            lambda P: ift.Field.from_raw(d1, P(np.arange(4.) + 1)),
            lambda P: ift.Field.from_raw(d2, P(np.arange(6.).reshape(2, 3) + 1)),
            lambda P: ift.Field.from_raw(d2, P((np.arange(6.).reshape(3, 2) + 1).T)),
            lambda P: ift.Field.from_raw(ift.DomainTuple.scalar_domain(), P(np.array(3.))),
            lambda P: ift.Field.from_raw(d1, P(np.array(3.)))],
        "nifty.cl.field:Field.full": [lambda P: ift.Field.full(d1, 3.), lambda P: ift.Field.full(d1, P(np.array(3.)))],
        "nifty.cl.field:Field.map": [
            lambda P: F(P).map(lambda v: ift.AnyArray(P(np.arange(4.) + 7))),
            lambda P: F(P).map(lambda v, keep=ift.AnyArray(P(np.arange(4.) + 7)): keep)],
        "nifty.cl.field:Field.cast_domain": [lambda P: F(P).cast_domain(ift.UnstructuredDomain(4))],
        "nifty.cl.field:Field.scalar": [lambda P: ift.Field.scalar(P(np.array(3.))), lambda P: ift.Field.scalar(3.)],
        "nifty.cl.any_array:AnyArray.full": [lambda P: ift.Field(dt1, ift.AnyArray.full((4,), 2.))],
        "nifty.cl.multi_field:MultiField.from_raw": [
            lambda P: ift.MultiField.from_raw(md, {"a": P(np.arange(4.)), "b": P(np.arange(6.).reshape(2, 3))})],
        "nifty.cl.multi_field:MultiField.from_dict": [lambda P: ift.MultiField.from_dict({"a": F(P), "b": F(P, d2)})],
        "nifty.cl.multi_field:MultiField.full": [lambda P: ift.MultiField.full(md, 2.)],
        "nifty.cl.sugar:makeField": [
            lambda P: ift.makeField(d1, P(np.arange(4.) + 1)),
            lambda P: ift.makeField(md, {"a": P(np.arange(4.)), "b": P(np.arange(6.).reshape(2, 3))}),
            lambda P: ift.makeField(ift.DomainTuple.scalar_domain(), P(np.array(2.)))],
        "nifty.cl.sugar:full": [lambda P: ift.full(d1, 3.), lambda P: ift.full(md, 3.)],
        "nifty.cl.sugar:PS_field": [
            lambda P: ift.PS_field(ps, P.fn(spec)),
            lambda P: ift.makeOp(ift.PS_field(ps, P.fn(spec)))],
        "nifty.cl.sugar:create_power_operator": [
            lambda P: ift.create_power_operator(hs, P.fn(spec)),
            lambda P: ift.create_power_operator((d1, hs), P.fn(spec), space=1, sampling_dtype=float),
            lambda P: ift.create_power_operator(hs, ift.PS_field(ps, P.fn(spec)))],
        "nifty.cl.sugar:get_signal_variance": [lambda P: ift.get_signal_variance(P.fn(spec), hs)],
        "nifty.cl.sugar:makeOp": [lambda P: ift.makeOp(F(P)), lambda P: ift.makeOp(ift.MultiField.from_dict({"a": F(P)}))],
        "nifty.cl.operators.adder:Adder.__init__": [lambda P: ift.Adder(F(P)), lambda P: ift.Adder(2., domain=d1)],
        "nifty.cl.operators.energy_operators:GaussianEnergy.__init__": [
            lambda P: ift.GaussianEnergy(data=F(P)), lambda P: ift.GaussianEnergy(data=F(P), inverse_covariance=ift.makeOp(F(P)))],
        "nifty.cl.operators.energy_operators:PoissonianEnergy.__init__": [
            lambda P: ift.PoissonianEnergy(ift.Field.from_raw(d1, P(np.arange(4) + 1, dtype=np.int64)))],
        "nifty.cl.operators.energy_operators:BernoulliEnergy.__init__": [
            lambda P: ift.BernoulliEnergy(ift.Field.from_raw(d1, P(np.array([0, 1, 1, 0]), dtype=np.int64)))],
        "nifty.cl.operators.energy_operators:InverseGammaEnergy.__init__": [lambda P: ift.InverseGammaEnergy(F(P), F(P, off=2.))],
        "nifty.cl.operators.mask_operator:MaskOperator.__init__": [
            lambda P: ift.MaskOperator(ift.Field.from_raw(d1, P(np.array([0, 1, 0, 0]), dtype=np.int64)))],
        "nifty.cl.operators.outer_product_operator:OuterProduct.__init__": [lambda P: ift.OuterProduct(d1, F(P, d2))],
        "nifty.cl.operators.simplify_for_const:ConstantOperator.__init__": [lambda P: __import__('nifty.cl.operators.simplify_for_const', fromlist=['x']).ConstantOperator(F(P), domain=d2)],
        "nifty.cl.operators.normal_operators:NormalTransform": [
            lambda P: ift.NormalTransform(P(np.arange(3.) + 1), P(np.arange(3.) + 2), "x", 3)],
        "nifty.cl.operators.normal_operators:LognormalTransform": [
            lambda P: ift.LognormalTransform(P(np.arange(3.) + 1), P(np.arange(3.) + 2), "x", 3)],
        "nifty.cl.utilities:value_reshaper": [lambda P: ift.makeField(ift.UnstructuredDomain(3), ift.utilities.value_reshaper(P(np.arange(3.)), 3))],
        "nifty.cl.utilities:lognormal_moments": [lambda P: ift.utilities.lognormal_moments(P(np.arange(3.) + 1), P(np.arange(3.) + 1), 3)],
        "nifty.cl.operators.matrix_product_operator:MatrixProductOperator.__init__": [
            lambda P: ift.MatrixProductOperator(d1, P(np.arange(16.).reshape(4, 4)))],
        "nifty.cl.operators.linear_interpolation:LinearInterpolator.__init__": [
            lambda P: ift.LinearInterpolator(d1, P(np.array([[0.5, 1.5, 2.25]])))],
        "nifty.cl.operators.distributors:DOFDistributor.__init__": [
            lambda P: ift.DOFDistributor(ift.Field.from_raw(d1, P(np.array([0, 1, 1, 0]), dtype=np.int64)))],
    }
    return R


R_FIELD = "the tainted parameters are Fields / MultiFields / Operators / energies / sample lists / domains (immutable by C07 itself or no array data); no caller array reaches a Field"
R_SCALAR = "scalars, shapes, index tuples, strings or flags only; no caller array reaches a Field"
R_RAW = "the caller's array is kept as a plain (unlocked) array / used to compute a table of the operator; no Field is built from it (outside C07: not a Field)"
BUILDER_EXEMPT = {
    "nifty.cl.library.correlated_fields:CorrelatedFieldMaker.offset_amplitude_realized": R_FIELD,
    "nifty.cl.library.correlated_fields:CorrelatedFieldMaker.slice_fluctuation_realized": R_FIELD,
    "nifty.cl.minimization.energy_adapter:EnergyAdapter.__init__": R_FIELD,
    "nifty.cl.minimization.quadratic_energy:QuadraticEnergy.__init__": R_FIELD,
    "nifty.cl.random:Random.normal": R_SCALAR, "nifty.cl.random:Random.uniform": R_SCALAR,
    "nifty.cl.utilities:my_lincomb": R_FIELD, "nifty.cl.utilities:my_lincomb_simple": R_FIELD,
    "nifty.cl.field:Field.broadcast": R_SCALAR, "nifty.cl.field:Field.outer": R_FIELD, "nifty.cl.field:Field.ptw": R_SCALAR,
    "nifty.cl.field:Field.ptw_with_deriv": R_SCALAR, "nifty.cl.field:Field.s_vdot": R_FIELD, "nifty.cl.field:Field.vdot": R_FIELD,
    "nifty.cl.field:Field.squeeze": R_SCALAR, "nifty.cl.field:Field.weight": R_SCALAR,
    "nifty.cl.multi_field:MultiField.clip": R_FIELD, "nifty.cl.multi_field:MultiField.extract_part": R_FIELD,
    "nifty.cl.multi_field:MultiField.flexible_addsub": R_FIELD, "nifty.cl.multi_field:MultiField.ptw": R_SCALAR,
    "nifty.cl.multi_field:MultiField.ptw_with_deriv": R_SCALAR, "nifty.cl.multi_field:MultiField.s_vdot": R_FIELD,
    "nifty.cl.multi_field:MultiField.unite": R_FIELD, "nifty.cl.multi_field:MultiField.vdot": R_FIELD,
    "nifty.cl.evidence_lower_bound:estimate_evidence_lower_bound": R_FIELD, "nifty.cl.extra:check_linear_operator": R_FIELD,
    "nifty.cl.extra:minisanity": R_FIELD, "nifty.cl.library.adjust_variances:do_adjust_variances": R_FIELD,
    "nifty.cl.library.adjust_variances:make_adjust_variances_hamiltonian": R_FIELD,
    "nifty.cl.library.correlated_fields:CorrelatedFieldMaker.average_fluctuation_realized": R_FIELD,
    "nifty.cl.library.correlated_fields_simple:SimpleCorrelatedField": R_SCALAR,
    "nifty.cl.library.los_response:LOSResponse.__init__": R_RAW, "nifty.cl.library.nft:Gridder.__init__": R_RAW,
    "nifty.cl.library.nft:Nufft.__init__": R_RAW, "nifty.cl.library.nft:ShiftedPositionFFT": R_SCALAR,
    "nifty.cl.library.nft:VariablePositionNufft.__init__": R_SCALAR,
    "nifty.cl.library.variational_models:FullCovarianceVI.__init__": R_FIELD,
    "nifty.cl.library.variational_models:MeanFieldVI.__init__": R_FIELD,
    "nifty.cl.library.wiener_filter_curvature:WienerFilterCurvature": R_FIELD,
    "nifty.cl.minimization.energy_adapter:StochasticEnergyAdapter.make": R_FIELD,
    "nifty.cl.minimization.kl_energies:SampledKLEnergy": R_FIELD, "nifty.cl.minimization.kl_energies:draw_samples": R_FIELD,
    "nifty.cl.minimization.optimize_kl:optimize_kl": R_FIELD, "nifty.cl.minimization.sample_list:SampleList.__init__": R_FIELD,
    "nifty.cl.multi_domain:MultiDomain.make": R_FIELD, "nifty.cl.multi_domain:MultiDomain.union": R_FIELD,
    "nifty.cl.operator_spectrum:operator_spectrum": R_FIELD, "nifty.cl.operator_tree_optimiser:optimise_operator": R_FIELD,
    "nifty.cl.operators.chain_operator:ChainOperator.make": R_FIELD,
    "nifty.cl.operators.contraction_operator:ContractionOperator.__init__": R_SCALAR,
    "nifty.cl.operators.domain_tuple_field_inserter:DomainTupleFieldInserter.__init__": R_SCALAR,
    "nifty.cl.operators.einsum:LinearEinsum.__init__": R_FIELD, "nifty.cl.operators.einsum:MultiLinearEinsum.__init__": R_FIELD,
    "nifty.cl.operators.energy_operators:CategoricalEnergy.__init__": R_FIELD,
    "nifty.cl.operators.energy_operators:StandardHamiltonian.__init__": R_FIELD,
    "nifty.cl.operators.field_zero_padder:FieldZeroPadder.__init__": R_SCALAR,
    "nifty.cl.operators.operator:Operator.identity_operator": R_FIELD,
    "nifty.cl.operators.regridding_operator:RegriddingOperator.__init__": R_SCALAR,
    "nifty.cl.operators.selection_operators:SliceOperator.__init__": R_SCALAR,
    "nifty.cl.operators.selection_operators:SplitOperator.__init__": R_SCALAR,
    "nifty.cl.operators.simple_linear_operators:ExtractAtIndices.__init__": R_RAW,
    "nifty.cl.operators.simple_linear_operators:PrependKey.__init__": R_SCALAR,
    "nifty.cl.operators.simple_linear_operators:ducktape": R_FIELD,
    "nifty.cl.operators.simplify_for_const:ConstantEnergyOperator.__init__": R_FIELD,
    "nifty.cl.operators.simplify_for_const:ConstantLikelihoodEnergyOperator.__init__": R_FIELD,
    "nifty.cl.operators.simplify_for_const:InsertionOperator.__init__": R_FIELD,
    "nifty.cl.operators.sum_operator:SumOperator.make": R_FIELD, "nifty.cl.operators.sum_operator:SumOperator.simplify": R_FIELD,
    "nifty.cl.operators.transpose_operator:TransposeOperator.__init__": R_SCALAR,
    "nifty.cl.probing:probe_diagonal": R_FIELD, "nifty.cl.sugar:calculate_position": R_FIELD,
    "nifty.cl.sugar:density_estimator": R_SCALAR, "nifty.cl.sugar:domain_union": R_FIELD, "nifty.cl.sugar:exec_time": R_FIELD,
    "nifty.cl.sugar:get_default_codomain": R_FIELD, "nifty.cl.sugar:plot_priorsamples": R_FIELD,
}


def reachable_claims(obj, limit=400):
    """Fields and LOCKED AnyArrays reachable from obj (through attributes, tuples, lists, dicts): the
    objects that claim to be immutable.  Returns a list of ndarray-returning thunks."""
    import nifty.cl as ift
    seen, out, stack = set(), [], [(obj, 0)]
    while stack and len(seen) < limit:
        o, dep = stack.pop()
        if id(o) in seen or dep > 6:
            continue
        seen.add(id(o))
        if isinstance(o, ift.Field):
            out.append(o.val)
            continue
        if isinstance(o, ift.AnyArray):
            if o.readonly:
                out.append(o)
            continue
        if isinstance(o, (str, bytes, int, float, complex, np.ndarray, type(None))) or isinstance(o, type):
            continue
        if isinstance(o, dict):
            stack += [(v, dep + 1) for v in o.values()]
        elif isinstance(o, (list, tuple, set, frozenset)):
            stack += [(v, dep + 1) for v in o]
        elif isinstance(o, ift.MultiField):
            stack += [(v, dep + 1) for v in o.values()]
        elif hasattr(o, "__dict__") and type(o).__module__.startswith("nifty."):
            stack += [(v, dep + 1) for v in vars(o).values()]
    return out


def run_builder(qual, idx, recipe):
    """(writes attempted, failure | None): build with persistent arrays, then edit them in place"""
    P = Persist()
    try:
        obj = recipe(P)
    except (ValueError, TypeError):
        return 0, None          # the builder refused this kind of input: nothing to protect
    claims = reachable_claims(obj)

    def snap():
        return json.dumps([[np.array(np.asarray(a.val), dtype=complex).real.tolist(),
                            np.array(np.asarray(a.val), dtype=complex).imag.tolist()] for a in claims])
    birth = snap()
    n = 0
    for ai, src in enumerate(P.arrays):
        for wname, w in source_writes(src):
            n += 1
            try:
                w()
            except Exception:
                pass
            if snap() != birth:
                return n, {"builder": qual, "recipe": idx, "array": ai, "write": wname, "claims": len(claims)}
    return n, None


def run_builders(only=None):
    out = []
    for qual, recipes in sorted(builder_recipes().items()):
        for idx, rc in enumerate(recipes):
            if only is None or only == [qual, idx]:
                out.append((qual, idx) + run_builder(qual, idx, rc))
    return out


# ---- container handles (dicts / lists handed out by accessors), enumerated from the live classes ------

def _zero_arg_accessors(cls):
    """public properties and methods without required arguments that the class itself defines"""
    import inspect
    out = []
    for name, member in sorted(vars(cls).items()):
        if name.startswith("_"):
            continue
        if isinstance(member, property):
            out.append((name, "prop"))
        elif inspect.isfunction(member):
            ps = list(inspect.signature(member).parameters.values())[1:]
            if all(p.default is not inspect.Parameter.empty or p.kind in (p.VAR_POSITIONAL, p.VAR_KEYWORD) for p in ps):
                out.append((name, "call"))
    return out


def _canon(x, depth=0):
    import nifty.cl as ift
    if depth > 4:
        return "..."
    if isinstance(x, ift.Field):
        return ["Field", repr(x.domain), np.asarray(x.raw).astype(complex).real.tolist(), np.asarray(x.raw).astype(complex).imag.tolist()]
    if isinstance(x, ift.AnyArray):
        return ["AnyArray", np.asarray(x.val).astype(complex).real.tolist(), np.asarray(x.val).astype(complex).imag.tolist()]
    if isinstance(x, np.ndarray):
        return ["nd", x.astype(complex).real.tolist(), x.astype(complex).imag.tolist()]
    if isinstance(x, ift.MultiField):
        return ["MultiField", [[k, _canon(v, depth + 1)] for k, v in x.items()]]
    if isinstance(x, dict) or type(x).__name__ == "frozendict":
        return ["dict", [[repr(k), _canon(v, depth + 1)] for k, v in sorted(x.items(), key=lambda kv: repr(kv[0]))]]
    if isinstance(x, (list, tuple)):
        return [type(x).__name__, [_canon(v, depth + 1) for v in x]]
    if isinstance(x, (int, float, complex, str, bool, type(None), np.generic)):
        return repr(x)
    if isinstance(x, (ift.DomainTuple, ift.MultiDomain, ift.Domain, np.dtype, type)):
        return repr(x)
    return "<%s>" % type(x).__name__        # iterators, operators ...: identity not observed


def _read_all(obj, accessors):
    out = {}
    for name, kind in accessors:
        try:
            v = getattr(obj, name)
            if kind == "call":
                v = v()
            if hasattr(v, "__next__"):
                v = list(v)
            out[name] = _canon(v)
        except Exception as e:
            out[name] = "raised " + type(e).__name__
    if hasattr(obj, "keys") and hasattr(obj, "__getitem__"):
        try:
            out["[key]"] = [[k, _canon(obj[k])] for k in obj.keys()]
        except Exception as e:
            out["[key]"] = "raised " + type(e).__name__
    return json.dumps(out, sort_keys=True, default=str)


def _mutations(h, spare):
    """in-place edits of a container handle (exceptions are fine: immutable containers refuse)"""
    if isinstance(h, dict):
        ks = list(h.keys())
        return [("setitem", lambda: h.__setitem__(ks[0], spare)), ("del", lambda: h.__delitem__(ks[-1])),
                ("new key", lambda: h.__setitem__("zz", spare)), ("update", lambda: h.update({k: spare for k in ks})),
                ("pop", lambda: h.pop(ks[0])), ("clear", lambda: h.clear())]
    if isinstance(h, list):
        return [("setitem", lambda: h.__setitem__(0, spare)), ("append", lambda: h.append(spare)), ("pop", lambda: h.pop()),
                ("reverse", lambda: h.reverse()), ("clear", lambda: h.clear())]
    if isinstance(h, set):
        return [("add", lambda: h.add("zz")), ("clear", lambda: h.clear())]
    muts = []
    for name in ("__setitem__", "__delitem__", "clear", "update"):
        if hasattr(h, name) and not isinstance(h, (np.ndarray, str, bytes)) and type(h).__module__ != "nifty.cl.any_array":
            if name == "__setitem__":
                muts.append((name, lambda: h.__setitem__(next(iter(h)), spare)))
            elif name == "__delitem__":
                muts.append((name, lambda: h.__delitem__(next(iter(h)))))
            elif name == "clear":
                muts.append((name, lambda: h.clear()))
    return muts


def container_probe():
    """For Field, MultiField, DomainTuple and MultiDomain objects: every container an accessor hands out
    is edited in place; afterwards every accessor (and indexing) must report what it reported before.
    yields (case name, edits attempted, failure | None)"""
    import nifty.cl as ift
    d1, d2 = ift.RGSpace(3), ift.RGSpace((2, 2))
    f = ift.Field.from_raw(d1, np.array([1., 2., 3.]))
    g = ift.Field.from_raw(d2, np.arange(4.).reshape(2, 2) + 1j)
    objs = {
        "MultiField": lambda: ift.MultiField.from_dict({"a": f, "b": g}),
        "MultiField.from_raw": lambda: ift.MultiField.from_raw(ift.MultiDomain.make({"a": d1, "b": d2}),
                                                               {"a": np.array([1., 2., 3.]), "b": np.ones((2, 2))}),
        "Field": lambda: ift.Field.from_raw(ift.DomainTuple.make((d1, d2)), np.arange(12.).reshape(3, 2, 2)),
        "MultiDomain": lambda: ift.MultiDomain.make({"a": d1, "b": d2}),
        "DomainTuple": lambda: ift.DomainTuple.make((d1, d2)),
    }
    spare = ift.AnyArray(np.array([9., 9., 9.]))
    for oname, make in objs.items():
        obj0 = make()
        acc = _zero_arg_accessors(type(obj0))
        for name, kind in acc:
            obj = make()
            birth = _read_all(obj, acc)
            try:
                h = getattr(obj, name)
                if kind == "call":
                    h = h()
            except Exception:
                continue
            n, fail = 0, None
            for mname, mut in _mutations(h, spare):
                n += 1
                try:
                    mut()
                except Exception:
                    pass
                if _read_all(obj, acc) != birth:
                    fail = {"object": oname, "accessor": name, "edit": mname}
                    break
            if n:
                yield "%s.%s" % (oname, name), n, fail


class C07(C.Check):
    prop = "C07"
    coq_dir = "C07"
    trusted_base = [
        "Coq 8.16.1 kernel (coqc, vm_compute for the correspondence evaluation); all C07 theorems are closed under the global context",
        "hand-written model coq/C07/Model.v of AnyArray/Field/DiagonalOperator and of the five NumPy facts N1-N5 (tied by correspondence: results, exception classes and the complete object graph after every step)",
        "NumPy itself (flags.writeable enforcement); identification of buffers by data pointer with all objects kept alive",
        "1-D int64 arrays of one length per history, full views only; CPU only (cupy has no read-only flag)",
    ]
    assumptions = [
        "excluded: the user sets ndarray.flags.writeable = True by hand",
        "excluded: handles reached through ndarray.base",
        "open known finding C07-K1, outside the model's vocabulary (no ufunc.at op): NumPy's ufunc.at ignores flags.writeable (NumPy 2.5.3), so np.add.at(f.raw, 0, 1) changes a field; exercised by the oracle on every run and reported as KNOWN-FINDING while it reproduces",
        "caller-side precondition (adm_run): when a field is built from a caller-supplied array, the caller holds no other writeable ndarray object on the same memory (e.g. a view made earlier, or the base of which the source is a view) -- NumPy gives a wrapper no way to revoke those",
    ]

    def __init__(self):
        self.runs = []
        self.builders = {}

    def translate(self, ctx):
        """Enumerate from the source of the tree under test every public entry point through which caller
        data can reach a Field; each needs a recipe or a stated exemption (fail closed)."""
        from tr import c07_builders
        self.builders = c07_builders.enumerate_builders(ctx.repo)
        need = c07_builders.needs_recipe(self.builders)
        have = set(builder_recipes()) | set(BUILDER_EXEMPT)
        missing = sorted(set(need) - have)
        if missing:
            raise C.TranslationError("public builders of Fields from caller data without a recipe or exemption "
                                     "(harness/props/c07.py builder_recipes / BUILDER_EXEMPT): %s" % missing)

    def correspondence(self, ctx, res):
        cases = [(c["input"]["L"], c["input"]["ops"]) for c in ctx.corpus() if c.get("input", {}).get("kind") == "history"]
        ncorp = len(cases)
        cases += gen_cases(ctx)
        self.runs = []
        checks = []
        for L, ops in cases:
            steps, fail = run_history(L, ops)
            self.runs.append({"L": L, "ops": ops, "steps": steps, "fail": fail})
            if any(s["res"][0] == "raise" and s["res"][1] not in EXN for s in steps):
                checks.append("false")
            else:
                checks.append(check_term(L, ops, steps))
        bad = C.eval_cases(self.prop, "corr", HEADER, checks, shard=150, jobs=6)
        clone_defect = clone_loses_write_protection() if bad else False
        for i in bad[:3]:
            rr = self.runs[i]
            if clone_defect and any(o["op"] == "FieldClone" for o in rr["ops"]):
                # the disagreement lies inside finding C07-F3 (reported by the oracle as failing input)
                res.add_broken("correspondence", "history with FieldClone vs coq/C07/Model.v (finding C07-F3)",
                               {"L": rr["L"], "ops": rr["ops"]})
                res.broken[-1]["covered_by_known"] = True
                continue
            res.add_broken("correspondence", "history vs coq/C07/Model.v",
                           {"L": rr["L"], "ops": rr["ops"], "results": [s["res"] for s in rr["steps"]],
                            "adm": [s["adm"] for s in rr["steps"]], "last_snapshot": rr["steps"][-1]["snap"] if rr["steps"] else None})
        sigs = set()
        opcount = {}
        nraise = 0
        ninadm = 0
        for rr in self.runs:
            if any(s["res"][0] == "raise" for s in rr["steps"]) and any(o["op"].startswith(("MkField", "Field")) for o in rr["ops"]):
                sigs.add(json.dumps([rr["L"], [(o["op"], o["args"]) for o in rr["ops"]]]))
            nraise += sum(1 for s in rr["steps"] if s["res"][0] == "raise")
            ninadm += sum(1 for s in rr["steps"] if not s["adm"])
            for o in rr["ops"]:
                opcount[o["op"]] = opcount.get(o["op"], 0) + 1
        res.coverage.update({
            "evaluations": len(cases), "distinct_nontrivial": len(sigs),
            "rule": "histories of public operations (28 kinds, several API variants each): %d from corpus, constructor x handle x write-route grid (L=2), random histories of length 3..%d over L in 1..3; non-trivial = creates a field and contains at least one write that raised; distinct by (L, op list)" % (ncorp, 12 if ctx.quick else 30),
            "samples": [{"L": rr["L"], "ops": [[o["op"]] + o["args"] for o in rr["ops"]], "results": [list(s["res"]) for s in rr["steps"]]}
                        for rr in self.runs[ncorp + 3:ncorp + 5]],
            "input_distribution": {"ops": opcount, "steps": sum(len(rr["ops"]) for rr in self.runs),
                                   "writes_that_raised": nraise, "inadmissible_steps": ninadm},
            "disagreements": len(bad),
            "compared_per_step": "result (object identity / exception class), admissibility, every ndarray (buffer, writeable, values), every AnyArray (ndarray, _writeable), every Field (AnyArray), every DiagonalOperator (applied diagonal)",
            "exclusions": self.assumptions,
        })
        return bad

    def oracle(self, ctx, res, hints, budget):
        n = 0
        nfail = 0
        for rr in self.runs:
            n += sum(1 for _ in rr["steps"])
            f = rr["fail"]
            if f and nfail < 3:
                nfail += 1
                res.add_failing({"what": "field value changed", "ctor": f["ctor"], "route": f["route"]},
                                "%s %d built by %s shows %s instead of %s after step %d (%s)" % (
                                    f["kind"], f["index"], f["ctor"], f["now"], f["birth"], f["step"], f["route"]),
                                {"kind": "history", "L": rr["L"], "ops": rr["ops"][:f["step"] + 1]})
        for name, build in probe_list():
            k, f = run_probe(name, build)
            n += k
            if f and nfail < 6:
                nfail += 1
                res.add_failing({"what": "field value changed", "ctor": "FieldClone" if name.startswith("FieldClone") else name,
                                 "route": "probe/%s/%d" % (f["handle_type"], f["route"])},
                                "probe '%s': value changed after write route %d through handle %d (%s)" % (
                                    name, f["route"], f["handle"], f["handle_type"]),
                                {"kind": "probe", "name": name})
        ngrid = 0
        for name, k, f in run_grid(ctx.run_dir()):
            n += k
            ngrid += 1
            if f and nfail < 8:
                nfail += 1
                res.add_failing({"what": "field value changed", "ctor": f["ctor"], "route": "source/%s/%s" % (f["source"], f["write"])},
                                "%s built from a %s source changed after '%s' through the source array" % (f["ctor"], f["source"], f["write"]),
                                {"kind": "grid", "name": name})
        res.coverage["source_grid_cases"] = ngrid
        nb = 0
        for qual, idx, k, f in run_builders():
            n += k
            nb += 1
            if f and nfail < 10:
                nfail += 1
                res.add_failing({"what": "field value changed", "ctor": qual, "route": "persistent array/%s" % f["write"]},
                                "%s (recipe %d): a field / locked array built from caller data changed after '%s' through the array the caller kept" % (qual, idx, f["write"]),
                                {"kind": "builder", "name": qual, "recipe": idx})
        ncont = 0
        for name, k, f in container_probe():
            n += k
            ncont += 1
            if f and nfail < 12:
                nfail += 1
                res.add_failing({"what": "field value changed", "ctor": f["object"], "route": "container/%s/%s" % (f["accessor"], f["edit"])},
                                "%s: after editing the container returned by .%s in place ('%s') the object reports different contents" % (f["object"], f["accessor"], f["edit"]),
                                {"kind": "container", "name": name})
        res.coverage["container_handles_edited"] = ncont
        res.coverage["builders_enumerated_from_source"] = len(self.builders)
        res.coverage["builders_with_data_parameters"] = {"recipes": sorted(builder_recipes()), "recipe_runs": nb,
                                                         "exempt": {k: v[:40] for k, v in sorted(BUILDER_EXEMPT.items())}}
        res.coverage["numpy_ufunc_at_ignores_readonly"] = numpy_ufunc_at_ignores_readonly()
        ch = ufunc_at_probe()
        n += 20
        res.coverage["ufunc_at_routes_that_change_a_field"] = ch
        if ch:
            # open known finding C07-K1 (signature route = ufunc.at); anything else stays a VIOLATION
            res.add_failing({"route": "ufunc.at"},
                            "np.%s.at through %s changed a field (NumPy's ufunc.at ignores flags.writeable)" % (ch[0][1], ch[0][0]),
                            {"kind": "ufunc_at"})
        if budget > 1 and not [x for x in res.failing if x["signature"].get("route") != "ufunc.at"]:
            rng = ctx.rng(99)
            for i in range(1500):
                L = int(rng.integers(1, 4))
                ops = random_history(rng, L, int(rng.integers(3, 25)))
                steps, f = run_history(L, ops)
                n += len(steps)
                if f:
                    res.add_failing({"what": "field value changed", "ctor": f["ctor"], "route": f["route"]},
                                    "%s %d built by %s changed after step %d (%s)" % (f["kind"], f["index"], f["ctor"], f["step"], f["route"]),
                                    {"kind": "history", "L": L, "ops": ops[:f["step"] + 1]})
                    break
        res.coverage["impl_property_evaluations"] = n

    def replay(self, ctx, rp):
        i = rp["input"]
        if i["kind"] == "history":
            return run_history(i["L"], i["ops"])[1] is not None
        if i["kind"] == "container":
            return any(f for name, k, f in container_probe() if name == i["name"])
        if i["kind"] == "builder":
            r = run_builders(only=[i["name"], i["recipe"]])
            if not r:
                raise C.MachineryError("unknown builder recipe %r" % i)
            return r[0][3] is not None
        if i["kind"] == "ufunc_at":
            return bool(ufunc_at_probe())
        if i["kind"] == "grid":
            r = run_grid(ctx.run_dir(), only=i["name"])
            if not r:
                raise C.MachineryError("unknown grid case " + i["name"])
            return r[0][2] is not None
        for name, build in probe_list():
            if name == i["name"]:
                return run_probe(name, build)[1] is not None
        raise C.MachineryError("unknown probe " + i["name"])


CHECK = C07()
