"""C13 -- Gaussian sampling from covariance operators has the right covariance.

Tie: hand model coq/C13/Model.v of the draw_sample methods + correspondence by NOISE INJECTION: the
numpy Generator that nifty.cl.random.Random.normal draws from is replaced by a feeder that returns the
noise basis, which extracts the matrix T (sample = T xi) of the implementation exactly; the operator
object is read back structurally (type, _factor/_ldiag/_trafo/_dtype/_bun/_cheese/_ops/...) into a
model term and T, the number of noise blocks, or the exception class are compared inside coqc
(exact with power-of-4 variances and dyadic buns; 1e-8 where conjugate gradient is involved).
Direct oracle (independent of Coq): T T^H against the dense operator (forward) / T T^H C = 1 (inverse),
zero mean, linearity in the noise, and the refusal rule of the property statement."""
import contextlib
import io
import json
import os
import re
import shutil
import subprocess
from fractions import Fraction

import numpy as np

from .. import common as C

DT = {None: "DNone", "f": "DReal", "c": "DComplex"}
EXC = {"ValueError": "RValueError", "NotImplementedError": "RNotImplemented", "RuntimeError": "RRuntimeError"}
VARS = [1.0, 4.0, 0.25, 16.0, 0.0625, 64.0, 1.0, 4.0]          # powers of 4: square roots and their inverses are exact in float64
BAD = [0.0, -1.0, -4.0]


# ---------------------------------------------------------------------------------------------
# noise injection
# ---------------------------------------------------------------------------------------------
class Feeder:
    """stands in for numpy's Generator: normal(mean, std, shape) = mean + std * (a basis block)"""

    def __init__(self, hot=None):
        self.hot = hot          # (block, index) or None for zero noise; or a dict {(b, i): value}
        self.sizes = []

    def normal(self, loc=0.0, scale=1.0, size=None):
        shape = tuple(np.atleast_1d(size)) if size is not None else ()
        n = int(np.prod(shape)) if shape else 1
        b = len(self.sizes)
        self.sizes.append(n)
        v = np.zeros(n)
        if isinstance(self.hot, dict):
            for (bb, i), val in self.hot.items():
                if bb == b and i < n:
                    v[i] = val
        elif self.hot is not None and self.hot[0] == b and self.hot[1] < n:
            v[self.hot[1]] = 1.0
        return loc + scale * v.reshape(shape)


def draw_with(op, inv, hot):
    from nifty.cl import random as nrandom
    f = Feeder(hot)
    nrandom._rng.append(f)
    nrandom._sseq.append(nrandom._sseq[-1])
    try:
        s = op.draw_sample(from_inverse=inv)
    finally:
        nrandom._rng.pop()
        nrandom._sseq.pop()
    return s, f.sizes


def flat(ift, f):
    if isinstance(f, ift.MultiField):
        return np.concatenate([np.asarray(f[k].asnumpy()).reshape(-1) for k in f.domain.keys()])
    return np.asarray(f.asnumpy()).reshape(-1)


def to_field(ift, dom, v):
    if isinstance(dom, ift.DomainTuple):
        return ift.Field.from_raw(dom, np.array(v).reshape(dom.shape))
    out, off = {}, 0
    for k in dom.keys():
        n = dom[k].size
        out[k] = ift.Field.from_raw(dom[k], np.array(v[off:off + n]).reshape(dom[k].shape))
        off += n
    return ift.MultiField.from_dict(out, domain=dom)


def dense(ift, op, mode=1):
    d = op._dom(mode)
    n = int(d.size)
    cols = []
    for j in range(n):
        e = np.zeros(n)
        e[j] = 1.0
        cols.append(flat(ift, op.apply(to_field(ift, d, e), mode)))
    return np.array(cols).T.reshape(int(op._tgt(mode).size), n)


def extract(ift, op, inv):
    """('raise', class name) or ('T', sizes, T complex n x K)"""
    try:
        s0, sizes = draw_with(op, inv, None)
    except (ValueError, NotImplementedError, RuntimeError) as ex:
        return ("raise", type(ex).__name__, str(ex)[:100])
    zero = flat(ift, s0)
    cols = []
    for b, n in enumerate(sizes):
        for i in range(n):
            s, sz = draw_with(op, inv, (b, i))
            if sz != sizes:
                raise C.MachineryError("noise request pattern depends on the noise values")
            cols.append(flat(ift, s).astype(complex))
    T = np.array(cols).T.reshape(zero.size, sum(sizes)) if cols else np.zeros((zero.size, 0), dtype=complex)
    return ("T", sizes, T, zero)


# ---------------------------------------------------------------------------------------------
# operator specifications (JSON) and their construction with the real API
# ---------------------------------------------------------------------------------------------
def np_dtype(dt):
    return {None: None, "f": np.float64, "c": np.complex128}[dt]


def mk_dom(ift, n):
    return ift.DomainTuple.make(ift.RGSpace(int(n), distances=0.5))


INV_MATS = {
    1: [([[2.0]], [[0.5]]), ([[-1.0]], [[-1.0]])],
    2: [([[1.0, 2.0], [0.0, 1.0]], None), ([[2.0, 0.0], [1.0, 0.5]], None), ([[0.0, 1.0], [1.0, 0.0]], None)],
    3: [([[1.0, 1.0, 0.0], [0.0, 1.0, 2.0], [0.0, 0.0, 1.0]], None), ([[0.0, 2.0, 0.0], [1.0, 0.0, 0.0], [0.0, 1.0, 4.0]], None)],
}


def build(ift, s, dom):
    """operator of spec s on the DomainTuple dom (blocks: their own MultiDomain)"""
    if isinstance(dom, int):
        dom = mk_dom(ift, dom)
    k = s[0]
    if k == "scal":
        c = complex(s[1], s[2])
        return ift.ScalingOperator(dom, c if s[2] else s[1], np_dtype(s[3]))
    if k == "diag":
        v = np.array(s[1], dtype=float)
        if s[2]:
            v = v + 1j * np.array(s[2])
        return ift.DiagonalOperator(ift.Field.from_raw(dom, v.reshape(dom.shape)), sampling_dtype=np_dtype(s[3]))
    if k == "diag2":      # partial-space diagonal on a two-space domain (n = a*b)
        a, b = s[4]
        d = ift.DomainTuple.make((ift.RGSpace(a, distances=0.5), ift.UnstructuredDomain(b)))
        sub = ift.DomainTuple.make(d[s[5]])
        return ift.DiagonalOperator(ift.Field.from_raw(sub, np.array(s[1], dtype=float)), domain=d, spaces=s[5],
                                    sampling_dtype=np_dtype(s[3]))
    if k == "inverse":
        return build(ift, s[1], dom).inverse
    if k == "adjoint":
        return build(ift, s[1], dom).adjoint
    if k == "sandwich":
        bun = build_bun(ift, s[1], dom)
        cheese = None if s[2] is None else build(ift, s[2], bun.target)
        return ift.SandwichOperator.make(bun, cheese, sampling_dtype=np_dtype(s[3]))
    if k == "sum":
        ops = [build(ift, o, dom) for o in s[1]]
        r = ops[0]
        for o in ops[1:]:
            r = r + o
        return r
    if k == "block":
        md = ift.MultiDomain.make({kk: mk_dom(ift, v[0]) for kk, v in s[1].items()})
        ops = {kk: build(ift, v[1], md[kk]) for kk, v in s[1].items() if v[1] is not None}
        return ift.BlockDiagonalOperator(md, ops)
    if k == "hist":
        # a history on ONE DiagonalOperator object: first use it (sample / inverse sample / get_sqrt, which may
        # refuse and fills the lazily cached minimum), then derive a new operator by a scalar scaling or
        # shift, which is the operator under test
        D = build(ift, s[1], dom)
        for act in s[2]:
            try:
                if act == "draw":
                    draw_with(D, False, None)
                elif act == "draw_inv":
                    draw_with(D, True, None)
                elif act == "sqrt":
                    D.get_sqrt()
            except (ValueError, NotImplementedError, RuntimeError):
                pass
        how, c = s[3]
        if how == "scale":
            return D.scale(c)
        if how == "neg":
            return -D
        if how == "rmul":
            return c * D
        return D + ift.ScalingOperator(D.domain, c, D.sampling_dtype)       # "add": a scalar shift
    if k == "mdscal":
        # ScalingOperator(MultiDomain, f, sampling_dtype={key: dtype}); the dict is given in the listed
        # (not necessarily alphabetical) order
        md = ift.MultiDomain.make({kk: mk_dom(ift, n_) for kk, n_, _ in s[2]})
        dt = {kk: np_dtype(d_) for kk, _, d_ in s[2]}
        if s[3]:                                   # one dtype for all keys instead of a dict
            dt = np_dtype(s[2][0][2])
        return ift.ScalingOperator(md, s[1], dt)
    if k == "mdsum":
        # summands on (overlapping) sub-MultiDomains of {key: RGSpace(npix)}: likelihood-metric style
        # sandwiches  (sum_k w_k FieldAdapter_k)^H cheese (sum_k w_k FieldAdapter_k)  and block-diagonals
        pix = mk_dom(ift, s[1])
        ops = []
        for sm in s[2]:
            if sm[0] == "mdsand":
                bun = None
                for kk, w in sm[1]:
                    t = ift.FieldAdapter(pix, kk).scale(w) if w != 1.0 else ift.FieldAdapter(pix, kk)
                    bun = t if bun is None else bun + t
                ops.append(ift.SandwichOperator.make(bun, build(ift, sm[2], pix)))
            else:
                md = ift.MultiDomain.make({kk: pix for kk, _ in sm[1]})
                ops.append(ift.BlockDiagonalOperator(md, {kk: build(ift, sp, pix) for kk, sp in sm[1]}))
        r = ops[0]
        for o in ops[1:]:
            r = r + o
        return r
    if k == "inven":
        ic = ift.GradientNormController(tol_abs_gradnorm=1e-13, iteration_limit=200)
        return ift.InversionEnabler(build(ift, s[1], dom), ic)
    if k == "sampen":
        ic = ift.GradientNormController(tol_abs_gradnorm=1e-13, iteration_limit=400)
        return ift.SamplingEnabler(build(ift, s[1], dom), build(ift, s[2], dom), ic, start_from_zero=bool(s[3]))
    raise ValueError(k)


def build_bun(ift, b, d):
    k = b[0]
    n = int(d.size)
    if k == "matrix":        # MatrixProductOperator: TIMES and ADJOINT only
        return ift.MatrixProductOperator(d, np.array(b[1], dtype=float).reshape(d.shape + d.shape))
    if k == "diagbun":       # invertible bun
        return ift.DiagonalOperator(ift.Field.from_raw(d, np.array(b[1], dtype=float).reshape(d.shape)))
    if k == "scalbun":
        return ift.ScalingOperator(d, complex(*b[1]) if isinstance(b[1], list) else b[1])
    if k == "expand":        # ContractionOperator(...).adjoint: n pixels -> n*m pixels, not square
        big = ift.DomainTuple.make(tuple(d) + (ift.UnstructuredDomain(b[1]),))
        return ift.ContractionOperator(big, len(d)).adjoint
    if k == "fftshift":      # FFTShiftOperator: an invertible, non-symmetric permutation for odd lengths
        rg = tuple(i for i, sp in enumerate(d) if isinstance(sp, ift.RGSpace))     # only RGSpaces can be shifted
        return ift.FFTShiftOperator(d, spaces=rg)
    if k == "mask":          # MaskOperator: n pixels -> fewer pixels
        return ift.MaskOperator(ift.Field.from_raw(d, np.array(b[1], dtype=bool).reshape(d.shape)))
    raise ValueError(k)


def bun_target_size(b, n):
    if b[0] == "expand":
        return n * b[1]
    if b[0] == "mask":
        return n - sum(1 for x in b[1] if x)
    return n


# ---- generation -------------------------------------------------------------------------------
DTC = ["f"]       # the sampling dtype of the case under generation (one real/complex choice per case)


def gen_leaf(rng, n, good=True):
    dt = DTC[0] if (good or rng.integers(4)) else None
    pool = VARS if good else VARS + BAD
    r = int(rng.integers(4))
    if r == 0:
        c = pool[int(rng.integers(len(pool)))]
        im = 0.0 if good or rng.integers(6) else 1.0
        return ["scal", c, im, dt]
    vals = [pool[int(rng.integers(len(pool)))] for _ in range(n)]
    im = None if good or rng.integers(6) else [1.0] * n
    s = ["diag", vals, im, dt]
    if r == 2:
        s = ["inverse", s]
    if r == 3 and rng.integers(2):
        s = ["adjoint", s]
    return s


def gen_bun(rng, n):
    r = int(rng.integers(6))
    if n == 3 and rng.integers(3) == 0:
        return ["fftshift"]
    if r == 0 and n in INV_MATS:
        m = INV_MATS[n][int(rng.integers(len(INV_MATS[n])))][0]
        return ["matrix", m]
    if r == 1:
        return ["matrix", [[float(rng.integers(-2, 3)) for _ in range(n)] for _ in range(n)]]
    if r == 2:
        return ["diagbun", [[1.0, 2.0, -2.0, 0.5, 4.0][int(rng.integers(5))] for _ in range(n)]]
    if r == 3:
        return ["scalbun", [2.0, -1.0, 0.5, 1.0, [0.0, 2.0], [1.0, 1.0], [0.0, -1.0], [2.0, -2.0]][int(rng.integers(8))]]
    if r == 4:
        return ["expand", int(rng.integers(1, 3))]
    fl = [bool(rng.integers(2)) for _ in range(n)]
    if all(fl):
        fl[0] = False
    return ["mask", fl]


def gen_spec(rng, n, depth, good):
    if depth == 0:
        return gen_leaf(rng, n, good)
    r = int(rng.integers(9))
    if r <= 1:
        b = gen_bun(rng, n)
        ch = None if rng.integers(4) == 0 else gen_spec(rng, bun_target_size(b, n), depth - 1, good)
        dt = (DTC[0] if (good or rng.integers(3)) else None) if ch is None else None
        return ["sandwich", b, ch, dt]
    if r == 2:
        return ["sum", [gen_spec(rng, n, depth - 1, good) for _ in range(int(rng.integers(2, 4)))]]
    if r == 3:
        return ["inverse", gen_spec(rng, n, depth - 1, good)]
    if r == 4:
        return ["adjoint", gen_spec(rng, n, depth - 1, good)]
    if r == 5:
        return ["inven", gen_spec(rng, n, depth - 1, good)]
    if r == 6:
        # likelihood = R^H N^-1 R (mask response), prior diagonal
        fl = [bool(rng.integers(2)) for _ in range(n)]
        if all(fl):
            fl[0] = False
        m = n - sum(fl)
        lik = ["sandwich", ["mask", fl], ["diag", [VARS[int(rng.integers(len(VARS)))] for _ in range(m)], None, DTC[0]], None]
        if rng.integers(3) == 0:
            lik = ["sandwich", ["matrix", [[float(rng.integers(-2, 3)) for _ in range(n)] for _ in range(n)]],
                   ["scal", VARS[int(rng.integers(len(VARS)))], 0.0, DTC[0]], None]
        prior = ["diag", [VARS[int(rng.integers(len(VARS)))] for _ in range(n)], None, DTC[0]]
        if rng.integers(3) == 0:
            prior = ["scal", VARS[int(rng.integers(len(VARS)))], 0.0, DTC[0]]
        return ["sampen", lik, prior, int(rng.integers(2))]
    return gen_leaf(rng, n, good)


def gen_case(rng):
    good = bool(rng.integers(4))          # 1/4 of the cases contain operators that must refuse
    DTC[0] = "c" if rng.integers(3) == 0 else "f"
    if rng.integers(6) == 0:
        keys = ["a", "b", "c"][:int(rng.integers(2, 4))]
        ent = {}
        for kk in keys:
            nn = int(rng.integers(1, 4))
            sp = None if (not good and rng.integers(4) == 0) else gen_spec(rng, nn, int(rng.integers(0, 2)), good)
            if sp is not None and sp[0] == "sum":
                sp = gen_leaf(rng, nn, good)      # block entries must be EndomorphicOperators (a SumOperator has no sampling_dtype)
            ent[kk] = [nn, sp]
        return {"n": sum(v[0] for v in ent.values()), "spec": ["block", ent], "inv": bool(rng.integers(2))}
    if rng.integers(8) == 0:
        a, b = int(rng.integers(1, 3)), int(rng.integers(1, 4))
        sp = int(rng.integers(2))
        vals = [VARS[int(rng.integers(len(VARS)))] for _ in range(a if sp == 0 else b)]
        s = ["diag2", vals, None, DTC[0], [a, b], sp]
        if rng.integers(2):
            s = ["inverse", s]
        return {"n": a * b, "spec": s, "inv": bool(rng.integers(2))}
    if rng.integers(10) == 0:
        return gen_mdsum(rng)
    n = int(rng.integers(1, 4))
    if rng.integers(8) == 0:
        # the main use of SamplingEnabler: inverse draws of likelihood + prior through the solver
        fl = [bool(rng.integers(2)) for _ in range(n)]
        if all(fl):
            fl[0] = False
        m = n - sum(fl)
        lik = ["sandwich", ["mask", fl], ["diag", [VARS[int(rng.integers(len(VARS)))] for _ in range(m)], None, DTC[0]], None]
        prior = ["diag", [VARS[int(rng.integers(len(VARS)))] for _ in range(n)], None, DTC[0]]
        return {"n": n, "spec": ["sampen", lik, prior, int(rng.integers(2))], "inv": True}
    if rng.integers(10) == 0:
        # inverse draw through an invertible, non-symmetric bun
        ch = ["diag", [VARS[int(rng.integers(len(VARS)))] for _ in range(3)], None, DTC[0]]
        return {"n": 3, "spec": ["sandwich", ["fftshift"], ch, None], "inv": True}
    return {"n": n, "spec": gen_spec(rng, n, int(rng.integers(0, 3)), good), "inv": bool(rng.integers(2))}


def zero_family():
    """Systematic, every run: semi-definite leaves (an exact 0 on the diagonal, scaling factor 0) and
    strictly positive ones, seen through every mode flip (all four _trafo values), both sampling
    dtypes, forward and inverse draws -- the refusal must follow the flip-corrected direction."""
    out = []
    wraps = [[], ["inverse"], ["adjoint"], ["adjoint", "inverse"], ["inverse", "adjoint"], ["inverse", "inverse"]]
    for dt in ("f", "c"):
        leaves = [["diag", [4.0, 0.0, 0.25], None, dt], ["diag", [0.0], None, dt], ["diag", [1.0, 16.0], None, dt],
                  ["scal", 0.0, 0.0, dt], ["scal", 4.0, 0.0, dt],
                  ["diag2", [0.0, 4.0], None, dt, [2, 2], 0], ["diag2", [0.25, 0.0], None, dt, [2, 2], 1]]
        for leaf in leaves:
            n = 4 if leaf[0] == "diag2" else (len(leaf[1]) if leaf[0] == "diag" else 2)
            for w in wraps:
                if leaf[0] == "scal" and leaf[1] == 0.0 and "inverse" in w:
                    continue      # ScalingOperator(0).inverse refuses at construction (ZeroDivisionError): not admissible
                sp = leaf
                for k in reversed(w):
                    sp = [k, sp]
                for inv in (False, True):
                    out.append({"n": n, "spec": sp, "inv": inv})
    # the same behind a sandwich with an invertible bun and inside a block
    for inv in (False, True):
        out.append({"n": 3, "spec": ["sandwich", ["fftshift"], ["inverse", ["diag", [4.0, 0.0, 1.0], None, "f"]], None], "inv": inv})
        out.append({"n": 3, "spec": ["block", {"a": [2, ["inverse", ["diag", [0.0, 4.0], None, "f"]]], "b": [1, ["scal", 0.0, 0.0, "f"]]}], "inv": inv})
    return out


def gen_mdsum(rng):
    npix = int(rng.integers(1, 3))
    keys = ["a", "b", "c"]
    nsum = int(rng.integers(2, 4))
    sms = []
    for _ in range(nsum):
        sub = sorted(rng.choice(3, size=int(rng.integers(1, 3)), replace=False).tolist())
        if rng.integers(3):
            ws = [(keys[i], [1.0, 2.0, -1.0, 0.5][int(rng.integers(4))]) for i in sub]
            ch = ["scal", VARS[int(rng.integers(len(VARS)))], 0.0, DTC[0]] if rng.integers(2) else \
                 ["diag", [VARS[int(rng.integers(len(VARS)))] for _ in range(npix)], None, DTC[0]]
            sms.append(["mdsand", [list(w) for w in ws], ch])
        else:
            sms.append(["mdblock", [[keys[i], gen_leaf(rng, npix, True)] for i in sub]])
    used = sorted({kk for sm in sms for kk, _ in sm[1]})
    return {"n": npix * len(used), "spec": ["mdsum", npix, sms], "inv": bool(rng.integers(4) == 0)}


def mdsum_family():
    """every run: block covariances on {a,b} and {b,c} (the shared key gets both variances), also three-fold"""
    out = []
    for dt in ("f", "c"):
        ab = ["mdsand", [["a", 1.0], ["b", 2.0]], ["scal", 4.0, 0.0, dt]]
        bc = ["mdsand", [["b", 1.0], ["c", -1.0]], ["diag", [1.0, 16.0], None, dt]]
        blk = ["mdblock", [["b", ["scal", 0.25, 0.0, dt]], ["c", ["diag", [4.0, 1.0], None, dt]]]]
        for sms in ([ab, bc], [bc, ab], [ab, blk], [ab, bc, blk], [blk, ["mdblock", [["a", ["scal", 1.0, 0.0, dt]], ["b", ["scal", 16.0, 0.0, dt]]]]]):
            used = sorted({kk for sm in sms for kk, _ in sm[1]})
            out.append({"n": 2 * len(used), "spec": ["mdsum", 2, sms], "inv": False})
    return out


def adapter_family():
    """every run: operators whose mode flips go through OperatorAdapter (sandwich, block-diagonal,
    InversionEnabler, SamplingEnabler) under .inverse / .adjoint / .adjoint.inverse / .inverse.adjoint,
    forward and inverse draws: the direction must flip exactly when the INVERSE bit is set"""
    out = []
    for dt in ("f", "c"):
        sand = ["sandwich", ["diagbun", [2.0, 0.5, 4.0]], ["diag", [4.0, 0.25, 16.0], None, dt], None]
        sand2 = ["sandwich", ["fftshift"], ["diag", [1.0, 4.0, 16.0], None, dt], None]
        sand3 = ["sandwich", ["matrix", [[1.0, 2.0, 0.0], [0.0, 1.0, 0.0], [1.0, 0.0, 2.0]]], ["scal", 4.0, 0.0, dt], None]
        blk = ["block", {"a": [2, ["diag", [4.0, 16.0], None, dt]], "b": [1, ["scal", 0.25, 0.0, dt]]}]
        inven = ["inven", sand]
        sampen = ["sampen", ["sandwich", ["mask", [False, True, False]], ["diag", [4.0, 1.0], None, dt], None],
                  ["diag", [16.0, 0.25, 1.0], None, dt], 0]
        for base, n in ((sand, 3), (sand2, 3), (sand3, 3), (blk, 3), (inven, 3), (sampen, 3)):
            for w in (["inverse"], ["adjoint"], ["adjoint", "inverse"], ["inverse", "adjoint"], ["inverse", "inverse", "adjoint"]):
                sp = base
                for k in reversed(w):
                    sp = [k, sp]
                for inv in (False, True):
                    out.append({"n": n, "spec": sp, "inv": inv})
    return out


def mdscal_family():
    """every run: ScalingOperator on a MultiDomain with a dict of sampling dtypes, mixed real/complex,
    listed in and out of alphabetical order: every key gets a sample of ITS dtype"""
    out = []
    for order in (["a", "b", "c"], ["c", "a", "b"], ["b", "c", "a"], ["b", "a"]):
        for pat in (["f", "c", "f"], ["c", "f", "c"], ["c", "c", "f"]):
            ent = [[kk, 1 + (ord(kk) - ord("a")) % 2, pat[i % len(pat)]] for i, kk in enumerate(order)]
            for f in (4.0, 0.25):
                for inv in (False, True):
                    out.append({"n": sum(e[1] for e in ent), "spec": ["mdscal", f, ent, False], "inv": inv})
    out.append({"n": 3, "spec": ["mdscal", 4.0, [["b", 2, "c"], ["a", 1, "c"]], True], "inv": False})
    out.append({"n": 3, "spec": ["mdscal", 4.0, [["b", 2, "f"], ["a", 1, None]], False], "inv": False})
    return out


def history_family():
    """every run: a DiagonalOperator is used first (forward / inverse sample, get_sqrt -- sampled or
    refused), then scaled by a negative / positive factor, negated or shifted, then sampled: the draw
    must refuse exactly when the resulting dense operator is not positive (semi-)definite"""
    out = []
    diags = [[4.0, -1.0, 16.0], [-4.0, -1.0, -0.25], [4.0, 0.0, 1.0], [4.0, 1.0, 16.0], [-4.0, 0.0, -1.0]]
    for dt in ("f", "c"):
        for dv in diags:
            for pre in (["draw"], ["draw_inv"], ["sqrt"], []):
                hows = (["scale", -4.0], ["scale", 4.0], ["neg", -1.0], ["rmul", -0.25], ["add", 4.0], ["add", -4.0], ["add", 1.0])
                for how in (hows if dt == "f" else (hows[0], hows[2], hows[5])):
                    for inv in (False, True):
                        out.append({"n": 3, "spec": ["hist", ["diag", dv, None, dt], pre, how], "inv": inv})
    return out


def scalar_bun_family():
    """every run: sandwiches with real and COMPLEX scalar buns: the represented operator and the sample
    covariance must both be |f|^2 * cheese"""
    out = []
    for dt in ("f", "c"):
        for f in (2.0, -0.5, [0.0, 2.0], [1.0, 1.0], [0.0, -1.0], [2.0, -2.0], [0.0, 1.0]):
            for ch in (["diag", [4.0, 0.25, 16.0], None, dt], ["scal", 4.0, 0.0, dt], None,
                       ["sandwich", ["diagbun", [2.0, 1.0, 0.5]], ["scal", 1.0, 0.0, dt], None]):
                for inv in (False, True):
                    out.append({"n": 3, "spec": ["sandwich", ["scalbun", f], ch, dt if ch is None else None], "inv": inv})
    return out


def has_complex_bun(s):
    if isinstance(s, list):
        if s and s[0] == "scalbun" and isinstance(s[1], list) and s[1][1] != 0:
            return True
        return any(has_complex_bun(x) for x in s)
    if isinstance(s, dict):
        return any(has_complex_bun(x) for x in s.values())
    return False


def has_dtype(s, dt):
    if isinstance(s, list):
        if s and s[0] in ("scal", "diag", "diag2") and s[3] == dt:
            return True
        if s and s[0] == "sandwich" and s[2] is None and s[3] == dt:
            return True
        return any(has_dtype(x, dt) for x in s)
    if isinstance(s, dict):
        return any(has_dtype(x, dt) for x in s.values())
    return False


def imag_mask(spec):
    """for operators with a per-key sampling dtype: which entries (sorted keys) are complex; else None"""
    if spec[0] == "mdscal" and not spec[3]:
        m = []
        for kk, n_, d_ in sorted(spec[2], key=lambda e: e[0]):
            m += [d_ == "c"] * n_
        return np.array(m, dtype=float)
    if spec[0] in ("inverse", "adjoint", "inven"):
        return imag_mask(spec[1])
    return None


def has_zero_scaling(s):
    if isinstance(s, list):
        if s and s[0] == "scal" and s[1] == 0.0:
            return True
        if s and s[0] == "scalbun" and s[1] == 0.0:
            return True
        return any(has_zero_scaling(x) for x in s)
    if isinstance(s, dict):
        return any(has_zero_scaling(x) for x in s.values())
    return False


def has(s, kind):
    if isinstance(s, list):
        if s and s[0] == kind:
            return True
        return any(has(x, kind) for x in s)
    if isinstance(s, dict):
        return any(has(x, kind) for x in s.values())
    return False


# ---------------------------------------------------------------------------------------------
# reading the operator object back into a model term
# ---------------------------------------------------------------------------------------------
class Unreadable(Exception):
    pass


def cq(x):
    if not np.isfinite(x):
        raise Unreadable("non-finite entry")
    fr = Fraction(float(x))
    return "(q (%d) %d)" % (fr.numerator, fr.denominator)


def cl(xs):
    return "[" + "; ".join(xs) + "]"


def crows(M):
    return cl([cl([cq(v) for v in row]) for row in np.asarray(M)])


def cdt(dt):
    if dt is None:
        return "DNone"
    return "DComplex" if np.issubdtype(dt, np.complexfloating) else "DReal"


def frac_inverse(M):
    """exact inverse of a dyadic matrix with Fractions, or None"""
    n = len(M)
    A = [[Fraction(float(v)) for v in row] + [Fraction(int(i == j)) for j in range(n)] for i, row in enumerate(M)]
    for c in range(n):
        p = next((r for r in range(c, n) if A[r][c] != 0), None)
        if p is None:
            return None
        A[c], A[p] = A[p], A[c]
        pv = A[c][c]
        A[c] = [v / pv for v in A[c]]
        for r in range(n):
            if r != c and A[r][c] != 0:
                f = A[r][c]
                A[r] = [a - f * b for a, b in zip(A[r], A[c])]
    return [row[n:] for row in A]


def cfr(x):
    return "(q (%d) %d)" % (x.numerator, x.denominator)


def exact_sqrt(v):
    """True when sqrt(v) and 1/sqrt(v) are exact in float64 and in the model (v a power of 4, or v <= 0)"""
    import math
    if not np.isfinite(v):
        return False
    if v <= 0:
        return True
    fr = Fraction(float(v))
    a, b = math.isqrt(fr.numerator), math.isqrt(fr.denominator)
    if a * a != fr.numerator or b * b != fr.denominator:
        return False
    # the square root AND its inverse must be dyadic (float64 exact): v is a power of 4.  E.g. a sum
    # simplified to 81/16 has the exact root 9/4, but 1/sqrt = 4/9 is rounded by the implementation.
    return a & (a - 1) == 0 and b & (b - 1) == 0


def read(ift, op):
    """model term of an operator object (structure of the object, not of the expression that built it)"""
    from nifty.cl.operators.operator_adapter import OperatorAdapter
    from nifty.cl.operators.sum_operator import SumOperator
    t = type(op).__name__
    if isinstance(op, ift.ScalingOperator) and isinstance(op.domain, ift.MultiDomain):
        # from_random(MultiDomain, dtype) draws key by key (sorted) with dtype[key]
        c = complex(op._factor)
        if not exact_sqrt(c.real):
            raise Unreadable("variance is not a power of 4")
        ent = []
        for kk in op.domain.keys():
            dtk = op._dtype[kk] if isinstance(op._dtype, dict) else op._dtype
            if isinstance(op._dtype, dict) and dtk is None:
                dtk = np.float64      # only `self._dtype is None` is refused; a None entry reaches numpy, where dtype None means float64
            ent.append("(%d, Some (CScal Qc %s %s %s))" % (op.domain[kk].size, cq(c.real), "true" if c.imag != 0 else "false", cdt(dtk)))
        return "(CBlock Qc %s)" % cl(ent)
    if isinstance(op, ift.ScalingOperator):
        c = complex(op._factor)
        if not exact_sqrt(c.real):
            raise Unreadable("variance is not a square (e.g. a simplified sum): direct oracle only")
        return "(CScal Qc %s %s %s)" % (cq(c.real), "true" if c.imag != 0 else "false", cdt(op._dtype))
    if isinstance(op, ift.DiagonalOperator):
        ld = np.broadcast_to(np.asarray(op._ldiag.asnumpy() if hasattr(op._ldiag, "asnumpy") else op._ldiag), op.domain.shape).reshape(-1)
        if not all(exact_sqrt(complex(v).real) for v in ld):
            raise Unreadable("variance is not a square (e.g. a simplified sum): direct oracle only")
        return "(CDiag Qc (vec_of %s) %s %d %s)" % (cl([cq(complex(v).real) for v in ld]), "true" if op._complex else "false",
                                                     int(op._trafo), cdt(op._dtype))
    if isinstance(op, ift.SandwichOperator):
        bun = op._bun
        B = dense(ift, bun, 1)
        if np.abs(B.imag).max(initial=0) != 0:
            raise Unreadable("complex bun")
        inv = "None"
        if bun.capability & bun.INVERSE_TIMES:
            Bi = dense(ift, bun, bun.INVERSE_TIMES)
            inv = "(Some %s)" % crows(Bi.real)
        return "(CSand Qc (mklin %s %s) %s)" % (crows(B.real), inv, read(ift, op._cheese))
    if isinstance(op, SumOperator):
        terms = []
        for o in op._ops:
            t = read(ift, o)
            if o.domain is not op.domain and not isinstance(o, ift.NullOperator):
                # a summand on a sub-MultiDomain: its sample is united (zero-filled) into the union domain
                if not (isinstance(op.domain, ift.MultiDomain) and isinstance(o.domain, ift.MultiDomain)):
                    raise Unreadable("summand on a foreign domain")
                off, offs = 0, {}
                for kk in op.domain.keys():
                    offs[kk] = off
                    off += op.domain[kk].size
                pos = []
                for kk in o.domain.keys():
                    pos += list(range(offs[kk], offs[kk] + o.domain[kk].size))
                t = "(CEmb Qc %s %d (mkemb %s))" % (t, int(o.domain.size), cl(["%d" % p for p in pos]))
            terms.append(t)
        return "(CSum Qc %s)" % cl(terms)
    if isinstance(op, ift.NullOperator):
        return "(CNull Qc)"
    if isinstance(op, ift.BlockDiagonalOperator):
        ent = []
        for kk, o in zip(op.domain.keys(), op._ops):
            ent.append("(%d, %s)" % (op.domain[kk].size, "None" if o is None else "(Some %s)" % read(ift, o)))
        return "(CBlock Qc %s)" % cl(ent)
    if isinstance(op, OperatorAdapter):
        return "(CAdapt Qc %s %d)" % (read(ift, op._op), int(op._trafo))
    if isinstance(op, ift.InversionEnabler):
        return "(CInvEn Qc %s)" % read(ift, op._op)
    if isinstance(op, ift.SamplingEnabler):
        P = dense(ift, op._prior, 1)
        M = dense(ift, op._op, 1)
        Mi = frac_inverse(M.real)
        if Mi is None:
            raise Unreadable("singular")
        solve = cl([cl([cfr(v) for v in row]) for row in Mi])
        return "(CSampEn Qc %s %s %s %s (mfun %s) (mfun %s))" % (read(ift, op._op), read(ift, op._likelihood), read(ift, op._prior),
                                                             "true" if op._start_from_zero else "false", crows(P.real), solve)
    if not hasattr(op, "draw_sample"):
        raise Unreadable("no draw_sample attribute: " + t)
    return "(COther Qc)"


# ---------------------------------------------------------------------------------------------
# ScalingOperator._get_fct / DiagonalOperator.get_sqrt on the leaf objects of a case (Model.get_fct, Model.diag_get_sqrt)
# ---------------------------------------------------------------------------------------------
def leaf_objects(ift, op, acc, depth=0):
    """ScalingOperator / DiagonalOperator objects reachable through the structural attributes of the operator object"""
    if op is None or depth > 8:
        return acc
    if isinstance(op, (ift.ScalingOperator, ift.DiagonalOperator)):
        acc.append(op)
        return acc
    for a in ("_cheese", "_bun", "_op", "_prior", "_likelihood"):
        sub = getattr(op, a, None)
        if isinstance(sub, ift.LinearOperator):
            leaf_objects(ift, sub, acc, depth + 1)
    subs = getattr(op, "_ops", None)
    if isinstance(subs, (list, tuple)):
        for sub in subs:
            if isinstance(sub, ift.LinearOperator):
                leaf_objects(ift, sub, acc, depth + 1)
    return acc


def ldiag_flat(op):
    ld = op._ldiag.asnumpy() if hasattr(op._ldiag, "asnumpy") else op._ldiag
    return np.broadcast_to(np.asarray(ld), op.domain.shape).reshape(-1)


def sqrt_terms(ift, leaf):
    """Coq terms `implementation result == model` for _get_fct (both directions) / get_sqrt of one leaf object"""
    out = []
    try:
        if isinstance(leaf, ift.ScalingOperator):
            c = complex(leaf._factor)
            if not exact_sqrt(c.real) or not np.isfinite(c.imag):
                return out
            for inv in (False, True):
                try:
                    r = complex(leaf._get_fct(inv))
                except Exception as ex:
                    nm = type(ex).__name__
                    impl = "(inl %s)" % EXC[nm] if nm in EXC else None
                else:
                    impl = "(inr %s)" % cq(r.real) if r.imag == 0 else None
                head = "getfct_ok %s %s %s " % (cq(c.real), "true" if c.imag != 0 else "false", "true" if inv else "false")
                out.append(("get_fct", "false" if impl is None else head + impl))
        elif isinstance(leaf, ift.DiagonalOperator):
            ld = ldiag_flat(leaf)
            if not all(exact_sqrt(complex(v).real) for v in ld):
                return out
            try:
                R = leaf.get_sqrt()
            except Exception as ex:
                nm = type(ex).__name__
                impl = "(inl %s)" % EXC[nm] if nm in EXC else None
            else:
                if not isinstance(R, ift.DiagonalOperator) or R.domain != leaf.domain:
                    impl = None
                else:
                    rl = ldiag_flat(R)
                    if np.iscomplexobj(rl) and np.abs(rl.imag).max(initial=0) != 0:
                        impl = None
                    else:
                        impl = "(inr (%s, %s, %d, %s))" % (cl([cq(complex(v).real) for v in rl]), "true" if R._complex else "false",
                                                          int(R._trafo), cdt(R._dtype))
            head = "getsqrt_ok %s %s %d %s %d " % (cl([cq(complex(v).real) for v in ld]), "true" if leaf._complex else "false",
                                                   int(leaf._trafo), cdt(leaf._dtype), int(leaf.domain.size))
            out.append(("get_sqrt", "false" if impl is None else head + impl))
    except Unreadable:
        return []
    return out


# ---------------------------------------------------------------------------------------------
# the refusal rule of the property statement (independent of the code and of the model)
# ---------------------------------------------------------------------------------------------
def expect_ok(s, inv):
    """True when the statement promises a sample: the operator is a covariance of one of the listed kinds"""
    k = s[0]
    if k == "scal":
        return s[3] is not None and s[2] == 0 and s[1] >= 0 and not (s[1] == 0 and inv)
    if k in ("diag", "diag2"):
        return s[3] is not None and not s[2] and min(s[1]) >= 0 and not (min(s[1]) == 0 and inv)
    if k == "inverse":
        return expect_ok(s[1], not inv)
    if k == "adjoint":
        return expect_ok(s[1], inv)
    if k == "sandwich":
        b = s[1]
        ch_ok = (s[3] is not None) if s[2] is None else expect_ok(s[2], inv)
        if b[0] == "scalbun":
            return ch_ok        # |f|^2 * cheese, also for a complex scalar bun
        if inv:
            return b[0] in ("diagbun", "fftshift") and ch_ok
        return ch_ok
    if k == "sum":
        return (not inv) and all(expect_ok(o, False) for o in s[1])
    if k == "block":
        return all(v[1] is not None and expect_ok(v[1], inv) for v in s[1].values())
    if k == "hist":
        leaf = s[1]
        if leaf[3] is None or leaf[2]:
            return False
        how, c = s[3]
        vals = [(-v if how == "neg" else (v + c if how == "add" else v * c)) for v in leaf[1]]
        return min(vals) >= 0 and not (min(vals) == 0 and inv)
    if k == "mdscal":
        return all(d_ is not None for _, _, d_ in s[2]) and s[1] >= 0 and not (s[1] == 0 and inv)
    if k == "mdsum":
        if inv:
            return False
        for sm in s[2]:
            if sm[0] == "mdsand":
                if not expect_ok(sm[2], False):
                    return False
            elif not all(expect_ok(sp, False) for _, sp in sm[1]):
                return False
        return True
    if k == "inven":
        return expect_ok(s[1], inv)
    if k == "sampen":
        if inv:
            return (expect_ok(s[1], False) and expect_ok(s[2], False)) if s[3] else (expect_ok(s[2], True) and expect_ok(s[1], False))
        return expect_ok(s[1], False) and expect_ok(s[2], False)
    return False


HEADER = ("From Coq Require Import List Arith ZArith QArith Qcanon Bool. Import ListNotations.\n"
          "Require Import NV.C13.Model NV.C13.Exec.\nLocal Open Scope nat_scope.\n")


def eval_cases_local(d, name, header, checks, timeout=900, shard=120, jobs=4):
    os.makedirs(d, exist_ok=True)
    files = []
    for s in range(0, len(checks), shard):
        path = os.path.join(d, "cases_%s_%d.v" % (name, s // shard))
        with open(path, "w") as f:
            f.write(header + "\n")
            for i, c in enumerate(checks[s:s + shard]):
                f.write("Goal True. let b := eval vm_compute in (%s) in\n  match b with true => idtac | _ => idtac \"@@BAD %d\" end. Abort.\n" % (c, s + i))
            f.write('Goal True. idtac "@@DONE %d". Abort.\n' % (s // shard))
        files.append(path)
    bad = []
    pending, running = list(files), []
    while pending or running:
        while pending and len(running) < jobs:
            p = pending.pop(0)
            cmd = ["timeout", str(timeout), "coqc", "-R", C.COQ, "NV", "-w", "none", p]
            running.append((p, subprocess.Popen(cmd, cwd=d, stdout=subprocess.PIPE, stderr=subprocess.STDOUT, text=True)))
        p, pr = running.pop(0)
        out, _ = pr.communicate()
        if pr.returncode != 0 or "@@DONE" not in out:
            raise C.MachineryError("cases file %s failed to evaluate:\n%s" % (p, out[-3000:]))
        bad += [int(x) for x in re.findall(r"@@BAD (\d+)", out)]
    return sorted(bad)


def close(a, b, tol):
    a, b = np.asarray(a), np.asarray(b)
    if a.shape != b.shape or not (np.all(np.isfinite(a)) and np.all(np.isfinite(b))):
        return False
    if a.size == 0:
        return True
    return float(np.abs(a - b).max()) <= tol * (1.0 + float(np.abs(b).max()))


class C13(C.Check):
    prop = "C13"
    coq_dir = "C13"
    trusted_base = [
        "Coq 8.16.1 kernel; vm_compute for the correspondence evaluation over Qc",
        "hand model coq/C13/Model.v of the draw_sample methods (tie = noise-injection correspondence: matrix T, number of noise blocks, exception class)",
        "structural reader harness/props/c13.py:read (object attributes -> model term); buns, the prior and the solved system of a SamplingEnabler enter as dense matrices measured on the implementation (their correctness is C01/C02/C14)",
        "the feeder standing in for numpy's Generator.normal (mean + std * block); Gaussianity and independence of numpy's normal variates",
        "float64 exact on the generated inputs (variances are squares of dyadic rationals, integer / dyadic buns); 1e-8 relative closeness for samples that pass through conjugate gradient",
    ]
    assumptions = [
        "E[xi xi^T] = identity for the white noise delivered by numpy; the theorems are about the linear map noise -> sample",
        "real buns; complex sampling dtype means independent real and imaginary parts, each with the covariance of the operator (NIFTy's documented convention, C13_complex_convention)",
        "conjugate gradient inside SamplingEnabler is run to convergence (tight controller) and modelled as the exact solve (C14 is about the solver)",
        "square roots and inverses are witnesses in the theorems (sqrt_ok, inv_ok)",
    ]

    def __init__(self):
        self.cases = []

    def run_case(self, ift, c):
        with contextlib.redirect_stdout(io.StringIO()):      # MatrixProductOperator.apply prints a debug line
            return self._run_case(ift, c)

    def _run_case(self, ift, c):
        o = {"case": c}
        try:
            op = build(ift, c["spec"], c["n"])
        except Exception as ex:
            o["build_error"] = "%s: %s" % (type(ex).__name__, str(ex)[:120])
            return o
        o["op"] = op
        try:
            o["ext"] = extract(ift, op, c["inv"])
        except C.MachineryError:
            raise
        except Exception as ex:
            o["ext"] = ("raise", type(ex).__name__, str(ex)[:100])
        return o

    def coq_case(self, ift, o):
        with contextlib.redirect_stdout(io.StringIO()):
            return self._coq_case(ift, o)

    def _coq_case(self, ift, o):
        c = o["case"]
        if "build_error" in o:
            return None
        try:
            term = read(ift, o["op"])
        except Unreadable:
            return None
        ext = o["ext"]
        exact = not (has(c["spec"], "sampen") or has(c["spec"], "inven"))
        n = int(o["op"].domain.size)
        if ext[0] == "raise":
            if ext[1] not in EXC:
                return None
            return "case_ok %s %d %s %s 1 (inl %s)" % (term, n, "true" if c["inv"] else "false", "true", EXC[ext[1]])
        sizes, T = ext[1], ext[2]
        if not np.all(np.isfinite(T)):
            return "false"
        N = max(sizes) if sizes else 1
        cols, off = [], 0
        for b, sz in enumerate(sizes):
            for i in range(N):
                if i < sz:
                    col = T[:, off + i]
                else:
                    col = np.zeros(T.shape[0], dtype=complex)
                cols.append("(%s, %s)" % (cl([cq(v) for v in col.real]), cl([cq(v) for v in col.imag])))
            off += sz
        return "case_ok %s %d %s %s %d (inr (%d, %s))" % (term, n, "true" if c["inv"] else "false", "true" if exact else "false",
                                                         N, len(sizes), cl(cols))

    def direct(self, ift, o):
        with contextlib.redirect_stdout(io.StringIO()):
            return self._direct(ift, o)

    def _direct(self, ift, o):
        c = o["case"]
        if "build_error" in o and o["build_error"].startswith("ZeroDivisionError") and has_zero_scaling(c["spec"]):
            # ScalingOperator(0).inverse (also after construction-time simplification) refuses at construction:
            # the inverse of a singular operator has no meaning, the case is not admissible
            return None
        if "build_error" in o:
            return ("construct", "constructing the operator raised " + o["build_error"])
        op, ext = o["op"], o["ext"]
        exp = expect_ok(c["spec"], c["inv"])
        if ext[0] == "raise":
            if ext[1] not in EXC:
                return ("exception", "draw_sample raised %s: %s" % (ext[1], ext[2]))
            if exp:
                return ("refusal", "draw_sample(from_inverse=%s) refused (%s: %s) although the operator is a covariance of a supported kind"
                        % (c["inv"], ext[1], ext[2]))
            return None
        sizes, T, zero = ext[1], ext[2], ext[3]
        if not (np.all(np.isfinite(T)) and np.all(np.isfinite(zero))):
            return ("nonfinite", "draw_sample(from_inverse=%s) returned a non-finite sample instead of refusing" % c["inv"])
        if not np.all(zero == 0):
            return ("mean", "the sample for zero noise is not zero (non-zero mean)")
        tol = 1e-7 if (has(c["spec"], "sampen") or has(c["spec"], "inven")) else 1e-10
        # the dense operator in TIMES mode, or its inverse if only that is available (e.g. (A+B).inverse)
        have_times = bool(op.capability & op.TIMES)
        with np.errstate(all="ignore"):
            Cm = dense(ift, op, op.TIMES if have_times else op.INVERSE_TIMES)
            if have_times and not np.all(np.isfinite(Cm)) and (op.capability & op.INVERSE_TIMES):
                have_times = False          # e.g. the inverse of a singular diagonal: use the finite direction
                Cm = dense(ift, op, op.INVERSE_TIMES)
        if not np.all(np.isfinite(Cm)):
            return None                     # no finite dense matrix to compare with
        if not close(Cm, Cm.conj().T, 1e-12):
            return ("covariance", "a sample was drawn from an operator that is not Hermitian")
        if has_complex_bun(c["spec"]):
            # a complex bun mixes real and imaginary parts: the covariance is the Hermitian one,
            # E[s s^H] = T T^H = kappa * C, kappa = 2 for a complex sampling dtype (each part has the full variance)
            kappa = 2.0 if has_dtype(c["spec"], "c") else 1.0
            covh = T @ T.conj().T
            if bool(c["inv"]) == have_times:
                if not close(covh @ Cm, kappa * np.eye(covh.shape[0]), tol * 10):
                    return ("covariance", "%s draw: T T^H is not %g times the inverse of the dense operator" % ("inverse" if c["inv"] else "forward", kappa))
            elif not close(covh, kappa * Cm, tol):
                return ("covariance", "%s draw: T T^H differs from %g times the dense operator (max diff %.3g)"
                        % ("inverse" if c["inv"] else "forward", kappa, float(np.abs(covh - kappa * Cm).max())))
            return None
        # complex dtype: real and imaginary parts come from different noise blocks, each with covariance C
        Tr, Ti = T.real, T.imag
        if np.abs(Ti).max(initial=0) != 0 and not close(Tr @ Ti.T, np.zeros((T.shape[0], T.shape[0])), tol):
            return ("covariance", "real and imaginary part of the sample are correlated")
        mask = imag_mask(c["spec"])
        if mask is not None:
            # per-key sampling dtypes: the imaginary part lives exactly on the complex keys, with the
            # covariance restricted to them; real keys have no imaginary part
            if np.abs(Ti[mask == 0]).max(initial=0) != 0:
                return ("dtype", "a key with a real sampling dtype received a complex sample")
            if not (mask == 0).all() and np.abs(Ti[mask == 1]).max(initial=0) == 0:
                return ("dtype", "a key with a complex sampling dtype received a real sample")
            sub = mask == 1
            if sub.any():
                covi = (Ti @ Ti.T)[np.ix_(sub, sub)]
                want = Cm.real[np.ix_(sub, sub)]
                if bool(c["inv"]) == have_times:
                    ok = close(covi @ want, np.eye(covi.shape[0]), tol * 10)      # scalings are block-diagonal per key
                else:
                    ok = close(covi, want, tol)
                if not ok:
                    return ("covariance", "imaginary part of the complex keys has the wrong covariance")
        covs = [Tr @ Tr.T]
        if mask is None and np.abs(Ti).max(initial=0) != 0:
            covs.append(Ti @ Ti.T)
        for cov in covs:
            if bool(c["inv"]) == have_times:
                # cov must be the inverse of the matrix we hold
                if not close(cov @ Cm.real, np.eye(cov.shape[0]), tol * 10):
                    return ("covariance", "%s draw: T T^H is not the inverse of the dense %s matrix (max diff %.3g)"
                            % ("inverse" if c["inv"] else "forward", "TIMES" if have_times else "INVERSE_TIMES",
                               float(np.abs(cov @ Cm.real - np.eye(cov.shape[0])).max())))
            else:
                if not close(cov, Cm.real, tol):
                    return ("covariance", "%s draw: T T^H differs from the dense %s matrix (max diff %.3g)"
                            % ("inverse" if c["inv"] else "forward", "TIMES" if have_times else "INVERSE_TIMES",
                               float(np.abs(cov - Cm.real).max())))
        # linearity in the noise: two hot coordinates at once
        if T.shape[1] >= 2:
            b0, b1 = 0, len(sizes) - 1
            hot = {(b0, 0): 2.0, (b1, sizes[b1] - 1): -3.0}
            s, _ = draw_with(op, c["inv"], hot)
            col0 = T[:, 0]
            col1 = T[:, T.shape[1] - 1]
            want = 2.0 * col0 - 3.0 * col1 if (b0, 0) != (b1, sizes[b1] - 1) else -3.0 * col1
            if not close(flat(ift, s).astype(complex), want, max(tol, 1e-9)):
                return ("linearity", "the sample is not linear in the noise")
        return None

    def correspondence(self, ctx, res):
        import nifty.cl as ift
        self.ift = ift
        rng = ctx.rng(13)
        todo = [c for c in ctx.corpus()] + zero_family() + mdsum_family() + adapter_family() + mdscal_family() + history_family() + scalar_bun_family()
        for _ in range(220 if ctx.quick else 2500):
            todo.append(json.loads(json.dumps(gen_case(rng))))
        self.cases = []
        checks, idx = [], []
        kinds = {}
        outcomes = {"sample": 0, "refuse": 0}
        for c in todo:
            o = self.run_case(ift, c)
            self.cases.append(o)
            kinds[c["spec"][0]] = kinds.get(c["spec"][0], 0) + 1
            if "ext" in o:
                outcomes["sample" if o["ext"][0] == "T" else "refuse"] += 1
            t = self.coq_case(ift, o)
            if t is not None:
                checks.append(t)
                idx.append(len(self.cases) - 1)
        # _get_fct / get_sqrt of every scaling / diagonal leaf object of the cases (deduplicated by term)
        sq_checks, sq_idx, sq_seen, sq_kinds = [], [], set(), {"get_fct": 0, "get_sqrt": 0, "refusals": 0}
        for ci, o in enumerate(self.cases):
            if "op" not in o:
                continue
            with contextlib.redirect_stdout(io.StringIO()):
                for leaf in leaf_objects(ift, o["op"], []):
                    for kind, t in sqrt_terms(ift, leaf):
                        if t in sq_seen:
                            continue
                        sq_seen.add(t)
                        sq_checks.append(t)
                        sq_idx.append((ci, kind))
                        sq_kinds[kind] += 1
                        sq_kinds["refusals"] += int("(inl " in t)
        wd = os.path.join(ctx.run_dir(), "w%d" % os.getpid())
        bad = eval_cases_local(wd, "corr", HEADER, checks)
        sq_bad = eval_cases_local(wd, "sqrt", HEADER, sq_checks) if sq_checks else []
        if not bad and not sq_bad:
            shutil.rmtree(wd, ignore_errors=True)
        for b in sq_bad[:5]:
            ci, kind = sq_idx[b]
            res.add_broken("correspondence", "ScalingOperator._get_fct / DiagonalOperator.get_sqrt vs coq/C13/Model.v (%s)" % kind,
                           {"case": self.cases[ci]["case"], "term": sq_checks[b][:400]})
        hints = []
        for b in bad[:5]:
            o = self.cases[idx[b]]
            res.add_broken("correspondence", "draw_sample vs coq/C13/Model.v", {"case": o["case"], "impl": o["ext"][0] if "ext" in o else None})
            hints.append(idx[b])
        distinct = len({json.dumps(o["case"], sort_keys=True) for o in self.cases
                        if o["case"]["spec"][0] not in ("scal",) and "ext" in o})
        res.coverage.update({
            "evaluations": len(self.cases), "modelled_cases_compared_in_coq": len(checks),
            "distinct_nontrivial": distinct,
            "rule": "random operator expressions (depth <= 2) plus a systematic family of semi-definite and positive scalings/diagonals under every mode flip (all four _trafo values) x dtype x direction, over scaling / diagonal (full, partial-space, .inverse/.adjoint, real and complex sampling dtype, missing dtype, zero / negative / complex entries) / sandwiches (matrix, invertible diagonal, scaling, expanding, masking buns; cheese or sampling_dtype) / use histories of one DiagonalOperator (sample/refuse first, then negative scaling / shift, then sample) / sandwiches with real and complex scalar buns / scalings on MultiDomains with per-key sampling dtypes (dict in any order) / operators flipped through OperatorAdapter (.inverse, .adjoint, .adjoint.inverse, .inverse.adjoint of sandwiches, blocks, enablers) / sums (also of summands on overlapping sub-MultiDomains, e.g. block covariances on {a,b} and {b,c}) / block-diagonals (with missing keys) / adapters / InversionEnabler / SamplingEnabler, forward and inverse draws; non-trivial = anything but a bare scaling; distinct by JSON",
            "samples": [o["case"] for o in self.cases[:3]],
            "input_distribution": {"top_level_kind": kinds, "outcome": outcomes},
            "disagreements": len(bad),
            "get_fct_get_sqrt": {"distinct_checks": len(sq_checks), "by_kind": sq_kinds, "disagreements": len(sq_bad),
                                 "rule": "every ScalingOperator / DiagonalOperator object reachable in the generated operator objects (cheese, bun, summands, block entries, adapters, enablers): _get_fct(False/True) and get_sqrt() (returned _ldiag, _complex, _trafo, _dtype or the exception class) against Model.get_fct / Model.diag_get_sqrt, exact over Qc; distinct by Coq term"},
        })
        return hints

    def direct_sqrt(self, ift, o):
        """stated on the implementation alone: D.get_sqrt() of a real non-negative DiagonalOperator object inside the case
        is an operator R on the same domain with R(R(x)) = D(x) and the sampling dtype of D; it must not refuse"""
        if "op" not in o:
            return None
        with contextlib.redirect_stdout(io.StringIO()), np.errstate(all="ignore"):
            for leaf in leaf_objects(ift, o["op"], []):
                if not isinstance(leaf, ift.DiagonalOperator) or leaf._complex:
                    continue
                ld = ldiag_flat(leaf)
                if not np.all(np.isfinite(ld)) or ld.min(initial=0.0) < 0:
                    continue
                n = int(leaf.domain.size)
                x = to_field(ift, leaf.domain, 1.0 + np.arange(n) / 4.0)
                want = flat(ift, leaf(x))
                if not np.all(np.isfinite(want)):
                    continue            # the inverse of a semi-definite diagonal
                try:
                    R = leaf.get_sqrt()
                    got = flat(ift, R(R(x)))
                except Exception as ex:
                    return ("get_sqrt", "get_sqrt() of a non-negative real diagonal raised %s" % type(ex).__name__)
                if not close(got, want, 1e-12):
                    return ("get_sqrt", "get_sqrt() applied twice differs from the operator")
                if R._dtype != leaf._dtype:
                    return ("get_sqrt", "get_sqrt() changed the sampling dtype")
        return None

    def oracle(self, ctx, res, hints, budget):
        ift = self.ift
        n = 0
        seen = set()
        for o in self.cases:
            f = self.direct(ift, o) or self.direct_sqrt(ift, o)
            n += 1
            if f:
                sig = {"kind": o["case"]["spec"][0], "branch": f[0], "inverse": bool(o["case"]["inv"])}
                key = json.dumps(sig, sort_keys=True)
                if key in seen:
                    continue
                seen.add(key)
                res.add_failing(sig, ("a DiagonalOperator inside a %s operator: %s" if f[0] == "get_sqrt" else "draw_sample of a %s operator: %s")
                                % (o["case"]["spec"][0], f[1]), o["case"])
        if budget > 1 and not res.failing:
            rng = ctx.rng(131)
            for _ in range(1500):
                c = json.loads(json.dumps(gen_case(rng)))
                o = self.run_case(ift, c)
                n += 1
                f = self.direct(ift, o)
                if f:
                    res.add_failing({"kind": c["spec"][0], "branch": f[0], "inverse": bool(c["inv"])},
                                    "draw_sample of a %s operator: %s" % (c["spec"][0], f[1]), c)
                    break
        if not ctx.quick:
            res.notes.append(self.monte_carlo(ift, ctx))
        res.coverage["impl_property_evaluations"] = n

    def monte_carlo(self, ift, ctx):
        """a test, not a proof: sample covariance of real draws with numpy's generator"""
        from nifty.cl import random as nrandom
        op = build(ift, ["sandwich", ["matrix", [[1.0, 2.0], [0.0, 1.0]]], ["diag", [4.0, 0.25], None, "f"], None], 2)
        nrandom.push_sseq_from_seed(int(ctx.seed) + 5)
        try:
            with contextlib.redirect_stdout(io.StringIO()):
                S = np.array([flat(ift, op.draw_sample()) for _ in range(20000)])
        finally:
            nrandom.pop_sseq()
        emp = S.T @ S / len(S)
        return "monte-carlo (test only): max |empirical - C| / |C| = %.3g over 20000 draws" % float(np.abs(emp - dense(ift, op)).max() / np.abs(dense(ift, op)).max())

    def replay(self, ctx, rp):
        import nifty.cl as ift
        o = self.run_case(ift, rp["input"])
        return self.direct(ift, o) is not None or self.direct_sqrt(ift, o) is not None


CHECK = C13()
