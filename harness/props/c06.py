"""C06 -- Field arithmetic and contractions follow array semantics with volumes.

Tie: hand model coq/C06/Model.v + correspondence.  Generated domain tuples (regular grids 1-D/2-D,
HEALPix, LM, DOF, Gauss-Legendre, power spaces, unstructured domains), every subset of sub-domains
(None / int / tuple forms, also invalid ones), int / float / complex data with small integer values:
the real Field / MultiField methods are run and the returned arrays (or the fact that an exception
was raised) are compared with the model inside coqc -- exactly when all volumes are dyadic (float64
arithmetic is then exact), within 2^-40 * scale otherwise (the comparison itself is done in Q).
Direct oracle: the same calls against plain NumPy formulas with explicit volume arrays."""
import itertools
import json
from fractions import Fraction

import numpy as np

from .. import common as C

HEADER = """From Coq Require Import QArith Qcanon ZArith List Bool Arith. Import ListNotations.
Require Import NV.C06.Model.
Definition q (n : Z) (d : positive) : Qc := Q2Qc (n # d).
Definition z (n : Z) : C := (Q2Qc (inject_Z n), Q2Qc 0).
Definition zc (a b : Z) : C := (Q2Qc (inject_Z a), Q2Qc (inject_Z b)).
Definition cq (a b : Qc) : C := (a, b).
Open Scope nat_scope.
"""

EXC = (ValueError, TypeError, AttributeError, IndexError, np.exceptions.AxisError)


# ---- domains -------------------------------------------------------------------------------------

def make_space(spec):
    import nifty.cl as ift
    k = spec[0]
    if k == "RG":
        return ift.RGSpace(tuple(spec[1]), distances=tuple(spec[2]), harmonic=bool(spec[3]))
    if k == "HP":
        return ift.HPSpace(spec[1])
    if k == "LM":
        return ift.LMSpace(spec[1])
    if k == "DOF":
        return ift.DOFSpace(list(spec[1]))
    if k == "GL":
        return ift.GLSpace(spec[1], spec[2])
    if k == "PS":
        return ift.PowerSpace(ift.RGSpace(tuple(spec[1]), distances=tuple(spec[2]), harmonic=True))
    if k == "U":
        return ift.UnstructuredDomain(tuple(spec[1]))
    raise ValueError(k)


def dyadic(x):
    """a float whose exact value has a small power-of-two denominator and a small numerator"""
    fr = Fraction(float(x))
    d = fr.denominator
    return d & (d - 1) == 0 and d <= 2 ** 12 and abs(fr.numerator) <= 2 ** 12


class Dom:
    """A domain tuple: the NIFTy object, and the descriptor handed to the model (volumes are read
    from the implementation as exact rationals)."""

    def __init__(self, specs):
        import nifty.cl as ift
        self.specs = [list(s) for s in specs]
        self.spaces = [make_space(s) for s in specs]
        self.dt = ift.DomainTuple.make(tuple(self.spaces))
        self.sizes = [int(s.size) for s in self.spaces]
        self.vols = []
        self.exact = True
        for s in self.spaces:
            if not hasattr(s, "dvol"):
                self.vols.append(("N",))
                continue
            sd = s.scalar_dvol
            if sd is not None:
                self.vols.append(("U", Fraction(float(sd))))
                self.exact &= dyadic(sd)
            else:
                ws = [Fraction(float(x)) for x in np.asarray(s.dvol).reshape(-1)]
                self.vols.append(("P", ws))
                self.exact &= all(dyadic(x) for x in ws)
        self.k = len(self.spaces)

    def vol_array(self, i):
        """volume of every pixel of sub-domain i as float array of length size (None: no volume)"""
        v = self.vols[i]
        if v[0] == "N":
            return None
        if v[0] == "U":
            return np.full(self.sizes[i], float(v[1]))
        return np.array([float(x) for x in v[1]])

    def coq(self):
        out = []
        for n, v in zip(self.sizes, self.vols):
            if v[0] == "N":
                vs = "NoVol"
            elif v[0] == "U":
                vs = "(Uniform %s)" % cqc(v[1])
            else:
                vs = "(PerPixel %s)" % C.clist([cqc(x) for x in v[1]])
            out.append("(mkSp %d %s)" % (n, vs))
        return C.clist(out)

    def volmax(self):
        m = 1.0
        for v in self.vols:
            xs = [v[1]] if v[0] == "U" else (v[1] if v[0] == "P" else [])
            for x in xs:
                x = abs(float(x))
                m = max(m, x, 1.0 / x if x else 1.0)
        return m


def cqc(fr):
    fr = Fraction(fr)
    return "(q (%d) %d)" % (fr.numerator, fr.denominator)


def cval(x):
    """a complex/real number as C literal (exact)"""
    x = complex(x)
    re, im = Fraction(x.real), Fraction(x.imag)
    if re.denominator == 1 and im.denominator == 1:
        return "(z (%d))" % re.numerator if im == 0 else "(zc (%d) (%d))" % (re.numerator, im.numerator)
    return "(cq %s %s)" % (cqc(re), cqc(im))


def nested(arr, depth):
    if depth == 0:
        return cval(arr)
    return C.clist([nested(a, depth - 1) for a in arr])


def spaces_coq(sp):
    if sp is None:
        return "None"
    if isinstance(sp, int):
        sp = [sp]
    return "(Some %s)" % C.clist([str(int(i)) for i in sp])


def spaces_py(sp):
    if sp is None or isinstance(sp, int):
        return sp
    return tuple(sp)


def spaces_set(sp, k):
    """valid, parsed set of sub-domain indices or None if parse_spaces must reject"""
    if sp is None:
        return list(range(k))
    l = [sp] if isinstance(sp, int) else list(sp)
    if any(i < 0 or i >= k for i in l) or len(set(l)) != len(l):
        return None
    return l


# ---- running the implementation ------------------------------------------------------------------

LAYOUTS = ["C", "F", "S", "M", "R"]


def mk_array(D, dtype, flat, layout="C"):
    """the data as ndarray of the domain's shape; `layout` only chooses the MEMORY layout (array
    semantics must not depend on it): C / Fortran / strided view (every other element of a larger
    buffer) / axes moved in memory (neither C nor F for >= 3 axes) / real part of a complex buffer"""
    shape = D.dt.shape
    if dtype == "complex128":
        a = np.array([complex(x[0], x[1]) for x in flat], dtype=np.complex128)
    else:
        a = np.array(flat, dtype=dtype)
    a = a.reshape(shape)
    if layout == "C" or a.ndim == 0:
        return a
    if layout == "F":
        return np.asfortranarray(a)
    if layout == "M":
        return np.moveaxis(np.ascontiguousarray(np.moveaxis(a, 0, -1)), -1, 0)
    if layout == "R" and dtype == "float64":
        big = a + 1j * (a + 7.)
        return big.real
    big = np.zeros(shape[:-1] + (2 * shape[-1],), dtype=a.dtype) - 5
    big[..., ::2] = a
    return big[..., ::2]


def keep(D, sp, arr):
    """result array -> keepdims, one axis per sub-domain"""
    s = spaces_set(sp, D.k)
    shp = [1 if i in s else D.sizes[i] for i in range(D.k)]
    return np.asarray(arr).reshape(shp)


def run_impl(case):
    """('val', ndarray one axis per sub-domain) | ('err', name)"""
    import nifty.cl as ift
    D = Dom(case["dom"])
    f = ift.Field(D.dt, mk_array(D, case["dtype"], case["data"], case.get("layout", "C")))
    op, sp = case["op"], spaces_py(case.get("spaces"))
    try:
        if op in ("sum", "prod", "integrate", "mean", "var", "std"):
            r = getattr(f, op)(sp)
            return D, ("val", keep(D, sp, r.asnumpy()))
        if op in ("s_sum", "s_prod", "s_integrate", "s_mean", "s_var", "s_std"):
            r = getattr(f, op)()
            return D, ("val", keep(D, None, r))
        if op == "weight":
            r = f.weight(case["power"], sp)
            return D, ("val", r.asnumpy().reshape(D.sizes))
        if op in ("vdot", "s_vdot", "add", "sub", "mul"):
            D2 = Dom(case["dom2"]) if case.get("dom2") else D
            g = ift.Field(D2.dt, mk_array(D2, case["dtype2"], case["data2"], case.get("layout2", "C")))
            if op == "vdot":
                r = f.vdot(g, sp)
                return D, ("val", keep(D, sp, r.asnumpy()))
            if op == "s_vdot":
                return D, ("val", keep(D, None, f.s_vdot(g)))
            r = {"add": lambda: f + g, "sub": lambda: f - g, "mul": lambda: f * g}[op]()
            return D, ("val", r.asnumpy().reshape(D.sizes))
        if op in ("adds", "muls", "rsubs"):
            c = case["scalar"]
            c = complex(c[0], c[1]) if isinstance(c, list) else c
            r = {"adds": lambda: f + c, "muls": lambda: f * c, "rsubs": lambda: c - f}[op]()
            return D, ("val", r.asnumpy().reshape(D.sizes))
    except EXC as e:
        return D, ("err", type(e).__name__)
    raise ValueError(op)


def model_term(case, D):
    k, dom, sp = D.k, D.coq(), spaces_coq(case.get("spaces"))
    t = nested(mk_array(D, case["dtype"], case["data"]).reshape(D.sizes), k)
    op = case["op"]
    if op in ("sum", "prod", "integrate", "mean", "var"):
        fn = {"sum": "csum", "prod": "cprod"}.get(op, op)
        return "%s %d %s %s %s" % (fn, k, dom, sp, t)
    if op in ("s_sum", "s_prod", "s_integrate", "s_mean", "s_var"):
        fn = {"s_sum": "csum", "s_prod": "cprod"}.get(op, op[2:])
        return "%s %d %s None %s" % (fn, k, dom, t)
    if op == "weight":
        return "weight %d (%d)%%Z %s %s %s" % (k, case["power"], dom, sp, t)
    if op in ("vdot", "s_vdot", "add", "sub", "mul"):
        D2 = Dom(case["dom2"]) if case.get("dom2") else D
        if D2.k != k:
            return "(@None (tens %d))" % k
        t2 = nested(mk_array(D2, case["dtype2"], case["data2"]).reshape(D2.sizes), k)
        if op in ("vdot", "s_vdot"):
            return "vdot %d %s %s %s %s %s" % (k, dom, D2.coq(), sp if op == "vdot" else "None", t, t2)
        return "binop %d %s %s %s %s %s" % (k, {"add": "cadd", "sub": "csub", "mul": "cmul"}[op], dom, D2.coq(), t, t2)
    if op in ("adds", "muls", "rsubs"):
        c = case["scalar"]
        c = complex(c[0], c[1]) if isinstance(c, list) else c
        f = {"adds": "cadd", "muls": "cmul", "rsubs": "(fun x c => csub c x)"}[op]
        return "Some (binop_scalar %d %s %s %s)" % (k, f, t, cval(c))
    raise ValueError(op)


def scale_of(case, D):
    """magnitude of the terms that are summed (for the tolerance of inexact comparisons)"""
    def mx(flat):
        return max([1.0] + [abs(complex(*x)) if isinstance(x, list) else abs(x) for x in flat])
    op = case["op"].replace("s_", "")
    m = mx(case["data"]) * (mx(case["data2"]) if case.get("data2") else 1.0)
    n = int(np.prod(D.sizes))
    if op == "prod":
        return float(m ** n)
    vm = 1.0
    if op in ("integrate", "mean", "var", "std"):
        vm = D.volmax() ** D.k
    if op == "weight":
        vm = D.volmax() ** (D.k * max(1, abs(case.get("power", 1))))
    return float((1 + m) ** 2 * n * vm)


def check_term(case, D, out):
    k = D.k
    exact = D.exact and case["op"] in ("sum", "prod", "integrate", "weight", "vdot", "s_sum", "s_prod", "s_integrate",
                                       "s_vdot", "add", "sub", "mul", "adds", "muls", "rsubs")
    if case["op"] == "weight" and case.get("power", 1) < 0:
        # 1/v is exact in float64 only for powers of two
        def pow2(fr):
            n = abs(Fraction(fr).numerator)
            return n & (n - 1) == 0
        if not all(pow2(x) for v in D.vols if v[0] != "N" for x in ([v[1]] if v[0] == "U" else v[1])):
            exact = False
    if case["op"] in ("prod", "s_prod") and scale_of(case, D) > 2.0 ** 50:
        exact = False        # the product itself leaves the exactly representable integers
    eps = Fraction(0) if exact else Fraction(scale_of(case, D)) / 2 ** 40
    if out[0] == "err":
        impl = "(@None (tens %d))" % k
    else:
        impl = "(Some %s)" % nested(out[1], k)
    return "same %d %s (%s) %s" % (k, cqc(eps), model_term(case, D), impl)


# ---- NumPy reference (direct oracle) ---------------------------------------------------------------

def reference(case, D):
    """('val', array keepdims-per-subdomain) | ('err',) computed with plain NumPy and explicit volumes"""
    k = D.k
    x = mk_array(D, case["dtype"], case["data"]).reshape(D.sizes).astype(complex)
    op = case["op"]
    sp = case.get("spaces")
    if op.startswith("s_"):
        op, sp = op[2:], None
    if op in ("add", "sub", "mul", "vdot"):
        same = not case.get("dom2") or [list(s) for s in case["dom2"]] == [list(s) for s in case["dom"]]
        if not same:
            return ("err",)
        y = mk_array(D, case["dtype2"], case["data2"]).reshape(D.sizes).astype(complex)
        if op == "add":
            return ("val", x + y)
        if op == "sub":
            return ("val", x - y)
        if op == "mul":
            return ("val", x * y)
        x = np.conj(x) * y
        op = "sum"
    if op in ("adds", "muls", "rsubs"):
        c = case["scalar"]
        c = complex(c[0], c[1]) if isinstance(c, list) else c
        return ("val", {"adds": x + c, "muls": x * c, "rsubs": c - x}[op])
    S = spaces_set(sp, k)
    if S is None:
        return ("err",)
    ax = tuple(S)
    if op == "sum":
        return ("val", x.sum(axis=ax, keepdims=True))
    if op == "prod":
        return ("val", x.prod(axis=ax, keepdims=True))
    # volume array of the contracted sub-domains, broadcast over the rest
    W = np.ones(D.sizes)
    for i in S:
        v = D.vol_array(i)
        if v is None:
            return ("err",)
        shp = [1] * k
        shp[i] = D.sizes[i]
        W = W * v.reshape(shp)
    if op == "weight":
        return ("val", x * W ** case["power"])
    Wsum = W.sum(axis=ax, keepdims=True)
    if op == "integrate":
        return ("val", (x * W).sum(axis=ax, keepdims=True))
    m = (x * W).sum(axis=ax, keepdims=True) / Wsum
    if op == "mean":
        return ("val", m)
    v = (W * np.abs(x - m) ** 2).sum(axis=ax, keepdims=True) / Wsum
    if op == "var":
        return ("val", v)
    if op == "std":
        return ("val", np.sqrt(v))
    raise ValueError(op)


def direct_failure(case, D, out):
    """The property on the implementation, independent of Coq: None if it holds for this case."""
    ref = reference(case, D)
    if ref[0] == "err":
        return None if out[0] == "err" else "accepted an input that must be rejected (invalid sub-domain index, domain without volume, or operands on different domains)"
    if out[0] == "err":
        return "raised %s" % out[1]
    a = np.asarray(out[1]).astype(complex)
    b = ref[1]
    if a.shape != b.shape:
        a = a.reshape(b.shape)
    tol = 1e-10 * scale_of(case, D)
    if not np.all(np.abs(a - b) <= tol):
        return "differs from the NumPy reference by %.3g (tolerance %.3g)" % (float(np.max(np.abs(a - b))), tol)
    return None


def signature(case, D, what):
    perpix = any(v[0] == "P" for v in D.vols)
    return {"op": case["op"].replace("s_", ""), "dtype_kind": np.dtype(case["dtype"]).kind,
            "per_pixel_volumes": perpix, "what": what.split(" ")[0]}


# ---- generation -----------------------------------------------------------------------------------

SPACE_POOL = [
    ["RG", [2], [0.5], False], ["RG", [3], [2.0], False], ["RG", [2, 2], [0.5, 0.25], False], ["RG", [4], [0.25], True],
    ["RG", [3, 2], [1.0, 0.5], False], ["LM", 1], ["DOF", [0.5, 2.0, 1.0]], ["DOF", [4.0, 0.25]], ["PS", [4], [0.5]],
    ["PS", [4, 4], [0.5, 0.5]], ["U", [2]], ["U", [3]], ["U", [2, 2]], ["HP", 1], ["GL", 2, 3], ["RG", [3], [0.3], False],
    ["DOF", [0.3, 1.7]], ["RG", [1], [2.0], False], ["DOF", [0.5]],
]


def gen_data(rng, n, dtype):
    if dtype == "complex128":
        return [[int(a), int(b)] for a, b in zip(rng.integers(-3, 4, size=n), rng.integers(-3, 4, size=n))]
    return [int(a) for a in rng.integers(-3, 4, size=n)]


def gen_domain(rng, maxsize=48):
    while True:
        k = int(rng.choice([1, 2, 2, 3]))
        specs = [SPACE_POOL[int(i)] for i in rng.integers(0, len(SPACE_POOL), size=k)]
        n = 1
        for s in specs:
            n *= {"RG": lambda: int(np.prod(s[1])), "HP": lambda: 12, "LM": lambda: 4, "DOF": lambda: len(s[1]),
                  "GL": lambda: s[1] * s[2], "PS": lambda: {4: 3, 16: 6}[int(np.prod(s[1]))],
                  "U": lambda: int(np.prod(s[1]))}[s[0]]()
        if n <= maxsize:
            return specs


def all_space_args(rng, k):
    out = [None]
    for r in range(0, k + 1):
        for c in itertools.combinations(range(k), r):
            c = list(c)
            if len(c) > 1 and rng.random() < 0.5:
                c = [int(x) for x in rng.permutation(c)]
            out.append(c)
    out += list(range(k))
    out += [[k], [0, 0]]
    return out


def gen_cases(ctx):
    rng = ctx.rng(6)
    cases = []
    # call histories on ONE domain object (DomainTuples are cached): different powers / sub-domains /
    # contractions one after the other -- a result must not depend on what was computed before
    for specs, order in (([["DOF", [0.5, 4.0]]], "neg_first"), ([["RG", [2], [0.5], False], ["PS", [4], [0.25]]], "neg_first"),
                         ([["GL", 2, 3]], "neg_first"), ([["DOF", [2.0, 0.25, 4.0]], ["U", [2]]], "pos_first"),
                         ([["PS", [4, 4], [0.25, 0.5]]], "pos_first")):
        D = Dom(specs)
        n = int(np.prod(D.sizes))
        pp = [i for i, v in enumerate(D.vols) if v[0] == "P"][0]
        seq = [("weight", -1, [pp]), ("integrate", None, [pp]), ("mean", None, [pp]), ("var", None, [pp]), ("weight", 1, None if D.vols.count(("N",)) == 0 else [pp]),
               ("weight", 2, [pp]), ("s_var", None, None), ("s_mean", None, None), ("s_integrate", None, None), ("weight", -1, pp), ("integrate", None, pp)]
        if order == "pos_first":
            seq = [("integrate", None, [pp]), ("weight", 2, [pp]), ("weight", -1, [pp]), ("mean", None, pp), ("weight", 1, [pp]), ("var", None, [pp]),
                   ("weight", 0, [pp]), ("weight", -1, [pp])]
        for op, pw, sp in seq:
            if op.startswith("s_") and any(v[0] == "N" for v in D.vols):
                continue
            dt = ["int64", "float64", "complex128"][int(rng.integers(0, 3))]
            c = {"dom": specs, "dtype": dt, "data": gen_data(rng, n, dt), "op": op, "spaces": sp}
            if pw is not None:
                c["power"] = pw
            cases.append(c)
    ndom = 14 if ctx.quick else 120
    dtypes = ["int64", "float64", "complex128"]
    for d in range(ndom):
        specs = gen_domain(rng, 48 if ctx.quick else 96)
        D = Dom(specs)
        n = int(np.prod(D.sizes))
        for sp in all_space_args(rng, D.k):
            for op in ["sum", "integrate", "mean", "var", "weight", "vdot", "prod"]:
                if ctx.quick and sp != [] and rng.random() < 0.45:
                    continue
                dt = dtypes[int(rng.integers(0, 3))]
                c = {"dom": specs, "dtype": dt, "data": gen_data(rng, n, dt), "op": op, "spaces": sp,
                     "layout": LAYOUTS[int(rng.integers(0, 5))], "layout2": LAYOUTS[int(rng.integers(0, 5))]}
                if op == "weight":
                    c["power"] = int(rng.choice([1, 1, -1, 2, 0]))
                if op == "vdot":
                    dt2 = dtypes[int(rng.integers(0, 3))]
                    c.update({"dtype2": dt2, "data2": gen_data(rng, n, dt2)})
                cases.append(c)
        for op in ["s_sum", "s_prod", "s_integrate", "s_mean", "s_var", "s_vdot", "add", "sub", "mul", "adds", "muls", "rsubs"]:
            dt = dtypes[int(rng.integers(0, 3))]
            c = {"dom": specs, "dtype": dt, "data": gen_data(rng, n, dt), "op": op, "spaces": None,
                 "layout": LAYOUTS[int(rng.integers(0, 5))], "layout2": LAYOUTS[int(rng.integers(0, 5))]}
            if op in ("s_vdot", "add", "sub", "mul"):
                dt2 = dtypes[int(rng.integers(0, 3))]
                c.update({"dtype2": dt2, "data2": gen_data(rng, n, dt2)})
                if rng.random() < 0.3:
                    # an operand living on a different domain of the same shape
                    other = [list(s) for s in specs]
                    other[0] = ["U", [D.sizes[0]]] if specs[0][0] != "U" else ["RG", [D.sizes[0]], [1.0], False]
                    if Dom(other).dt.shape == D.dt.shape:
                        c["dom2"] = other
            if op in ("adds", "muls", "rsubs"):
                c["scalar"] = [int(rng.integers(-3, 4)), int(rng.integers(-3, 4))] if rng.random() < 0.3 else int(rng.integers(-3, 4))
            cases.append(c)
    # dot products and sums of operands in every pair of memory layouts, on domains with >= 2 array axes
    for specs in ([["RG", [2, 3], [0.5, 0.25], False]], [["U", [3]], ["DOF", [0.5, 2.0, 1.0, 0.25]]],
                  [["RG", [2], [0.5], False], ["U", [3]], ["LM", 1]]):
        n = int(np.prod(Dom(specs).sizes))
        for l1 in LAYOUTS:
            for l2 in LAYOUTS:
                for op in (["s_vdot", "vdot"] if not ctx.quick or (l1 != "C" and l2 != "C") else ["s_vdot"]):
                    dt, dt2 = ("float64", "float64") if "R" in (l1, l2) else (dtypes[int(rng.integers(0, 3))], dtypes[int(rng.integers(0, 3))])
                    cases.append({"dom": specs, "dtype": dt, "data": gen_data(rng, n, dt), "op": op, "spaces": None,
                                  "dtype2": dt2, "data2": gen_data(rng, n, dt2), "layout": l1, "layout2": l2})
    return cases


# ---- MultiField --------------------------------------------------------------------------------------

def mf_build(spec):
    """spec: list of [key, dom specs, dtype, data] -> MultiField, list of Dom"""
    import nifty.cl as ift
    doms = {e[0]: Dom(e[1]) for e in spec}
    fl = {e[0]: ift.Field(doms[e[0]].dt, mk_array(doms[e[0]], e[2], e[3])) for e in spec}
    return ift.MultiField.from_dict(fl), doms


def mf_coq(spec):
    ents = []
    for e in sorted(spec, key=lambda e: e[0]):
        D = Dom(e[1])
        ents.append("(mkEnt %d %d %s %s)" % (ord(e[0]) - 97, D.k, D.coq(), nested(mk_array(D, e[2], e[3]).reshape(D.sizes), D.k)))
    return C.clist(ents)


def mf_result_coq(mf, domspecs):
    ents = []
    for key in sorted(mf.keys()):
        D = Dom(domspecs[key])
        ents.append("(mkEnt %d %d %s %s)" % (ord(key) - 97, D.k, D.coq(), nested(mf[key].asnumpy().reshape(D.sizes), D.k)))
    return C.clist(ents)


def gen_mf_cases(ctx):
    rng = ctx.rng(66)
    out = []
    pool = [[["RG", [2], [0.5], False]], [["DOF", [0.5, 2.0, 1.0]]], [["U", [2]], ["RG", [2], [0.5], False]], [["LM", 1]]]
    dtypes = ["int64", "float64", "complex128"]
    for i in range(60 if ctx.quick else 300):
        keys = "abcd"
        dk = {k: pool[int(rng.integers(0, len(pool)))] for k in keys}

        def mk(ks, alt=False):
            sp = []
            for k in ks:
                d = dk[k]
                if alt and rng.random() < 0.5:
                    d = pool[int(rng.integers(0, len(pool)))]
                dt = dtypes[int(rng.integers(0, 3))]
                sp.append([k, d, dt, gen_data(rng, int(np.prod(Dom(d).sizes)), dt)])
            return sp
        ka = [k for k in keys if rng.random() < 0.6] or ["a"]
        mode = ["same", "keys", "dom"][int(rng.integers(0, 3))]
        if mode == "same":
            kb = ka
        elif rng.random() < 0.4:
            # the partner has the same leading keys plus more, or fewer (a prefix / an extension)
            kb = (ka + [k for k in keys if k > ka[-1]]) if rng.random() < 0.6 else (ka[:-1] or ka)
        else:
            kb = [k for k in keys if rng.random() < 0.6] or ["b"]
        out.append({"a": mk(ka), "b": mk(kb, alt=(mode == "dom")), "op": ["s_vdot", "addsub0", "addsub1", "badd", "bmul", "bsub"][i % 6]})
    # round 6: MultiField.s_sum (my_sum left fold of Field.s_sum) and MultiField * scalar (scalar branch of
    # MultiField._binary_op); own generator stream so that the cases above are unchanged
    rng2 = ctx.rng(67)
    for i in range(24 if ctx.quick else 120):
        ks = [k for k in "abcd" if rng2.random() < 0.6] or ["c"]
        sp = []
        for k in ks:
            d = pool[int(rng2.integers(0, len(pool)))]
            dt = dtypes[int(rng2.integers(0, 3))]
            sp.append([k, d, dt, gen_data(rng2, int(np.prod(Dom(d).sizes)), dt)])
        cre, cim = int(rng2.integers(-3, 4)), (int(rng2.integers(-3, 4)) if rng2.random() < 0.5 else 0)
        out.append({"a": sp, "b": sp, "op": ["s_sum", "smul", "smul_s_sum"][i % 3], "c": [cre, cim]})
    return out


def mf_scalar(case):
    cre, cim = case["c"]
    return complex(cre, cim) if cim else float(cre)


def mf_run(case):
    a, _ = mf_build(case["a"])
    b, _ = mf_build(case["b"])
    try:
        if case["op"] == "s_vdot":
            return ("val", complex(a.s_vdot(b)))
        if case["op"] == "s_sum":
            return ("val", complex(a.s_sum()))
        if case["op"] == "smul":
            return ("mf", a * mf_scalar(case))
        if case["op"] == "smul_s_sum":
            return ("val", complex((a * mf_scalar(case)).s_sum()))
        if case["op"] in ("badd", "bmul", "bsub"):
            return ("mf", {"badd": lambda: a + b, "bmul": lambda: a * b, "bsub": lambda: a - b}[case["op"]]())
        r = a.flexible_addsub(b, case["op"] == "addsub1")
        return ("mf", r)
    except EXC as e:
        return ("err", type(e).__name__)


def mf_reference(case):
    da = {e[0]: (e[1], mk_array(Dom(e[1]), e[2], e[3]).astype(complex)) for e in case["a"]}
    db = {e[0]: (e[1], mk_array(Dom(e[1]), e[2], e[3]).astype(complex)) for e in case["b"]}
    if case["op"] == "s_sum":
        return ("val", sum(da[k][1].sum() for k in da))
    if case["op"] == "smul":
        return ("mf", {k: da[k][1] * mf_scalar(case) for k in da})
    if case["op"] == "smul_s_sum":
        return ("val", sum((da[k][1] * mf_scalar(case)).sum() for k in da))
    if case["op"] == "s_vdot":
        if sorted(da) != sorted(db) or any(da[k][0] != db[k][0] for k in da):
            return ("err",)
        return ("val", sum(np.vdot(da[k][1], db[k][1]) for k in da))
    if case["op"] in ("badd", "bmul", "bsub"):
        if sorted(da) != sorted(db) or any(da[k][0] != db[k][0] for k in da):
            return ("err",)
        fn = {"badd": lambda x, y: x + y, "bmul": lambda x, y: x * y, "bsub": lambda x, y: x - y}[case["op"]]
        return ("mf", {k: fn(da[k][1], db[k][1]) for k in da})
    neg = case["op"] == "addsub1"
    out = {}
    for k in sorted(set(da) | set(db)):
        if k in da and k in db:
            if da[k][0] != db[k][0]:
                return ("err",)
            out[k] = da[k][1] - db[k][1] if neg else da[k][1] + db[k][1]
        elif k in da:
            out[k] = da[k][1]
        else:
            out[k] = -db[k][1] if neg else db[k][1]
    return ("mf", out)


def mf_direct_failure(case, out):
    ref = mf_reference(case)
    if ref[0] == "err":
        return None if out[0] == "err" else "MultiField operands on different domains were accepted"
    if out[0] == "err":
        return "raised %s" % out[1]
    if ref[0] == "val":
        return None if abs(out[1] - ref[1]) <= 1e-9 * (1 + abs(ref[1])) else "%s differs from the NumPy reference" % case["op"]
    r = out[1]
    if sorted(r.keys()) != sorted(ref[1]):
        return "result keys %s instead of %s" % (sorted(r.keys()), sorted(ref[1]))
    for k in ref[1]:
        if not np.allclose(r[k].asnumpy(), ref[1][k], rtol=0, atol=1e-9):
            return "entry %s differs from the NumPy reference" % k
    return None


def mf_check_term(case, out):
    a, b = mf_coq(case["a"]), mf_coq(case["b"])
    if case["op"] == "s_vdot":
        if out[0] == "err":
            return "match ms_vdot %s %s with None => true | Some _ => false end" % (a, b)
        return "match ms_vdot %s %s with Some v => cclose (q 0 1) v %s | None => false end" % (a, b, cval(out[1]))
    if case["op"] in ("s_sum", "smul_s_sum"):
        m = "ms_sum %s" % a if case["op"] == "s_sum" else "ms_sum (mbinop_scalar cmul %s %s)" % (a, cval(mf_scalar(case)))
        if out[0] == "err":
            return "match %s with None => true | Some _ => false end" % m
        return "match %s with Some v => cclose (q 0 1) v %s | None => false end" % (m, cval(out[1]))
    if case["op"] == "smul":
        if out[0] == "err":
            return "false"
        return "mclose (q 0 1) (mbinop_scalar cmul %s %s) %s" % (a, cval(mf_scalar(case)), mf_result_coq(out[1], {e[0]: e[1] for e in case["a"]}))
    if case["op"] in ("badd", "bmul", "bsub"):
        fn = {"badd": "cadd", "bmul": "cmul", "bsub": "csub"}[case["op"]]
        if out[0] == "err":
            return "match mbinop %s %s %s with None => true | Some _ => false end" % (fn, a, b)
        return "match mbinop %s %s %s with Some m => mclose (q 0 1) m %s | None => false end" % (
            fn, a, b, mf_result_coq(out[1], {e[0]: e[1] for e in case["a"]}))
    neg = "true" if case["op"] == "addsub1" else "false"
    if out[0] == "err":
        return "match flexible_addsub %s %s %s with None => true | Some _ => false end" % (neg, a, b)
    domspecs = {e[0]: e[1] for e in case["b"]}
    domspecs.update({e[0]: e[1] for e in case["a"]})
    return "match flexible_addsub %s %s %s with Some m => mclose (q 0 1) m %s | None => false end" % (
        neg, a, b, mf_result_coq(out[1], domspecs))


def extra_probes():
    """MultiField norm / union / binary ops / std against NumPy (oracle only). yields (name, failure or None)"""
    import nifty.cl as ift
    rng = np.random.default_rng(5)
    d1, d2 = ift.RGSpace(3, distances=0.5), ift.DOFSpace([0.5, 2., 1., 1.])
    for i in range(12):
        a1, a2 = rng.integers(-3, 4, size=3).astype(float), rng.integers(-3, 4, size=4) + 1j * rng.integers(-3, 4, size=4)
        mf = ift.MultiField.from_dict({"x": ift.Field.from_raw(d1, a1), "y": ift.Field.from_raw(d2, a2)})
        cat = np.concatenate([a1, a2])
        for o in (1, 2, 3, np.inf):
            got, ref = mf.norm(o), np.linalg.norm(cat, o)
            yield "MultiField.norm(%s)" % o, None if abs(got - ref) <= 1e-12 * (1 + ref) else "norm(%s) = %r, NumPy %r" % (o, got, ref)
        got, ref = mf.s_sum(), cat.sum()
        yield "MultiField.s_sum", None if abs(got - ref) < 1e-12 else "s_sum %r vs %r" % (got, ref)
        g = (mf * mf - 2 * mf + mf / 2.)["y"].asnumpy()
        yield "MultiField arithmetic", None if np.allclose(g, a2 * a2 - 2 * a2 + a2 / 2, rtol=0, atol=1e-12) else "MultiField arithmetic differs"
        other = ift.MultiField.from_dict({"y": ift.Field.from_raw(d2, a2 * 2), "z": ift.Field.from_raw(d1, a1)})
        u = ift.MultiField.union([mf, other])
        ok = sorted(u.keys()) == ["x", "y", "z"] and np.array_equal(u["y"].asnumpy(), a2 * 2) and np.array_equal(u["x"].asnumpy(), a1)
        yield "MultiField.union", None if ok else "union: last occurrence must win, no summation"
        try:
            mf + other
            yield "MultiField mismatch", "binary op of MultiFields on different domains was accepted"
        except ValueError:
            yield "MultiField mismatch", None
        f = ift.Field.from_raw(d2, a2)
        w = np.array([0.5, 2., 1., 1.])
        m = (w * a2).sum() / w.sum()
        ref = np.sqrt((w * abs(a2 - m) ** 2).sum() / w.sum())
        yield "Field.std (per-pixel)", None if abs(f.std().asnumpy() - ref) < 1e-12 and abs(f.s_std() - ref) < 1e-12 else "std differs"
        h = ift.Field.from_raw(d1, a1)
        yield "Field.std (uniform)", None if abs(h.std().asnumpy() - np.std(a1)) < 1e-12 and abs(h.s_std() - np.std(a1)) < 1e-12 else "std differs"
        e = np.array([0., 2., -1.])
        he = ift.Field.from_raw(d1, e)
        ok = (np.array_equal(he.var(()).asnumpy(), np.zeros(3)) and np.array_equal(he.std(()).asnumpy(), np.zeros(3))
              and he.all(()).asnumpy().dtype == bool and np.array_equal(he.all(()).asnumpy(), e != 0)
              and he.any(()).asnumpy().dtype == bool and np.array_equal(he.any(()).asnumpy(), e != 0)
              and np.array_equal(f.var(()).asnumpy(), np.zeros(4)) and bool(he.any().asnumpy()) and not bool(he.all().asnumpy()))
        yield "contractions over the empty subset", None if ok else "var/std/all/any over spaces=() do not follow ndarray semantics (axis=())"
        cmpf = (h < 1).asnumpy()
        yield "Field comparison", None if np.array_equal(cmpf, a1 < 1) else "comparison differs"


class C06(C.Check):
    prop = "C06"
    coq_dir = "C06"
    trusted_base = [
        "Coq 8.16.1 kernel (coqc, vm_compute for the correspondence evaluation)",
        "hand-written model coq/C06/Model.v of Field.weight/sum/prod/integrate/mean/var/vdot/_binary_op, DomainTuple.scalar_weight/total_volume, parse_spaces, MultiField.s_vdot/flexible_addsub/_binary_op/s_sum (tied by correspondence, not by translation)",
        "NumPy reshape (one axis per sub-domain; unit axes for contracted sub-domains) and the NumPy definitions mean = add.reduce / count, var = mean(|x - mean|^2)",
        "pixel volumes are read from the implementation (dvol / scalar_dvol) and given to the model as exact rationals; the geometry itself is C08",
        "exact arithmetic: dtypes and float rounding are outside the model (dyadic volumes + small integer data => float64 exact; otherwise compared within 2^-40 * scale, the comparison done in Q inside Coq)",
    ]
    assumptions = [
        "sub-domain indices are non-negative (parse_spaces accepts some tuples containing negative indices; not modelled)",
        "all sub-domains have at least one pixel",
        "GLSpace.total_volume (4*pi) is modelled as the sum of its pixel volumes (equal up to rounding)",
    ]
    build_timeout = 1500

    def __init__(self):
        self.obs = []
        self.mobs = []

    def correspondence(self, ctx, res):
        cases = [c["input"] for c in ctx.corpus() if "op" in c.get("input", {})] + gen_cases(ctx)
        self.obs = []
        checks = []
        for c in cases:
            D, out = run_impl(c)
            self.obs.append((c, D, out))
            checks.append(check_term(c, D, out))
        mcases = gen_mf_cases(ctx)
        self.mobs = []
        for c in mcases:
            out = mf_run(c)
            self.mobs.append((c, out))
            checks.append(mf_check_term(c, out))
        from .. import fasteval
        bad = fasteval.eval_bools(self.prop, "corr", HEADER, checks, jobs=6)
        nb = 0
        for i in bad:
            if nb >= 4:
                break
            nb += 1
            if i < len(cases):
                c, D, out = self.obs[i]
                res.add_broken("correspondence", "Field.%s vs coq/C06/Model.v" % c["op"],
                               {"case": c, "impl": out[1].tolist() if out[0] == "val" else out[1]})
            else:
                c, out = self.mobs[i - len(cases)]
                res.add_broken("correspondence", "MultiField.%s vs coq/C06/Model.v" % c["op"],
                               {"case": c, "impl": str(out[1])})
        distinct = len({json.dumps([c["dom"], c["op"], c.get("spaces"), c["dtype"]]) for c, D, out in self.obs
                        if D.k > 1 and out[0] == "val"})
        dist = {}
        for c, D, out in self.obs:
            key = "%s/%s/%s" % (c["op"], c["dtype"], "raised" if out[0] == "err" else "value")
            dist[key] = dist.get(key, 0) + 1
        res.coverage.update({
            "evaluations": len(checks), "distinct_nontrivial": distinct,
            "rule": "operands in 5 memory layouts (C, Fortran, strided view, moved axes, real part of a complex buffer; all pairs for dot products); domain tuples of 1-3 sub-domains drawn from %d space kinds (RG 1-D/2-D, harmonic RG, HP, LM, DOF, GL, power spaces, unstructured), every subset of sub-domains in None/int/tuple form plus an out-of-range and a repeated index, ops sum/prod/integrate/mean/var/weight(p)/vdot/s_*/binary ops with field (same or different domain) and scalar operands, int/float/complex data in -3..3; MultiField s_vdot, binary ops and flexible_addsub on overlapping key sets, MultiField s_sum / (mf * scalar) / (mf * scalar).s_sum with real and complex scalars; non-trivial = more than one sub-domain and a value returned; distinct by (domain, op, spaces, dtype)" % len(SPACE_POOL),
            "samples": [{"dom": c["dom"], "op": c["op"], "spaces": c.get("spaces"), "dtype": c["dtype"], "impl": (out[1].tolist() if out[0] == "val" else out[1])}
                        for c, D, out in self.obs[3:6]],
            "input_distribution": dist,
            "multifield_cases": len(mcases),
            "exact_comparisons": sum(1 for c, D, out in self.obs if D.exact),
            "disagreements": len(bad),
        })
        return bad

    def oracle(self, ctx, res, hints, budget):
        n = 0
        for ci, (c, D, out) in enumerate(self.obs):
            n += 1
            f = direct_failure(c, D, out)
            if f and len(res.failing) < 4:
                # the calls made before on the same (cached) domain object belong to the failing input
                hist = [h for h, _, _ in self.obs[:ci] if h["dom"] == c["dom"]][-12:]
                res.add_failing(signature(c, D, f), "Field.%s(spaces=%s) on %s, dtype %s: %s" % (
                    c["op"], c.get("spaces"), c["dom"], c["dtype"], f), dict(c, history=hist))
        for c, out in self.mobs:
            n += 1
            f = mf_direct_failure(c, out)
            if f and len(res.failing) < 4:
                res.add_failing({"op": "MultiField." + c["op"], "what": f.split(" ")[0]}, "MultiField.%s: %s" % (c["op"], f), {"mf": c})
        for name, f in extra_probes():
            n += 1
            if f and len(res.failing) < 4:
                res.add_failing({"op": name, "what": "probe"}, "%s: %s" % (name, f), {"probe": name})
        # std through the same reference (sqrt: tolerance only)
        rng = ctx.rng(606)
        nstd = 40 * budget
        for i in range(nstd):
            specs = gen_domain(rng)
            D = Dom(specs)
            dt = ["int64", "float64", "complex128"][i % 3]
            sps = all_space_args(rng, D.k)
            c = {"dom": specs, "dtype": dt, "data": gen_data(rng, int(np.prod(D.sizes)), dt), "op": "std",
                 "spaces": sps[int(rng.integers(0, len(sps)))]}
            D, out = run_impl(c)
            n += 1
            f = direct_failure(c, D, out)
            if f and len(res.failing) < 4:
                res.add_failing(signature(c, D, f), "Field.std(spaces=%s) on %s, dtype %s: %s" % (c.get("spaces"), specs, dt, f), c)
        res.coverage["impl_property_evaluations"] = n

    def replay(self, ctx, rp):
        c = rp["input"]
        if "mf" in c:
            return mf_direct_failure(c["mf"], mf_run(c["mf"])) is not None
        if "probe" in c:
            return any(f for name, f in extra_probes() if name == c["probe"])
        for h in c.get("history", []):
            run_impl(h)
        D, out = run_impl(c)
        return direct_failure(c, D, out) is not None


CHECK = C06()
