"""C36 -- Fit-quality diagnostics report the documented statistics.

Tie: hand model coq/C36/Model.v of the per-key arithmetic of classic `minisanity` (with the
StatCalculator translated for C26) and of JAX `_residual_params/reduced_residual_stats`, tied by a
correspondence on generated residual arrays (small integers / dyadic values, planted NaNs and exact
zeros, real and complex, one or two keys, 1-4 samples, two kinds of likelihood): every reported
number of both APIs is compared with the exact rational model inside coqc (|impl - model| <=
1e-12*scale^2, counts exactly, NaN as NaN).
Direct oracle: NumPy reference written from the property text (mean over the non-ignored entries,
averaged over the samples; ignored = NaN or exact zero), applied to both APIs."""
import json
import os
from fractions import Fraction

import numpy as np

from .. import common as C

HEADER = ("From Coq Require Import List ZArith Bool QArith Qcanon.\nImport ListNotations.\n"
          "Require Import NV.C26.Prelude NV.C36.Model.\n")


# --------------------------------------------------------------------------------------------------
# cases
# --------------------------------------------------------------------------------------------------

def enc(x):
    """JSON form of an entry: None = NaN, number, or [re, im]."""
    if isinstance(x, complex) or np.iscomplexobj(x):
        if np.isnan(x.real) or np.isnan(x.imag):
            return None
        return [float(x.real), float(x.imag)]
    return None if np.isnan(x) else float(x)


def dec_arr(a, cplx):
    if cplx:
        def one(v):
            if v is None:
                return complex(np.nan, 0)
            if isinstance(v, list):        # [re, im]; a None component is a NaN in that component only
                return complex(np.nan if v[0] is None else v[0], np.nan if v[1] is None else v[1])
            return complex(v)
        return np.array([one(v) for v in a], dtype=np.complex128)
    return np.array([np.nan if v is None else v for v in a], dtype=np.float64)


TINY = [1e-8, 9.9e-9, 1e-9, 1e-12, 1e-30, 1e-100, 1e-300, 5e-324]


def gen_value(rng, cplx, tiny=False):
    v = float(rng.integers(-6, 7)) * float(2.0 ** rng.integers(-2, 2))
    if v == 0.0:
        v = 1.0
    if tiny and rng.random() < 0.35:
        # tiny but NON-zero magnitude: must not be treated like an exact zero
        v = float(rng.choice([-1.0, 1.0])) * float(rng.integers(1, 7)) * TINY[int(rng.integers(0, len(TINY)))]
        if v == 0.0:
            v = 5e-324
    if cplx:
        im = float(rng.integers(-4, 5)) * 0.5
        if im != 0.0 and rng.random() < 0.2:
            v = 0.0          # purely imaginary entry: not an exact zero
        return [v, im]
    return v


def gen_case(rng, idx):
    kind = "identity" if rng.random() < 0.65 else "masked"
    cplx = bool(rng.random() < 0.3)
    nsamp = int(rng.integers(1, 5))
    flavour = ["clean", "zeros", "nans", "both"][idx % 4]
    tiny = (idx // 4) % 2 == 1          # every second block of four: tiny non-zero entries next to zeros/NaNs
    if kind == "identity":
        kchoice = idx % 5
        if kchoice in (0, 1):
            keys = {"<None>": int(rng.integers(1, 7))}
        elif kchoice in (2, 3):
            keys = {"a": int(rng.integers(1, 6)), "bb": int(rng.integers(1, 4))}
        else:
            # keys longer than the widest table column (42) that share their first 41+ characters,
            # and one of exactly the column width: the returned values must keep the full keys apart
            stem = "very_long_operator_key_name_for_the_table_" + "x" * int(rng.integers(0, 6))
            keys = {stem + "_first": int(rng.integers(1, 5)), stem + "_second": int(rng.integers(1, 5)),
                    "k" * 42: int(rng.integers(1, 4))}
        samples = []
        for _ in range(nsamp):
            s = {}
            for k, n in keys.items():
                arr = [gen_value(rng, cplx, tiny) for _ in range(n)]
                for i in range(n):
                    u = rng.random()
                    if flavour in ("zeros", "both") and u < 0.25:
                        arr[i] = [0.0, 0.0] if cplx else 0.0
                    elif flavour in ("nans", "both") and u > 0.8:
                        if cplx and rng.random() < 0.6:
                            # NaN in ONE component only: the whole entry is NaN, its finite component must not leak
                            w = gen_value(rng, True)
                            arr[i] = [None, w[0] if w[1] == 0 else w[1]] if rng.random() < 0.5 else [w[0], None]
                        else:
                            arr[i] = None
                s[k] = arr
            samples.append(s)
        return {"kind": kind, "cplx": cplx, "keys": keys, "samples": samples}
    # masked Gaussian likelihood as in NIFTy's own test: r = sqrt(Ninv) * (mask*x - mask*d); NaN in d and N
    n = int(rng.integers(2, 7))
    d = [gen_value(rng, cplx) for _ in range(n)]
    sig_inv = [float(2.0 ** rng.integers(-1, 3)) for _ in range(n)]      # sqrt of the inverse variance
    mask = [1.0] * n
    nanpos = []
    for i in range(n):
        u = rng.random()
        if flavour in ("zeros", "both") and u < 0.3:
            mask[i] = 0.0
        elif flavour in ("nans", "both") and u > 0.75:
            nanpos.append(i)
    samples = [{"<None>": [gen_value(rng, cplx, tiny and kind == "identity") for _ in range(n)]} for _ in range(nsamp)]
    return {"kind": kind, "cplx": cplx, "keys": {"<None>": n}, "samples": samples, "d": d, "sig_inv": sig_inv,
            "mask": mask, "nanpos": nanpos}


# --------------------------------------------------------------------------------------------------
# running the implementations
# --------------------------------------------------------------------------------------------------

def run_case(c):
    """Returns {"resid": {section: {key: [arrays per sample]}}, "classic": {...}, "jax": {...}}."""
    import jax
    jax.config.update("jax_enable_x64", True)
    import nifty.cl as ift
    import nifty.re as jft
    cplx = c["cplx"]
    dt = np.complex128 if cplx else np.float64
    keys = c["keys"]
    single = list(keys) == ["<None>"]
    if single:
        dom = ift.makeDomain(ift.UnstructuredDomain(keys["<None>"]))
    else:
        dom = ift.makeDomain({k: ift.UnstructuredDomain(n) for k, n in keys.items()})

    def mkfield(s):
        if single:
            return ift.makeField(dom, dec_arr(s["<None>"], cplx))
        return ift.MultiField.from_dict({k: ift.makeField(dom[k], dec_arr(s[k], cplx)) for k in keys})
    fields = [mkfield(s) for s in c["samples"]]
    if c["kind"] == "identity":
        e = ift.GaussianEnergy(data=None, inverse_covariance=None, domain=dom, sampling_dtype=dt)
    else:
        d = dec_arr(c["d"], cplx)
        ninv = np.array(c["sig_inv"]) ** 2
        for i in c["nanpos"]:
            d[i] = np.nan
            ninv[i] = np.nan
        mask = np.array(c["mask"])
        N = ift.makeOp(ift.makeField(dom, ninv), sampling_dtype=dt)
        e = ift.GaussianEnergy(ift.makeField(dom, d * mask), N) @ ift.makeOp(ift.makeField(dom, mask))
    sl = ift.SampleList(fields)
    with np.errstate(all="ignore"):
        _, ms = ift.extra.minisanity(e, sl, terminal_colors=False, return_values=True)

    def arrs(f):
        if isinstance(f, ift.MultiField):
            return {k: np.asarray(f[k].asnumpy()).ravel() for k in f.keys()}
        return {"<None>": np.asarray(f.asnumpy()).ravel()}
    resid = {"data_residuals": {}, "latent_variables": {}}
    for f in fields:
        for k, a in arrs(e.normalized_residual(f)).items():
            resid["data_residuals"].setdefault(k, []).append(a)
        for k, a in arrs(f).items():
            resid["latent_variables"].setdefault(k, []).append(a)
    classic = {}
    for sec in resid:
        classic[sec] = {}
        for k in resid[sec]:
            try:
                classic[sec][k] = {"rcs": ms["redchisq"][sec][k]["mean"], "rcs_std": ms["redchisq"][sec][k]["std"],
                                   "mean": ms["scmean"][sec][k]["mean"], "mean_std": ms["scmean"][sec][k]["std"],
                                   "ndof": int(ms["ndof"][sec][k]), "nig": int(ms["nigndof"][sec][k])}
            except KeyError:
                classic[sec][k] = {"missing": True, "returned_keys": sorted(ms["redchisq"][sec].keys())}
        extra = sorted(set(ms["redchisq"][sec].keys()) - set(resid[sec].keys()))
        if extra:
            classic[sec]["__extra_keys__"] = extra
    jx = {}
    for sec in resid:
        tree = {k: np.stack(v) for k, v in resid[sec].items()}
        # jft.Samples stores residuals relative to pos (`.samples` = pos + stored): pos = 0 keeps the arrays
        # exactly and is still different from every non-zero sample
        otherpos = {k: np.zeros_like(v[0]) for k, v in tree.items()}
        smp = jft.Samples(pos=otherpos, samples=tree)
        jx[sec] = {}
        try:
            st = jft.reduced_residual_stats(smp)
            st2, txt = jft.minisanity(smp, lambda x: x)          # the wrapper and the `func` path
            first = {k: v[0] for k, v in tree.items()}
            st_one = jft.reduced_residual_stats(jft.Samples(pos=otherpos, samples={k: v[:1] for k, v in tree.items()}))
            st_pos = jft.reduced_residual_stats(first)
        except Exception as e:  # noqa
            for k in tree:
                jx[sec][k] = {"error": "%s: %s" % (type(e).__name__, str(e)[:200])}
            continue
        for k in tree:
            one_same = all(np.array_equal(np.asarray(getattr(st_one[k], f)), np.asarray(getattr(st_pos[k], f)), equal_nan=True)
                           for f in ("mean", "reduced_chisq", "ndof"))
            a, b = st[k], st2[k]
            same = all(np.array_equal(np.asarray(getattr(a, f)), np.asarray(getattr(b, f)), equal_nan=True) for f in ("mean", "reduced_chisq", "ndof"))
            jx[sec][k] = {"mean": complex(np.asarray(a.mean)[0]), "rcs": float(np.asarray(a.reduced_chisq)[0]),
                          "ndof": int(a.ndof), "rcs_std": float(np.asarray(a.reduced_chisq)[1]), "wrapper_same": bool(same), "fields": list(a._fields),
                          "one_sample_same": bool(one_same)}
    # MAP state / single position: a Samples object WITHOUT samples and a bare position, each with a
    # `func`; the statistics must be those of func(position) as one sample
    import jax as _jax
    import jax.numpy as jnp
    half = lambda t: _jax.tree_util.tree_map(lambda a: 0.5 * a, t)       # noqa: E731
    pos = {k: v[0] for k, v in resid["latent_variables"].items()}
    mp = {}
    # reference: func(position) passed as TWO identical explicit samples (their mean is exact; a single
    # explicit sample would itself depend on how one-sample objects are treated)
    ref_st = jft.reduced_residual_stats(jft.Samples(pos={k: np.zeros_like(v) for k, v in pos.items()},
                                                    samples={k: np.stack([0.5 * v, 0.5 * v]) for k, v in pos.items()}))
    calls = {"samples_none_func": lambda: jft.reduced_residual_stats(jft.Samples(pos=pos, samples=None), half),
             "position_func": lambda: jft.reduced_residual_stats(pos, half),
             "minisanity_samples_none_func": lambda: jft.minisanity(jft.Samples(pos=pos, samples=None), half)[0]}
    for name, call in calls.items():
        st = call()
        mp[name] = {}
        for k in pos:
            a, b = st[k], ref_st[k]
            same = all(np.array_equal(np.asarray(getattr(a, f)), np.asarray(getattr(b, f)), equal_nan=True) for f in ("mean", "reduced_chisq", "ndof"))
            mp[name][k] = {"mean": complex(np.asarray(a.mean)[0]), "rcs": float(np.asarray(a.reduced_chisq)[0]),
                           "ndof": int(a.ndof), "rcs_std": float(np.asarray(a.reduced_chisq)[1]), "same_as_explicit_sample": bool(same)}
    mp_arrays = {k: [0.5 * v] for k, v in pos.items()}
    # INTEGER residual dtypes: an integer position, and a func returning integer arrays; real (not
    # complex) residuals whatever the dtype: ndof = size, same statistics as the same values as floats
    ints = {k: np.nan_to_num(np.clip(np.rint(np.real(v)), -6, 6), nan=1.0).astype(np.int64) for k, v in pos.items()}
    flt = {k: v.astype(np.float64) for k, v in ints.items()}
    to_int = lambda t: _jax.tree_util.tree_map(lambda a: a.astype(jnp.int64), t)       # noqa: E731
    ip = {}
    try:
        ref_i = jft.reduced_residual_stats(flt)
        icalls = {"int64_position": jft.reduced_residual_stats(ints),
                  "func_returning_int64": jft.reduced_residual_stats(flt, to_int),
                  "samples_func_int64": jft.reduced_residual_stats(jft.Samples(pos={k: np.zeros_like(v) for k, v in flt.items()},
                                                                               samples={k: np.stack([v, v]) for k, v in flt.items()}), to_int)}
        for name, st in icalls.items():
            ip[name] = {}
            for k in ints:
                a, b = st[k], ref_i[k]
                same = all(np.array_equal(np.asarray(getattr(a, f)), np.asarray(getattr(b, f)), equal_nan=True) for f in ("mean", "reduced_chisq", "ndof"))
                ip[name][k] = {"mean": complex(np.asarray(a.mean)[0]), "rcs": float(np.asarray(a.reduced_chisq)[0]),
                               "ndof": int(a.ndof), "same_as_float": bool(same)}
    except Exception as e:  # noqa
        ip = {"error": {k: {"error": "%s: %s" % (type(e).__name__, str(e)[:200])} for k in ints}}
    int_arrays = {k: [v] for k, v in flt.items()}
    return {"resid": resid, "classic": classic, "jax": jx, "map": mp, "map_arrays": mp_arrays, "int": ip, "int_arrays": int_arrays}


# --------------------------------------------------------------------------------------------------
# Coq terms
# --------------------------------------------------------------------------------------------------

def centry(x):
    if np.iscomplexobj(x):
        if np.isnan(x.real) or np.isnan(x.imag):
            return "ENan"
        return "ev %s %s" % (C.cq(float(x.real)), C.cq(float(x.imag)))
    if np.isnan(x):
        return "ENan"
    return "ev %s 0" % C.cq(float(x))


def csamples(arrs):
    return C.clist([C.clist([centry(x) for x in a]) for a in arrs])


def coptq(x):
    if x is None or (isinstance(x, float) and np.isnan(x)):
        return "None"
    return "(Some %s)" % C.cq(x)


def scale_of(arrs):
    m = 1.0
    for a in arrs:
        b = np.abs(a[~np.isnan(a)])
        if b.size:
            m = max(m, float(b.max()))
    return m


def classic_term(arrs, o, cplx):
    sc = scale_of(arrs)
    tol = Fraction(1, 10 ** 12) * Fraction(sc) ** 4
    mean = complex(o["mean"])
    vals = [float(o["rcs"]), mean.real, mean.imag] + [float(np.real(x)) for x in (o["rcs_std"], o["mean_std"]) if x is not None]
    if not all(np.isfinite(v) for v in vals):
        return "false"          # the model never reports NaN/inf for the classic diagnostics
    var = None if o["rcs_std"] is None else Fraction(float(o["rcs_std"])) ** 2
    if cplx:
        mvar = "None"
    else:
        mvar = "(Some %s)" % ("None" if o["mean_std"] is None else "(Some %s)" % C.cq(Fraction(float(np.real(o["mean_std"]))) ** 2))
    return "classic_ok %s %s %s %s %s %s %s %s %s" % (
        C.cq(tol), csamples(arrs), C.cq(float(o["rcs"])), "None" if var is None else "(Some %s)" % C.cq(var),
        C.cq(mean.real), C.cq(mean.imag), mvar, C.cz(o["ndof"]), C.cz(o["nig"]))


def jax_term(arrs, o, cplx):
    sc = scale_of(arrs)
    tol = Fraction(1, 10 ** 12) * Fraction(sc) ** 4
    if "error" in o:
        return "false"
    m = o["mean"]
    if np.isinf(m.real) or np.isinf(m.imag) or np.isinf(o["rcs"]):
        return "false"
    nan = np.isnan(m.real) or np.isnan(m.imag)
    return "jax_ok %s %s %s %s %s %s %s" % (
        C.cq(tol), C.cbool(cplx), csamples(arrs), "None" if nan else coptq(m.real), "None" if nan else coptq(m.imag),
        coptq(o["rcs"]), C.cz(o["ndof"]))


def jax_std_term(arrs, o, cplx):
    """reduced_chisq[1] (jnp.std over the samples) squared vs the model's population variance."""
    sc = scale_of(arrs)
    tol = Fraction(1, 10 ** 12) * Fraction(sc) ** 4
    if "error" in o or "rcs_std" not in o:
        return "false"
    sd = o["rcs_std"]
    if np.isinf(sd) or sd < 0:
        return "false"
    return "jax_var_ok %s %s %s %s" % (C.cq(tol), C.cbool(cplx), csamples(arrs),
                                       "None" if np.isnan(sd) else "(Some %s)" % C.cq(Fraction(float(sd)) ** 2))


# --------------------------------------------------------------------------------------------------
# the property, directly (NumPy reference from the property text)
# --------------------------------------------------------------------------------------------------

def reference(arrs):
    """(reduced chi^2, mean, per-sample ignored counts) or None when some sample keeps no entry."""
    rcs, mean, nig = [], [], []
    for a in arrs:
        ign = np.isnan(a) | (a == 0)
        kept = a[~ign]
        nig.append(int(ign.sum()))
        if kept.size == 0:
            return None
        rcs.append(float(np.mean(np.abs(kept) ** 2)))
        mean.append(complex(np.mean(kept)))
    return float(np.mean(rcs)), complex(np.mean(mean)), nig


def classify(arrs, cplx):
    has_ign = any(bool((np.isnan(a) | (a == 0)).any()) for a in arrs)
    if has_ign:
        return "ignored-entries"
    return "complex" if cplx else "clean"


def direct_failures(c, o):
    out = []
    for sec in o["resid"]:
        for k, arrs in o["resid"][sec].items():
            ref = reference(arrs)
            if ref is None:
                continue
            rcs, mean, nig = ref
            sc = scale_of(arrs)
            tol = 1e-10 * sc ** 2
            size = arrs[0].size
            cl = o["classic"][sec][k]
            cls = classify(arrs, c["cplx"])
            if cl.get("missing") or o["classic"][sec].get("__extra_keys__"):
                out.append(({"api": "classic", "class": "keys"}, "classic minisanity %s: returned keys %r do not match the keys of the domain %r (long keys must not be renamed or merged in the returned values)" % (
                    sec, cl.get("returned_keys", o["classic"][sec].get("__extra_keys__")), sorted(o["resid"][sec].keys()))))
                continue
            if abs(cl["rcs"] - rcs) > tol or abs(complex(cl["mean"]) - mean) > tol:
                out.append(({"api": "classic", "class": cls}, "classic minisanity %s/%s reports chi2=%r mean=%r, reference %r %r" % (sec, k, cl["rcs"], cl["mean"], rcs, mean)))
            if cl["ndof"] + cl["nig"] != size or cl["nig"] not in nig:
                out.append(({"api": "classic", "class": cls}, "classic minisanity %s/%s counts ndof=%d nigndof=%d, size %d, ignored %r" % (sec, k, cl["ndof"], cl["nig"], size, nig)))
            jx = o["jax"][sec][k]
            if "error" in jx:
                out.append(({"api": "jax", "class": "exception"}, "JAX reduced_residual_stats/minisanity %s raised %s" % (sec, jx["error"])))
                continue
            if not jx["one_sample_same"]:
                out.append(({"api": "jax", "class": "one-sample"}, "JAX reduced_residual_stats %s/%s: a Samples object with exactly ONE sample does not give the statistics of that sample (it must not be treated like a sample-less MAP state)" % (sec, k)))
                continue
            bad_rcs = not (abs(jx["rcs"] - rcs) <= tol)              # NaN-safe
            bad_mean = not (abs(jx["mean"] - mean) <= tol)
            bad = bad_rcs or bad_mean
            nocount = max(nig) > 0 and not any("ign" in f for f in jx["fields"])
            quantity = "+".join(q for q, b in (("chi2", bad_rcs), ("mean", bad_mean), ("counts", nocount)) if b)
            if bad or nocount or not jx["wrapper_same"]:
                what = "JAX reduced_residual_stats %s/%s reports chi2=%r mean=%r ndof=%d%s; reference (and classic) chi2=%r mean=%r with %r ignored entries" % (
                    sec, k, jx["rcs"], jx["mean"], jx["ndof"], "" if not nocount else ", no ignored-entry count", rcs, mean, nig)
                if not jx["wrapper_same"]:
                    what = "jft.minisanity(func=identity) differs from reduced_residual_stats; " + what
                    cls = "wrapper"
                out.append(({"api": "jax", "class": cls, "quantity": quantity}, what))
    for name, per in o.get("map", {}).items():
        for k, v in per.items():
            if not v["same_as_explicit_sample"]:
                out.append(({"api": "jax", "class": "map-state"}, "JAX diagnostics, %s, key %s: chi2=%r mean=%r differ from the statistics of func(position) passed as one explicit sample" % (name, k, v["rcs"], v["mean"])))
                break
    for name, per in o.get("int", {}).items():
        for k, v in per.items():
            if "error" in v:
                out.append(({"api": "jax", "class": "exception"}, "JAX diagnostics on integer residuals raised %s" % v["error"]))
                break
            if not v["same_as_float"]:
                out.append(({"api": "jax", "class": "integer-dtype"}, "JAX diagnostics, %s, key %s: chi2=%r mean=%r ndof=%d differ from the statistics of the same values given as floats (integer residuals are real: ndof = size)" % (name, k, v["rcs"], v["mean"], v["ndof"])))
                break
    return out


CORPUS_BUILTIN = [   # the witnesses of C36_agreement_refuted, replayed on the implementations
    {"kind": "identity", "cplx": False, "keys": {"<None>": 2}, "samples": [{"<None>": [1.0, 0.0]}]},
    {"kind": "identity", "cplx": False, "keys": {"<None>": 2}, "samples": [{"<None>": [1.0, None]}]},
    {"kind": "identity", "cplx": True, "keys": {"<None>": 1}, "samples": [{"<None>": [[1.0, 1.0]]}]},
    # complex entries that are NaN in ONE component only, single sample
    {"kind": "identity", "cplx": True, "keys": {"<None>": 4}, "samples": [{"<None>": [[None, 2.0], [3.0, None], [1.0, 1.0], [0.0, 0.0]]}]},
    {"kind": "identity", "cplx": False, "keys": {"a": 3, "bb": 2}, "samples": [{"a": [1.0, -2.0, 4.0], "bb": [0.5, 3.0]}]},
    # tiny but non-zero residuals next to an exact zero and a NaN: only the zero and the NaN are ignored
    {"kind": "identity", "cplx": False, "keys": {"<None>": 6}, "samples": [{"<None>": [1e-8, 0.0, None, 1e-300, -3e-9, 2.0]},
                                                                        {"<None>": [5e-324, 0.0, None, 1e-12, 1.0, -1e-30]}]},
]


class C36(C.Check):
    prop = "C36"
    coq_dir = "C36"
    trusted_base = [
        "Coq 8.16.1 kernel (coqc, vm_compute for the correspondence evaluation); theorems closed under the global context",
        "hand-written model coq/C36/Model.v of the per-key arithmetic of classic minisanity and of JAX _residual_params / reduced_residual_stats (tied by correspondence, not by translation)",
        "StatCalculator: the translated text of C26 (coq/C26/Gen_helpers.v, regenerated on every run) and theorem C26 welford",
        "NumPy/JAX reductions (nansum, sum, vdot, mean) compute the exact sums up to rounding: compared with the exact rational model at 1e-12*scale^4",
        "the residual arrays fed to both models are the outputs of the implementation's own normalized_residual (the sign/normalisation conventions of the likelihoods belong to C11/C12)",
    ]
    assumptions = [
        "no infinities in the residuals (entries are rationals or NaN)",
        "the arrays of one key have the same size in every sample",
        "the mean of the complex StatCalculator accumulator is modelled componentwise (its update is linear with a real factor); complex standard deviations and jnp.std are outside the property and not modelled",
    ]

    def __init__(self):
        self.obs = []

    def translate(self, ctx):
        from tr import c26_gen
        C.write_if_changed(os.path.join(C.COQ, "C26", "Gen_helpers.v"), c26_gen.generate(ctx.repo))

    def correspondence(self, ctx, res):
        rng = ctx.rng(36)
        cases = [c["case"] for c in ctx.corpus() if "case" in c] + list(CORPUS_BUILTIN)
        n = 32 if ctx.quick else 400
        for i in range(n):
            cases.append(gen_case(rng, i))
        checks, where = [], []
        self.obs = []
        self.skipped = 0
        for ci, c in enumerate(cases):
            o = run_case(c)
            self.obs.append((c, o))
            for sec in o["resid"]:
                for k, arrs in o["resid"][sec].items():
                    if reference(arrs) is None:
                        # some sample keeps no entry: the property is silent about the value then
                        # (classic reports 0, proved as coded in C36_classic_sample); not compared
                        self.skipped += 1
                        continue
                    cl = o["classic"][sec][k]
                    checks.append("false" if cl.get("missing") or o["classic"][sec].get("__extra_keys__") else classic_term(arrs, cl, c["cplx"]))
                    where.append((ci, sec, k, "classic"))
                    checks.append(jax_term(arrs, o["jax"][sec][k], c["cplx"]))
                    where.append((ci, sec, k, "jax"))
                    # spread over the samples: reduced_chisq[1]**2 = population variance (model jax_rcs_var)
                    checks.append(jax_std_term(arrs, o["jax"][sec][k], c["cplx"]))
                    where.append((ci, sec, k, "jax"))
        for ci, (c, o) in enumerate(self.obs):
            for name in o["map"]:
                for k, arrs in o["map_arrays"].items():
                    checks.append(jax_term(arrs, o["map"][name][k], c["cplx"]))
                    where.append((ci, "map:" + name, k, "jax"))
                    # single sample: the spread is exactly 0 / NaN (C36_jax_std_one_sample)
                    checks.append(jax_std_term(arrs, o["map"][name][k], c["cplx"]))
                    where.append((ci, "map:" + name, k, "jax"))
        for ci, (c, o) in enumerate(self.obs):
            for name in o["int"]:
                for k, arrs in o["int_arrays"].items():
                    checks.append(jax_term(arrs, o["int"][name][k], False))
                    where.append((ci, "int:" + name, k, "jax"))
        bad = C.eval_cases(self.prop, "corr_p%d" % os.getpid(), HEADER, checks)
        for i in bad[:4]:
            ci, sec, k, api = where[i]
            ob = self.obs[ci][1]
            seen_ = ob["map"][sec[4:]][k] if sec.startswith("map:") else (ob["int"][sec[4:]][k] if sec.startswith("int:") else ob[api][sec][k])
            res.add_broken("correspondence", "%s diagnostics vs coq/C36/Model.v" % api,
                           {"case": cases[ci], "section": sec, "key": k, "check": checks[i][:1500],
                            "observed": {a: str(b) for a, b in seen_.items()}})
        classes = {}
        for c, o in self.obs:
            for sec in o["resid"]:
                for k, arrs in o["resid"][sec].items():
                    cl = classify(arrs, c["cplx"]) + ("/complex" if c["cplx"] else "/real")
                    classes[cl] = classes.get(cl, 0) + 1
        distinct = len({json.dumps(c, sort_keys=True) for c, o in self.obs
                        if any(classify(a, c["cplx"]) != "clean" for sec in o["resid"] for a in o["resid"][sec].values())})
        res.coverage.update({
            "evaluations": len(checks), "distinct_nontrivial": distinct,
            "rule": "case = likelihood kind (identity / masked Gaussian with NaN in data and covariance), real/complex, 1-2 keys of size 1-6, 1-4 samples, planted exact zeros and NaNs; one check per (section, key, API); non-trivial = some array has an ignored entry or is complex; distinct by full case content",
            "samples": [self.obs[k][0] for k in range(3, min(5, len(self.obs)))],
            "input_distribution": {"cases": len(cases), "arrays_by_class": classes,
                                   "kinds": {kd: sum(1 for c, _ in self.obs if c["kind"] == kd) for kd in ("identity", "masked")}},
            "disagreements": len(bad), "exhaustive": False, "arrays_skipped_all_ignored": self.skipped,
        })
        return bad

    def oracle(self, ctx, res, hints, budget):
        n = 0
        seen = set()
        for c, o in self.obs:
            n += 1
            for sig, what in direct_failures(c, o):
                key = json.dumps(sig, sort_keys=True)
                if key in seen:
                    continue
                seen.add(key)
                res.add_failing(sig, what, {"case": c})
        if budget > 1:
            rng = ctx.rng(3636)
            for i in range(150):
                c = gen_case(rng, i)
                o = run_case(c)
                n += 1
                for sig, what in direct_failures(c, o):
                    key = json.dumps(sig, sort_keys=True)
                    if key not in seen:
                        seen.add(key)
                        res.add_failing(sig, what, {"case": c})
        res.coverage["impl_property_evaluations"] = n

    def replay(self, ctx, rp):
        c = rp["input"]["case"]
        fs = direct_failures(c, run_case(c))
        sig = rp.get("signature")
        return any(s == sig for s, _ in fs) if sig else bool(fs)


CHECK = C36()
