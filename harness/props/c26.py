"""C26 -- Sample lists persist faithfully and report exact statistics.

Tie: translator (tr/c26_gen.py -> coq/C26/Gen_helpers.v: shareRange, _consecutive_length,
_sample_file_name, mean file name, listing pattern, index lambda, StatCalculator) + hand model
coq/C26/Model.v (directory, save/load control flow, sample_stat/average) + correspondence:
generated save/overwrite/load histories run with 1-5 fake tasks (thread communicator) on a real
directory; after every step the directory content and the per-task results are compared with the
model applied to the directory observed before the step (inside coqc, vm_compute).  Streaming
statistics and averages are compared bit for bit with the PrimFloat instance of the model.
Direct oracle (independent of Coq): loaded samples == saved samples for every task count, no stale
sample ever appears, sample_stat / HDF5 contents == NumPy mean / unbiased variance."""
import json
import os
import pickle
import shutil
import warnings

import numpy as np

from .. import common as C
from .. import fakecomm

HEADER = ("From Coq Require Import String List ZArith Bool Ascii PrimFloat.\nImport ListNotations.\n"
          "Require Import NV.C26.Prelude NV.C26.Gen_helpers NV.C26.Model.\nOpen Scope Z_scope.\n")

BASES = ["sl", "samples_3", "a.b", "x-1", "last"]


# --------------------------------------------------------------------------------------------------
# running the implementation
# --------------------------------------------------------------------------------------------------

def _doms(multi):
    import nifty.cl as ift
    d = ift.RGSpace(2)
    if not multi:
        return ift.makeDomain(d)
    return ift.makeDomain({"a": d, "b": ift.UnstructuredDomain(1)})


def mk_field(k, multi):
    """Sample number k: small integer entries (exact in float64)."""
    import nifty.cl as ift
    dom = _doms(multi)
    if not multi:
        return ift.Field.from_raw(dom, np.array([k, 2 * k + 1], dtype=np.float64))
    return ift.MultiField.from_dict({"a": ift.Field.from_raw(dom["a"], np.array([k, 2 * k + 1], dtype=np.float64)),
                                     "b": ift.Field.from_raw(dom["b"], np.array([3 * k], dtype=np.float64))})


def vals_of(f):
    """Integer entries of a Field / MultiField (keys in sorted order)."""
    import nifty.cl as ift
    if isinstance(f, ift.MultiField):
        out = []
        for k in sorted(f.keys()):
            out += [int(x) for x in np.asarray(f[k].asnumpy()).ravel()]
        return out
    return [int(x) for x in np.asarray(f.asnumpy()).ravel()]


def expected_vals(k, multi):
    return [k, 2 * k + 1, 3 * k] if multi else [k, 2 * k + 1]


def snapshot(d, base):
    """Directory content as sorted [name, kind, vals, neg]."""
    out = []
    for fn in sorted(os.listdir(d)):
        with open(os.path.join(d, fn), "rb") as f:
            obj = pickle.load(f)
        if isinstance(obj, list):
            out.append([fn, "resid", vals_of(obj[0]), bool(obj[1])])
        elif fn == base + ".mean.pickle":
            out.append([fn, "mean", vals_of(obj), False])
        else:
            out.append([fn, "plain", vals_of(obj), False])
    return out


def exc_class(e):
    if isinstance(e, fakecomm.Deadlock):
        return "Deadlock"
    if type(e) is RuntimeError:
        return "RuntimeError"
    if type(e) is ValueError:
        return "ValueError"
    return "OtherError:" + type(e).__name__


def run_tasks(n, fn, timeout=90.0):
    """fn(comm) on n fake tasks; exceptions are returned, never raised (so that a raising task
    does not break the barrier the others are still leaving)."""
    def wrapped(comm, r):
        try:
            return ["ok", fn(None if n == 1 else comm)]
        except BaseException as e:  # noqa
            return ["exc", exc_class(e)]
    if n == 1:
        return [wrapped(None, 0)]
    res, err, _ = fakecomm.run_threads(n, wrapped, timeout=timeout)
    return [r if e is None else ["exc", "Deadlock"] for r, e in zip(res, err)]


def do_save(path, kind, multi, parts, mean_id, overwrite):
    import nifty.cl as ift
    dom = _doms(multi)

    def fn_factory(r):
        def fn(comm):
            rank = 0 if comm is None else comm.Get_rank()
            mine = parts[rank]
            if kind == "plain":
                sl = ift.SampleList([mk_field(k, multi) for k in mine], comm=comm, domain=dom)
            else:
                sl = ift.ResidualSampleList(mk_field(mean_id, multi), [mk_field(k, multi) for k, _ in mine],
                                            [bool(ng) for _, ng in mine], comm=comm)
            sl.save(path, overwrite=overwrite)
            return None
        return fn
    return run_tasks(len(parts), fn_factory(0))


def do_load(path, kind, ntask):
    import nifty.cl as ift

    def fn(comm):
        cls = ift.SampleList if kind == "plain" else ift.ResidualSampleList
        sl = cls.load(path, comm=comm)
        glob = [vals_of(s) for s in sl.iterator()]
        if kind == "plain":
            loc = [vals_of(s) for s in sl._s]
            return {"local": loc, "global": glob, "n": int(sl.n_samples)}
        loc = [[vals_of(r), bool(n)] for r, n in zip(sl._r, sl._n)]
        return {"local": loc, "mean": vals_of(sl._m), "global": glob, "n": int(sl.n_samples)}
    return run_tasks(ntask, fn)


def do_load_mean(path):
    """ResidualSampleList.load_mean (a classmethod without communicator) on the current directory."""
    import nifty.cl as ift
    try:
        obj = ift.ResidualSampleList.load_mean(path)
    except BaseException as e:  # noqa
        return ["exc", exc_class(e)]
    try:
        if isinstance(obj, list):
            return ["ok", ["resid", vals_of(obj[0]), bool(obj[1])]]
        return ["ok", ["mean", vals_of(obj), False]]
    except BaseException:  # noqa   (not a pickled field: the model never returns such an object)
        return ["ok", ["bad", repr(obj)[:80], False]]


def run_history(h, workdir):
    """Execute a history on a fresh directory; returns the list of step observations."""
    shutil.rmtree(workdir, ignore_errors=True)
    os.makedirs(workdir)
    base, kind, multi = h["base"], h["kind"], h["multi"]
    path = os.path.join(workdir, base)
    for name, skind, k in h["stale"]:
        obj = mk_field(k, multi) if skind in ("plain", "mean") else [mk_field(k, multi), bool(k % 2)]
        with open(os.path.join(workdir, name), "wb") as f:
            pickle.dump(obj, f)
    steps = []
    with warnings.catch_warnings():
        warnings.simplefilter("ignore")
        for op in h["ops"]:
            before = snapshot(workdir, base)
            if op[0] == "save":
                res = do_save(path, kind, multi, op[1], op[2], op[3])
            else:
                res = do_load(path, kind, op[1])
            steps.append({"op": op, "before": before, "after": snapshot(workdir, base), "res": res,
                          "lm": do_load_mean(path)})
            if any(r[0] == "exc" and r[1] == "Deadlock" for r in res):
                break           # a task blocked: the rest of the history is meaningless (and slow)
    shutil.rmtree(workdir, ignore_errors=True)
    return steps


# --------------------------------------------------------------------------------------------------
# the property, directly on the implementation
# --------------------------------------------------------------------------------------------------

def direct_failures(h, steps):
    """Save followed by loads: every task sees exactly the saved global list (and the mean)."""
    multi, kind = h["multi"], h["kind"]
    out = []
    if h.get("foreign"):
        # the directory holds a file that NIFTy never writes but the (weak) listing pattern accepts;
        # the property speaks about sample files only -- such histories serve the correspondence
        return out
    last = None        # expected global list after the last successful save
    for i, s in enumerate(steps):
        op, res = s["op"], s["res"]
        if any(r[0] == "exc" and r[1] == "Deadlock" for r in res):
            out.append("step %d (%s): a task blocked" % (i, op[0]))
            last = None
            continue
        if op[0] == "save":
            flat = [x for p in op[1] for x in p]
            oks = [r[0] == "ok" for r in res]
            if all(oks):
                if kind == "plain":
                    last = {"global": [expected_vals(k, multi) for k in flat], "n": len(flat)}
                else:
                    m = expected_vals(op[2], multi)
                    last = {"global": [[a - b if ng else a + b for a, b in zip(m, expected_vals(k, multi))] for k, ng in flat],
                            "n": len(flat), "mean": m,
                            "local": [[expected_vals(k, multi), bool(ng)] for k, ng in flat]}
                    if "lm" in s and s["lm"] != ["ok", ["mean", m, False]]:
                        out.append("step %d: load_mean after a successful ResidualSampleList.save gives %r, saved mean %r" % (i, s["lm"], m))
            else:
                if any(oks):
                    out.append("step %d: save succeeded on some tasks and raised on others" % i)
                elif op[3]:
                    out.append("step %d: save with overwrite=True raised %s" % (i, res[0][1]))
                last = None     # a failed save may leave a partially written list
        else:
            if last is None or last["n"] == 0:
                continue
            for r, rr in enumerate(res):
                if rr[0] != "ok":
                    out.append("step %d: load with %d tasks raised %s on task %d after a successful save" % (i, op[1], rr[1], r))
                    break
                if rr[1]["n"] != last["n"] or rr[1]["global"] != last["global"]:
                    out.append("step %d: load with %d tasks returns %r on task %d, saved %r" % (i, op[1], rr[1]["global"], r, last["global"]))
                    break
                if kind == "resid" and rr[1]["mean"] != last["mean"]:
                    out.append("step %d: loaded mean differs" % i)
                    break
            else:
                loc = [x for rr in res for x in rr[1]["local"]]
                want = last["local"] if kind == "resid" else last["global"]
                if loc != want:
                    out.append("step %d: concatenated local samples of %d tasks differ from the saved list" % (i, op[1]))
    return out


def loadable(snap, base):
    """What a load would return from a directory snapshot: the contents of base.0.pickle,
    base.1.pickle, ... up to the first missing index."""
    by = {e[0]: e[1:] for e in snap}
    out, i = [], 0
    while "%s.%d.pickle" % (base, i) in by:
        out.append(by["%s.%d.pickle" % (base, i)])
        i += 1
    return out


def failed_save_findings(h, steps):
    """A save(overwrite=False) that RAISED (a target existed) but changed what a later load returns:
    it had already written other targets (known finding C26-F1; the save is documented as not atomic)."""
    out = []
    for i, s in enumerate(steps):
        op, res = s["op"], s["res"]
        if op[0] != "save" or op[3] or any(r[0] == "ok" for r in res) or any(r[1] == "Deadlock" for r in res):
            continue
        b, a = loadable(s["before"], h["base"]), loadable(s["after"], h["base"])
        if a != b:
            out.append("step %d: save(overwrite=False) of %d samples on %d task(s) raised %s, yet a load now returns %d samples (before: %d): files of the failed save mixed with the existing ones" % (
                i, sum(len(p) for p in op[1]), len(op[1]), res[0][1], len(a), len(b)))
    return out


BUILTIN_HISTORIES = [    # C26-F1: a longer list saved with overwrite=False on 2 tasks over an existing shorter one
    {"base": "sl", "kind": "plain", "multi": False, "stale": [], "foreign": False, "seed": -1,
     "ops": [["save", [[1, 2]], 90, True], ["save", [[10, 11], [12, 13]], 91, False], ["load", 1]]},
]


# --------------------------------------------------------------------------------------------------
# generators
# --------------------------------------------------------------------------------------------------

def split_random(rng, items, ntask):
    cuts = np.sort(rng.integers(0, len(items) + 1, size=ntask - 1))
    idx = [0] + [int(c) for c in cuts] + [len(items)]
    return [items[idx[i]:idx[i + 1]] for i in range(ntask)]


def gen_history(rng, seed, nops):
    kind = "plain" if rng.random() < 0.5 else "resid"
    multi = bool(rng.random() < 0.4)
    base = BASES[int(rng.integers(0, len(BASES)))]
    counter = [100]

    def fresh():
        counter[0] += 1
        return counter[0]
    stale = []
    foreign = False
    r = rng.random()
    if r < 0.5:         # files of an earlier, longer list and of unrelated bases
        for i in sorted(set(int(x) for x in rng.integers(0, 9, size=int(rng.integers(1, 6))))):
            stale.append(["%s.%d.pickle" % (base, i), kind, fresh()])
        if rng.random() < 0.5:
            stale.append(["%s.mean.pickle" % base, "mean", fresh()])
        if rng.random() < 0.5:
            stale.append(["%sx.0.pickle" % base, kind, fresh()])
        if rng.random() < 0.3:
            stale.append(["other.pickle", "plain", fresh()])
    elif r < 0.6:       # names outside NIFTy's own (pattern weaker than intended): error paths
        foreign = True
        stale.append([["%s.7.pickle.bak", "%s.007.pickle", "%sy3zpickle"][int(rng.integers(0, 3))] % base, kind, fresh()])
        if rng.random() < 0.5:
            stale.append(["%s.0.pickle" % base, kind, fresh()])
    ops = []
    first_load = rng.random() < 0.2      # loading from a directory NIFTy has not written yet
    for j in range(nops):
        if (j % 2 == 0 or rng.random() < 0.2) and not (j == 0 and first_load):
            u = rng.random()
            n = int(rng.integers(1, 7)) if u < 0.85 else (0 if u < 0.92 else int(rng.integers(10, 13)))
            nt = int(rng.integers(1, 5))
            if kind == "plain":
                items = [fresh() for _ in range(n)]
            else:
                items = [[fresh(), bool(rng.random() < 0.5)] for _ in range(n)]
            ov = bool(rng.random() < 0.8)
            ops.append(["save", split_random(rng, items, nt), fresh(), ov])
        else:
            ops.append(["load", int(rng.integers(1, 6))])
    return {"base": base, "kind": kind, "multi": multi, "stale": stale, "ops": ops, "seed": int(seed), "foreign": foreign}


# --------------------------------------------------------------------------------------------------
# Coq terms
# --------------------------------------------------------------------------------------------------

def cval(v):
    return C.clist([C.cz(x) for x in v])


def cname(s):
    assert all(32 <= ord(c) < 127 and c != '"' for c in s)
    return '(str "%s")' % s


def cdir(snap):
    ents = []
    for name, kind, vals, neg in snap:
        c = {"plain": "Plain %s" % cval(vals), "mean": "MeanC %s" % cval(vals),
             "resid": "Resid %s %s" % (cval(vals), C.cbool(neg))}[kind]
        ents.append("(%s, %s)" % (cname(name), c))
    return "(%s : dir val)" % C.clist(ents)


def cres(r, payload):
    if r[0] == "ok":
        return "(Ret %s)" % payload(r[1])
    cls = r[1] if r[1] in ("RuntimeError", "ValueError") else "OtherError"
    return "(Raise %s)" % cls


def load_mean_check(h, s):
    """model load_mean on the directory observed after the step vs. ResidualSampleList.load_mean"""
    def payload(p):
        return "(Resid %s %s)" % (cval(p[1]), C.cbool(p[2])) if p[0] == "resid" else "(MeanC %s)" % cval(p[1])
    if s["lm"][0] == "ok" and s["lm"][1][0] == "bad":
        return "false"
    return "load_mean_ok %s %s %s" % (cdir(s["after"]), cname(h["base"]), cres(s["lm"], payload))


def step_check(h, s):
    base, kind, multi = h["base"], h["kind"], h["multi"]
    op, res = s["op"], s["res"]
    if any(r[0] == "exc" and r[1] == "Deadlock" for r in res):
        return "false"
    if op[0] == "save":
        if len({json.dumps(r) for r in res}) != 1:
            return "false"      # the model reports the same outcome on every task
        r = cres(res[0], lambda _: "tt")
        if kind == "plain":
            parts = C.clist([C.clist([cval(expected_vals(k, multi)) for k in p]) for p in op[1]])
            return "save_ok (save_plain val %s %s %s %s) %s %s" % (cdir(s["before"]), cname(base), parts, C.cbool(op[3]), cdir(s["after"]), r)
        parts = C.clist([C.clist(["(%s, %s)" % (cval(expected_vals(k, multi)), C.cbool(ng)) for k, ng in p]) for p in op[1]])
        return "save_ok (save_resid val %s %s %s %s %s) %s %s" % (cdir(s["before"]), cname(base), cval(expected_vals(op[2], multi)), parts, C.cbool(op[3]), cdir(s["after"]), r)
    nt = op[1]
    if s["before"] != s["after"]:
        return "false"          # a load never changes the directory
    if kind == "plain":
        obs = C.clist([cres(r, lambda p: C.clist([cval(v) for v in p["local"]])) for r in res])
        return "load_plain_ok %s %s %s %s" % (cdir(s["before"]), cname(base), C.cz(nt), obs)
    obs = C.clist([cres(r, lambda p: "(%s, %s)" % (cval(p["mean"]), C.clist(["(%s, %s)" % (cval(v), C.cbool(n)) for v, n in p["local"]]))) for r in res])
    return "load_resid_ok %s %s %s %s" % (cdir(s["before"]), cname(base), C.cz(nt), obs)


# --------------------------------------------------------------------------------------------------
# statistics
# --------------------------------------------------------------------------------------------------

def stat_case(rng, n, ntask, ints):
    """sample_stat / average of n three-pixel samples distributed over ntask fake tasks."""
    import nifty.cl as ift
    dom = ift.RGSpace(3)
    if ints:
        data = rng.integers(-50, 50, size=(n, 3)).astype(np.float64)
    else:
        data = rng.normal(size=(n, 3)) * 10.0 ** rng.integers(-3, 4, size=(1, 3))
    parts = split_random(rng, list(range(n)), ntask)

    def fn(comm):
        rank = 0 if comm is None else comm.Get_rank()
        sl = ift.SampleList([ift.Field.from_raw(dom, data[i]) for i in parts[rank]], comm=comm, domain=dom)
        m, v = sl.sample_stat()
        a = sl.average()
        return [m.asnumpy().tolist(), v.asnumpy().tolist(), a.asnumpy().tolist()]
    res = run_tasks(ntask, fn)
    return {"data": data.tolist(), "parts": parts, "res": res}


OPS = ["none", "half", "square", "exp"]      # identity, linear, and two non-linear operators
OPS_MULTI = ["sub_square", "half", "sub_half", "exp"]    # MultiField samples: also operators on a sub-domain
FLAGS = [(sa, me, sd) for sa in (False, True) for me in (False, True) for sd in (False, True) if (sa or me or sd)]


def make_op(name, dom):
    import nifty.cl as ift
    if name == "none":
        return None
    if name == "half":
        return ift.ScalingOperator(dom, 0.5)
    if name == "square":
        return ift.ScalingOperator(dom, 1.) ** 2
    if name == "exp":
        return ift.ScalingOperator(dom, 0.125).exp()
    if name in ("sub_half", "sub_square"):
        # an Operator defined on a strict SUB-domain of the samples' MultiDomain (applied with `force`)
        sub = ift.makeDomain({"a": dom["a"]})
        return ift.ScalingOperator(sub, 0.5) if name == "sub_half" else ift.ScalingOperator(sub, 1.) ** 2
    raise ValueError(name)


def np_op(name, x):
    x = np.asarray(x, dtype=np.float64)
    if name.startswith("sub_"):         # key "a" = the first two entries of a MultiField sample
        return np_op(name[4:], x[:2])
    return {"none": lambda v: v, "half": lambda v: 0.5 * v, "square": lambda v: v ** 2,
            "exp": lambda v: np.exp(0.125 * v)}[name](x)


def hdf5_case(rng, workdir, n, ntask, multi, opname, kind="plain"):
    """save_to_hdf5 for EVERY combination of the samples/mean/std flags, sample_stat(op) and
    average(op), for one operator (identity, linear or non-linear), plain or residual list."""
    import h5py
    import nifty.cl as ift
    os.makedirs(workdir, exist_ok=True)
    ids = [int(x) for x in rng.integers(-6, 7, size=n)]
    negs = [bool(x) for x in rng.integers(0, 2, size=n)]
    mean_id = int(rng.integers(-3, 4))
    parts = split_random(rng, list(range(n)), ntask)
    dom = _doms(multi)
    op = make_op(opname, dom)
    files = {fl: os.path.join(workdir, "stats_%d%d%d.h5" % tuple(int(x) for x in fl)) for fl in FLAGS}
    for f in files.values():
        if os.path.exists(f):
            os.remove(f)

    def flat(f):
        if isinstance(f, ift.MultiField):
            return [float(x) for k in sorted(f.keys()) for x in np.asarray(f[k].asnumpy()).ravel()]
        return [float(x) for x in np.asarray(f.asnumpy()).ravel()]

    def fn(comm):
        rank = 0 if comm is None else comm.Get_rank()
        mine = parts[rank]
        if kind == "plain":
            sl = ift.SampleList([mk_field(ids[i], multi) for i in mine], comm=comm, domain=dom)
        else:
            sl = ift.ResidualSampleList(mk_field(mean_id, multi), [mk_field(ids[i], multi) for i in mine],
                                        [negs[i] for i in mine], comm=comm)
        for fl in FLAGS:
            sl.save_to_hdf5(files[fl], op=op, samples=fl[0], mean=fl[1], std=fl[2], overwrite=True)
        m, v = sl.sample_stat(op)
        a = sl.average(op)
        return [flat(m), flat(v), flat(a)]

    def h5flat(g):
        if isinstance(g, h5py.Dataset):
            return [float(x) for x in np.asarray(g[()]).ravel()]
        return [x for k in sorted(g.keys()) for x in h5flat(g[k])]
    with warnings.catch_warnings():
        warnings.simplefilter("ignore")
        res = run_tasks(ntask, fn)
    # the inputs of the operator, written down independently of NIFTy
    if kind == "plain":
        xin = [expected_vals(k, multi) for k in ids]
    else:
        m0 = expected_vals(mean_id, multi)
        xin = [[a - b if ng else a + b for a, b in zip(m0, expected_vals(k, multi))] for k, ng in zip(ids, negs)]
    out = {"ids": ids, "negs": negs, "mean_id": mean_id, "parts": parts, "multi": multi, "op": opname, "kind": kind,
           "xin": xin, "res": res, "files": None}
    if all(r[0] == "ok" for r in res):
        out["files"] = {}
        for fl, fname in files.items():
            with h5py.File(fname, "r") as f:
                c = {"groups": sorted(f.keys())}
                if "samples" in f:
                    c["samples"] = [h5flat(f["samples"][str(i)]) for i in range(len(f["samples"].keys()))]
                if "stats" in f:
                    c["stats_keys"] = sorted(f["stats"].keys())
                    if "mean" in f["stats"]:
                        c["mean"] = h5flat(f["stats"]["mean"])
                    if "standard deviation" in f["stats"]:
                        c["std"] = h5flat(f["stats"]["standard deviation"])
                out["files"]["%d%d%d" % tuple(int(x) for x in fl)] = c
    shutil.rmtree(workdir, ignore_errors=True)
    return out


def hdf5_failure(o):
    """File contents and in-memory statistics against NumPy mean / unbiased variance of the
    individually evaluated operator outputs, for every flag combination."""
    n = len(o["ids"])
    tag = "%s list, op=%s, n=%d, %d task(s)" % (o["kind"], o["op"], n, len(o["parts"]))
    if any(r[0] != "ok" for r in o["res"]):
        return "%s: save_to_hdf5 / sample_stat / average raised: %r" % (tag, [r for r in o["res"] if r[0] != "ok"][:1])
    want = np.array([np_op(o["op"], x) for x in o["xin"]])
    wm = want.mean(axis=0)
    wv = want.var(axis=0, ddof=1) if n > 1 else np.zeros_like(wm)
    tol = 1e-11 * (1.0 + np.abs(want).max() ** 2)
    for r in o["res"]:
        m, v, a = (np.array(x) for x in r[1])
        if np.abs(m - wm).max() > tol or np.abs(v - wv).max() > tol:
            return "%s: sample_stat(op) %r is not (mean, unbiased variance) of the operator outputs %r" % (tag, [m.tolist(), v.tolist()], [wm.tolist(), wv.tolist()])
        if np.abs(a - wm).max() > tol:
            return "%s: average(op) %r is not the mean of the operator outputs %r" % (tag, a.tolist(), wm.tolist())
    for fl in FLAGS:
        key = "%d%d%d" % tuple(int(x) for x in fl)
        c = o["files"][key]
        what = "%s, samples=%s mean=%s std=%s" % ((tag,) + fl)
        exp_groups = (["samples"] if fl[0] else []) + (["stats"] if (fl[1] or fl[2]) else [])
        if c["groups"] != exp_groups:
            return "%s: HDF5 groups %r, expected %r" % (what, c["groups"], exp_groups)
        if fl[0]:
            if len(c["samples"]) != n or np.abs(np.array(c["samples"]) - want).max() > tol:
                return "%s: samples in the file differ from the operator outputs" % what
        if fl[1] or fl[2]:
            exp_keys = (["mean"] if fl[1] else []) + (["standard deviation"] if fl[2] else [])
            if c["stats_keys"] != exp_keys:
                return "%s: stats entries %r, expected %r" % (what, c["stats_keys"], exp_keys)
        if fl[1] and np.abs(np.array(c["mean"]) - wm).max() > tol:
            return "%s: stats/mean %r is not the arithmetic mean of the operator outputs %r" % (what, c["mean"], wm.tolist())
        if fl[2] and np.abs(np.array(c["std"]) - np.sqrt(wv)).max() > tol:
            return "%s: stats/standard deviation %r is not sqrt(unbiased variance) %r" % (what, c["std"], np.sqrt(wv).tolist())
    return None


def hdf5_args(rng, seed, i):
    """Every operator and both list kinds are visited in turn; sizes/tasks random."""
    return {"n": int(rng.integers(2, 6)) if i % 7 else 1, "ntask": int(rng.integers(1, 4)), "multi": bool((i // 4) % 2),
            "op": (OPS_MULTI if (i // 4) % 2 else OPS)[i % 4], "lkind": "plain" if (i // 2) % 2 == 0 else "resid", "seed": [int(seed), 2626, i]}


def run_hdf5(args, workdir):
    return hdf5_case(np.random.default_rng(args["seed"]), workdir, args["n"], args["ntask"], args["multi"], args["op"], args["lkind"])


def alias_case(rng, n, ntask, ints):
    """Values delivered through ONE reused mutable buffer: StatCalculator fed directly, and
    sample_stat(op) with a callable that writes its output into a reused array."""
    import nifty.cl as ift
    dom = ift.RGSpace(3)
    if ints:
        data = rng.integers(-50, 50, size=(n, 3)).astype(np.float64)
    else:
        data = rng.normal(size=(n, 3)) * 10.0 ** rng.integers(-3, 4, size=(1, 3))
    out = {"data": data.tolist(), "n": n}
    try:
        buf = np.zeros(3)
        sc = ift.StatCalculator()
        for x in data:
            buf[...] = x
            sc.add(buf)
        out["direct"] = ["ok", [np.array(sc.mean).tolist(), (np.array(sc.var).tolist() if n > 1 else [0.0] * 3)]]
    except BaseException as e:  # noqa
        out["direct"] = ["exc", exc_class(e)]
    parts = split_random(rng, list(range(n)), ntask)
    out["parts"] = parts

    def fn(comm):
        rank = 0 if comm is None else comm.Get_rank()
        sl = ift.SampleList([ift.Field.from_raw(dom, data[i].copy()) for i in parts[rank]], comm=comm, domain=dom)
        mybuf = np.zeros(3)

        def op(ss):
            mybuf[...] = 2.0 * ss.asnumpy()
            return mybuf
        m, v = sl.sample_stat(op)
        return [np.array(m).tolist(), np.array(v).tolist()]
    out["viaop"] = run_tasks(ntask, fn) if n > 1 else []
    return out


def alias_failure(o):
    d = np.array(o["data"])
    n = d.shape[0]
    tol = 1e-11 * (1.0 + np.abs(d).max() ** 2) * 4
    wm, wv = d.mean(axis=0), (d.var(axis=0, ddof=1) if n > 1 else np.zeros(3))
    if o["direct"][0] != "ok":
        return "StatCalculator fed through a reused buffer raised %s" % o["direct"][1]
    m, v = (np.array(x) for x in o["direct"][1])
    if np.abs(m - wm).max() > tol or np.abs(v - wv).max() > tol:
        return "StatCalculator fed through a reused buffer: mean/var %r differ from the statistics of the values added %r" % ([m.tolist(), v.tolist()], [wm.tolist(), wv.tolist()])
    for r in o["viaop"]:
        if r[0] != "ok":
            return "sample_stat(op writing into a reused buffer) raised %s" % r[1]
        m, v = (np.array(x) for x in r[1])
        if np.abs(m - 2 * wm).max() > tol or np.abs(v - 4 * wv).max() > tol:
            return "sample_stat(op writing into a reused buffer): %r differ from the statistics of the operator outputs %r" % ([m.tolist(), v.tolist()], [(2 * wm).tolist(), (4 * wv).tolist()])
    return None


def stat_failure(o):
    if any(r[0] != "ok" for r in o["res"]):
        return "sample_stat / average raised: %r" % [r for r in o["res"] if r[0] != "ok"][:1]
    d = np.array(o["data"])
    n = d.shape[0]
    wm = d.mean(axis=0)
    wv = d.var(axis=0, ddof=1) if n > 1 else np.zeros(3)
    tol = 1e-11 * (1.0 + np.abs(d).max() ** 2)
    for r in o["res"]:
        m, v, a = (np.array(x) for x in r[1])
        if np.abs(m - wm).max() > tol or np.abs(a - wm).max() > tol:
            return "mean %r / average %r is not the arithmetic mean %r" % (m.tolist(), a.tolist(), wm.tolist())
        if np.abs(v - wv).max() > tol:
            return "variance %r is not the unbiased variance %r" % (v.tolist(), wv.tolist())
        if r[1] != o["res"][0][1]:
            return "statistics differ between tasks"
    return None


# --------------------------------------------------------------------------------------------------

class C26(C.Check):
    prop = "C26"
    coq_dir = "C26"
    trusted_base = [
        "Coq 8.16.1 kernel (coqc; vm_compute and primitive floats for the correspondence evaluation); the theorems are closed under the global context",
        "tr/c26_pyfun.py + tr/c26_gen.py: Python ast -> Gallina for shareRange, _consecutive_length, _sample_file_name, the mean file name, the listing pattern, the index lambda and StatCalculator (fail closed; the translation is additionally exercised by the correspondence)",
        "hand-written model coq/C26/Model.v of the directory, _save_to_disk, _ensure_proper_sample_list_ending, the save loops, the control flow of _list_local_sample_files/load/load_mean, sample_stat/average (tied by correspondence)",
        "coq/C26/Prelude.v: split, int(), the regular-expression fragment (literal, '.', '[0-9]+', '$'), f-string of a non-negative int via Coq's decimal printer",
        "pickle round trip of Field/MultiField objects and the operating system's directory semantics (a directory is modelled as a finite map)",
        "harness/fakecomm.py threads standing in for MPI tasks (no libmpi in the sandbox); tasks of one save write pairwise different files (proved from the index arithmetic), the model runs them in rank order",
        "C23 model of allreduce_sum (seq_sum) inside `average`",
    ]
    assumptions = [
        "the base name contains no regular-expression metacharacters (it is interpolated unescaped into the pattern) and no path separator",
        "every directory entry accepted by the listing pattern is a sample file name base.<i>.pickle with canonical decimal i (hypothesis wf of the theorems; preserved by every save)",
        "no concurrent writers other than the tasks of the save itself; no crash during a save (C25 covers crashes)",
        "Welford theorems are over the rationals; the floating-point behaviour is tied bit for bit by the correspondence, not proved",
    ]

    def __init__(self):
        self.hist = []
        self.stats = []
        self.h5 = []
        self.alias = []

    def translate(self, ctx):
        from tr import c26_gen
        txt = c26_gen.generate(ctx.repo)
        C.write_if_changed(os.path.join(C.COQ, "C26", "Gen_helpers.v"), txt)

    # ---- correspondence ----
    def correspondence(self, ctx, res):
        from nifty.cl.utilities import shareRange
        from nifty.cl.minimization.sample_list import _consecutive_length
        rng = ctx.rng(26)
        work = os.path.join(ctx.run_dir(), "fs_p%d" % os.getpid())
        hs = [c["history"] for c in ctx.corpus() if "history" in c] + [dict(h) for h in BUILTIN_HISTORIES]
        nh = 30 if ctx.quick else 200
        for i in range(nh):
            hs.append(gen_history(rng, ctx.seed * 1000 + i, int(rng.integers(3, 9))))
        checks, where = [], []
        self.hist = []
        blocked = 0
        for hi, h in enumerate(hs):
            if blocked >= 2:
                break           # tasks block (reported below); do not wait for the timeout again and again
            steps = run_history(h, work)
            blocked += any(r[0] == "exc" and r[1] == "Deadlock" for s in steps for r in s["res"])
            self.hist.append((h, steps))
            for si, s in enumerate(steps):
                checks.append(step_check(h, s))
                where.append(("history", hi, si))
                if "lm" in s:
                    checks.append(load_mean_check(h, s))
                    where.append(("history", hi, si))
        # statistics, bit for bit
        self.stats = []
        ns = 12 if ctx.quick else 120
        for i in range(ns):
            n = int(rng.integers(1, 9))
            o = stat_case(rng, n, int(rng.integers(1, 5)), ints=(i % 3 == 0))
            self.stats.append(o)
            if any(r[0] != "ok" for r in o["res"]):
                checks.append("false")
                where.append(("stat", i, 0))
                continue
            m, v, a = o["res"][0][1]
            for px in range(3):
                xs = C.clist([C.cfloat(row[px]) for row in o["data"]])
                checks.append("stat_ok %s %s %s && avg_ok %s %s" % (xs, C.cfloat(m[px]), C.cfloat(v[px]), xs, C.cfloat(a[px])))
                where.append(("stat", i, px))
        # values delivered through reused buffers (aliasing), bit for bit
        self.alias = []
        na = 8 if ctx.quick else 60
        for i in range(na):
            n = int(rng.integers(1, 8))
            o = alias_case(rng, n, int(rng.integers(1, 4)), ints=(i % 2 == 0))
            self.alias.append(o)
            obs = [o["direct"]] + ([o["viaop"][0]] if o["viaop"] else [])
            for which, r in enumerate(obs):
                if r[0] != "ok":
                    checks.append("false")
                    where.append(("alias", i, which))
                    continue
                fac = 1.0 if which == 0 else 2.0
                if o["n"] == 1:
                    continue        # a single value: var raises (direct) -- nothing to compare bit for bit
                for px in range(3):
                    xs = C.clist([C.cfloat(fac * row[px]) for row in o["data"]])
                    checks.append("stat_ok %s %s %s" % (xs, C.cfloat(r[1][0][px]), C.cfloat(r[1][1][px])))
                    where.append(("alias", i, which))
        # HDF5 export / sample_stat(op) / average(op): every flag combination, identity, linear and
        # non-linear operators; bit for bit against the model fed with the operator outputs that
        # the export itself wrote (samples group of the all-flags file)
        self.h5 = []
        nh5 = 8 if ctx.quick else 48
        work5 = os.path.join(ctx.run_dir(), "h5_p%d" % os.getpid())
        for i in range(nh5):
            args = hdf5_args(rng, ctx.seed, i)
            o = run_hdf5(args, work5)
            self.h5.append((o, args))
            if o["files"] is None:
                checks.append("false")
                where.append(("hdf5", i, "raised"))
                continue
            outs = np.array(o["files"]["111"]["samples"])
            m, v, a = o["res"][0][1]
            for px in range(outs.shape[1]):
                xs = C.clist([C.cfloat(float(x)) for x in outs[:, px]])
                t = ["stat_ok %s %s %s" % (xs, C.cfloat(m[px]), C.cfloat(v[px])), "avg_ok %s %s" % (xs, C.cfloat(a[px]))]
                for key in ("010", "110"):        # mean without std: average(op)
                    t.append("avg_ok %s %s" % (xs, C.cfloat(o["files"][key]["mean"][px])))
                for key in ("011", "111"):        # with std: sample_stat(op)
                    fm, fs_ = o["files"][key]["mean"][px], o["files"][key]["std"][px]
                    t.append("stat_ok %s %s %s" % (xs, C.cfloat(fm), C.cfloat(v[px])))
                    t.append(C.cbool(float(np.sqrt(v[px])) == fs_))
                for key in ("001", "101"):
                    t.append(C.cbool(float(np.sqrt(v[px])) == o["files"][key]["std"][px]))
                checks.append(" && ".join("(%s)" % x for x in t))
                where.append(("hdf5", i, px))
        # translated helpers, directly
        nsr = 0
        for nwork in range(0, 9):
            for nshares in range(1, 7):
                for my in range(0, nshares):
                    lo, hi = shareRange(nwork, nshares, my)
                    checks.append("sharerange_ok %s %s %s %s %s" % (C.cz(nwork), C.cz(nshares), C.cz(my), C.cz(lo), C.cz(hi)))
                    where.append(("shareRange", nwork, nshares))
                    nsr += 1
        for i in range(40 if ctx.quick else 300):
            lst = [int(x) for x in rng.integers(0, 8, size=int(rng.integers(0, 9)))]
            try:
                o = "(Ret %s)" % C.cz(_consecutive_length(lst))
            except ValueError:
                o = "(Raise ValueError)"
            checks.append("conslen_ok %s %s" % (C.clist([C.cz(x) for x in lst]), o))
            where.append(("consecutive_length", lst, 0))
        bad = C.eval_cases(self.prop, "corr_p%d" % os.getpid(), HEADER, checks, shard=120, jobs=4)
        for i in bad[:4]:
            w = where[i]
            det = {"where": list(map(str, w)), "check": checks[i][:1500]}
            if w[0] == "hdf5":
                det["case"] = self.h5[w[1]][1]
            if w[0] == "history":
                det["history"] = self.hist[w[1]][0]
                det["step"] = self.hist[w[1]][1][w[2]]
            res.add_broken("correspondence", "%s vs coq/C26 model" % w[0], det)
        nsteps = sum(len(s) for _, s in self.hist)
        distinct = len({json.dumps([h["kind"], h["multi"], [len(o[1]) if o[0] == "save" else o[1] for o in h["ops"]], len(h["stale"])])
                        for h, st in self.hist if any(o[0] == "save" and len(o[1]) > 1 for o in h["ops"])})
        kinds = {}
        for h, st in self.hist:
            for s in st:
                key = s["op"][0] + ":" + ("ok" if all(r[0] == "ok" for r in s["res"]) else s["res"][0][1] if s["res"][0][0] == "exc" else "mixed")
                kinds[key] = kinds.get(key, 0) + 1
        res.coverage.update({
            "evaluations": len(checks), "distinct_nontrivial": distinct,
            "rule": "history = stale files + 3-8 save/load steps (lengths 0-6, 1-4 saving tasks with arbitrary distribution, 1-5 loading tasks, plain/residual, Field/MultiField, overwrite on/off; after every step ResidualSampleList.load_mean vs the model's load_mean on the observed directory); non-trivial = contains a save distributed over more than one task; distinct by (kind, multi, per-step task counts, number of stale files).  Plus %d sample_stat/average cases x 3 pixels (bit-exact), %d HDF5 cases (each: all 7 samples/mean/std flag combinations, operator none/linear/square/exp, plain/residual, 1-3 tasks; file contents bit-exact against the model fed with the exported operator outputs), %d shareRange and consecutive_length cases" % (ns, nh5, nsr),
            "samples": [{"history": self.hist[k][0]} for k in range(min(2, len(self.hist)))],
            "input_distribution": {"histories": len(self.hist), "steps": nsteps, "step_outcomes": kinds,
                                   "stat_cases": ns, "shareRange_cases": nsr,
                                   "alias_cases": na, "hdf5_cases": nh5, "hdf5_ops": sorted({a["op"] for _, a in self.h5}),
                                   "hdf5_exports": nh5 * len(FLAGS)},
            "disagreements": len(bad), "exhaustive": False,
        })
        return bad

    # ---- direct oracle ----
    def oracle(self, ctx, res, hints, budget):
        n = 0
        for h, steps in self.hist:
            n += 1
            for f in ([] if any(x["input"].get("finding") == "C26-F1" for x in res.failing) else failed_save_findings(h, steps)[:1]):
                res.add_failing({"fn": "save(overwrite=False)", "class": "failed-save-changes-loadable-list"}, f,
                                {"kind": "history", "history": h, "finding": "C26-F1"})
            for f in direct_failures(h, steps)[:1]:
                res.add_failing({"fn": "SampleList.save/load" if h["kind"] == "plain" else "ResidualSampleList.save/load"},
                                f, {"kind": "history", "history": h})
        for o in self.stats:
            n += 1
            f = stat_failure(o)
            if f:
                res.add_failing({"fn": "sample_stat/average"}, f, {"kind": "stat", "data": o["data"], "parts": o["parts"]})
        for o in self.alias:
            n += 1
            f = alias_failure(o)
            if f:
                res.add_failing({"fn": "StatCalculator/sample_stat", "input": "reused-buffer"}, f, {"kind": "alias", "data": o["data"], "parts": o["parts"]})
        rng = ctx.rng(2626)
        for o, args in self.h5:
            n += 1
            f = hdf5_failure(o)
            if f:
                res.add_failing({"fn": "save_to_hdf5/sample_stat/average", "op": args["op"]}, f, {"kind": "hdf5", **args})
        if budget > 1:
            work = os.path.join(ctx.run_dir(), "h5_p%d" % os.getpid())
            for i in range(16 * budget):
                args = hdf5_args(rng, ctx.seed + 1000, i)
                n += 1
                f = hdf5_failure(run_hdf5(args, work))
                if f:
                    res.add_failing({"fn": "save_to_hdf5/sample_stat/average", "op": args["op"]}, f, {"kind": "hdf5", **args})
                    break
        if budget > 1 and not res.failing:
            work2 = os.path.join(ctx.run_dir(), "fs2_p%d" % os.getpid())
            for i in range(120):
                h = gen_history(rng, 9000 + i, int(rng.integers(3, 9)))
                steps = run_history(h, work2)
                n += 1
                fs = direct_failures(h, steps)
                if fs:
                    res.add_failing({"fn": "SampleList.save/load" if h["kind"] == "plain" else "ResidualSampleList.save/load"},
                                    fs[0], {"kind": "history", "history": h})
                    break
            for i in range(60):
                o = stat_case(rng, int(rng.integers(1, 9)), int(rng.integers(1, 5)), ints=bool(i % 2))
                n += 1
                f = stat_failure(o)
                if f:
                    res.add_failing({"fn": "sample_stat/average"}, f, {"kind": "stat", "data": o["data"], "parts": o["parts"]})
                    break
        res.failing = res.failing[:5]
        res.coverage["impl_property_evaluations"] = n

    def replay(self, ctx, rp):
        i = rp["input"]
        if i["kind"] == "history":
            steps = run_history(i["history"], os.path.join(ctx.run_dir(), "replay_p%d" % os.getpid()))
            if i.get("finding") == "C26-F1":
                return bool(failed_save_findings(i["history"], steps))
            return bool(direct_failures(i["history"], steps))
        if i["kind"] == "hdf5":
            return hdf5_failure(run_hdf5(i, os.path.join(ctx.run_dir(), "replay_h5_p%d" % os.getpid()))) is not None
        if i["kind"] == "alias":
            data = np.array(i["data"])

            class _R:          # replays the stored value sequence and distribution
                def __init__(self):
                    self.k = 0
                def integers(self, lo, hi, size=None):
                    if size == (data.shape[0], 3):
                        return data
                    return np.sort(np.array([sum(len(p) for p in i["parts"][:j + 1]) for j in range(len(i["parts"]) - 1)], dtype=int))
            return alias_failure(alias_case(_R(), data.shape[0], len(i["parts"]), ints=True)) is not None
        if i["kind"] == "stat":
            import nifty.cl as ift
            dom = ift.RGSpace(3)
            data = np.array(i["data"])
            parts = i["parts"]

            def fn(comm):
                rank = 0 if comm is None else comm.Get_rank()
                sl = ift.SampleList([ift.Field.from_raw(dom, data[k]) for k in parts[rank]], comm=comm, domain=dom)
                m, v = sl.sample_stat()
                a = sl.average()
                return [m.asnumpy().tolist(), v.asnumpy().tolist(), a.asnumpy().tolist()]
            return stat_failure({"data": i["data"], "parts": parts, "res": run_tasks(len(parts), fn)}) is not None
        raise C.MachineryError("unknown replay kind")


CHECK = C26()
