"""C23 -- Distributed summation is partition-independent and cannot deadlock.

Tie: translator (tr/c23_allreduce.py: loop nest of allreduce_sum -> coq/C23/Gen_Allreduce.v, proved in
ProofsGen.v to be the projection of the model's event list) + hand model coq/C23/Model.v + correspondence.  The real `allreduce_sum` is run on threads with
the recording rendezvous communicator on generated partitions; per-rank communication sequences and
the resulting expression tree are compared with the model inside coqc (vm_compute).
Direct oracle: every rank's result equals the single-process result (tree / bits), no rank blocks."""
import itertools
import json
import os

import numpy as np

from .. import common as C
from .. import fakecomm


class Sym:
    def __init__(self, t):
        self.t = t

    def __add__(self, o):
        return Sym(("P", self.t, o.t))


def tm(t):
    if t[0] == "V":
        return "(V %d)" % t[1]
    return "(P %s %s)" % (tm(t[1]), tm(t[2]))


def ev_tree(t, vals):
    if t[0] == "V":
        return vals[t[1]]
    return ev_tree(t[1], vals) + ev_tree(t[2], vals)


VT = {"other": "TOther", "ndarray": "TNdarray", "field": "TField",
      # memory layouts of array summands: Fortran order (2-d), transposed view, strided view
      "ndarrayF": "TNdarray", "ndarrayT": "TNdarray", "ndarrayS": "TNdarray",
      # arrays without entries still travel as header + (zero-byte) buffer message
      "ndarrayE": "TNdarray", "ndarrayE2": "TNdarray"}


def vtype_coq(vt, n=2):
    if vt == "ndarray0d":
        return "(TNd0 %s)" % ("true" if n == 1 else "false")
    if vt.startswith("multi"):
        return "(TMulti %d)" % int(vt[5:])
    return VT[vt]


def make_vals(vt, n, seed):
    import nifty.cl as ift
    rng = np.random.default_rng([seed, n, 7])
    if vt == "other":
        return [Sym(("V", i)) for i in range(n)]
    if vt == "ndarray":
        return [rng.normal(size=3) * 10.0 ** rng.integers(-8, 8) for _ in range(n)]
    if vt == "ndarrayF":
        return [np.asfortranarray(rng.normal(size=(2, 3)) * 10.0 ** rng.integers(-8, 8)) for _ in range(n)]
    if vt == "ndarrayT":
        return [(rng.normal(size=(3, 2)) * 10.0 ** rng.integers(-8, 8)).T for _ in range(n)]
    if vt == "ndarrayS":
        return [(rng.normal(size=(4, 6)) * 10.0 ** rng.integers(-8, 8))[::2, ::3] for _ in range(n)]
    if vt == "ndarrayE":
        return [np.zeros((0,), dtype=np.float64) for _ in range(n)]
    if vt == "ndarrayE2":
        return [np.zeros((2, 0), dtype=np.float32) for _ in range(n)]
    if vt == "ndarray0d":
        return [np.array(rng.normal() * 10.0 ** rng.integers(-8, 8)) for _ in range(n)]
    dom = ift.RGSpace(3)
    if vt == "field":
        return [ift.Field.from_raw(dom, rng.normal(size=3) * 10.0 ** rng.integers(-8, 8)) for _ in range(n)]
    k = int(vt[5:])
    return [ift.MultiField.from_dict({"k%d" % j: ift.Field.from_raw(dom, rng.normal(size=3) * 10.0 ** rng.integers(-8, 8))
                                      for j in range(k)}) for _ in range(n)]


def canon(vt, x):
    """Bit-exact canonical form of a result."""
    try:
        return _canon(vt, x)
    except Exception as e:  # a result of the wrong kind (e.g. None) is itself an observation
        return "UNEXPECTED-RESULT %r (%s)" % (x, type(e).__name__)


def _canon(vt, x):
    if vt == "other":
        return json.dumps(x.t)
    if vt.startswith("ndarray"):       # values in index order (layout-independent) + shape
        x = np.asarray(x)
        return "%s:%s" % (list(x.shape), np.ascontiguousarray(x).tobytes().hex())
    if vt == "field":
        return x.asnumpy().tobytes().hex()
    return json.dumps({k: v.tobytes().hex() for k, v in sorted(x.asnumpy().items())})


# call kinds of the communicator methods (coq/C23/ModelProto.v): (class, kind)
KIND = {"send": (3, 0), "Send": (3, 1), "recv": (2, 0), "Recv": (2, 1),
        "bcast": (4, 0), "Bcast": (4, 1), "allgather": (4, 2), "allreduce": (4, 3)}


class KindComm:
    """Proxy around a fake communicator that records WHICH method allreduce_sum/_send/_recv/_bcast
    call (pickled send/recv vs raw-buffer Send/Recv, bcast/Bcast/allgather/allreduce), in call order."""

    def __init__(self, comm, rec):
        self._c = comm
        self._rec = rec

    def __getattr__(self, name):
        f = getattr(self._c, name)
        if name not in KIND:
            return f

        def g(*a, **k):
            self._rec.append(KIND[name])
            return f(*a, **k)
        return g


def kind_obs(o):
    """Per-rank [((class, peer), kind)] or None if the two recordings do not line up."""
    out = []
    for l, ks in zip(o["logs"], o["kinds"]):
        if len(l) != len(ks) or any(a[0] != k[0] for a, k in zip(l, ks)):
            return None
        out.append([(a[0], a[1], k[1]) for a, k in zip(l, ks)])
    return out


def run_case(part, vt, seed, timeout=60.0):   # generous: a loaded machine must not look like a deadlock
    """Run the real allreduce_sum for one partition; returns a dict of observations."""
    from nifty.cl.utilities import allreduce_sum
    n = sum(part)
    vals = make_vals(vt, n, seed)
    offs = np.concatenate([[0], np.cumsum(part)]).astype(int)
    ref_tree = allreduce_sum([Sym(("V", i)) for i in range(n)], None).t
    ref = canon(vt, allreduce_sum(list(vals), None))
    # the tree (already compared with the model) evaluated on the numeric values, left to right
    tree_val = canon(vt, ev_tree(ref_tree, vals))

    kinds = [[] for _ in part]

    def fn(comm, r):
        return allreduce_sum(list(vals[offs[r]:offs[r + 1]]), KindComm(comm, kinds[r]))

    res, err, logs = fakecomm.run_threads(len(part), fn, timeout=timeout, jitter_seed=seed)
    out = {"part": list(map(int, part)), "vtype": vt, "seed": int(seed), "ref_tree": ref_tree,
           "errors": err, "logs": [[list(a) for a in l] for l in logs], "ref": ref, "tree_val": tree_val,
           "kinds": [[list(k) for k in ks] for ks in kinds]}
    out["results"] = [None if e is not None else canon(vt, x) for x, e in zip(res, err)]
    out["tree"] = res[0].t if (vt == "other" and err[0] is None and isinstance(res[0], Sym)) else None
    return out


def direct_failure(o):
    """The property itself, on the implementation: None if it holds for this case."""
    if any(e is not None for e in o["errors"]):
        return "a task raised or blocked: %s" % [e for e in o["errors"] if e][:1]
    if any(r != o["ref"] for r in o["results"]):
        return "a task's result differs from the single-process sum"
    if o["ref"] != o["tree_val"]:
        return "single-process result is not the pairwise tree evaluated on the values"
    return None


def partitions(n, ntask):
    for p in itertools.product(range(n + 1), repeat=ntask):
        if sum(p) == n:
            yield p


def gen_cases(ctx):
    rng = ctx.rng(23)
    cases = []
    nmax, tmax = (6, 3) if ctx.quick else (8, 4)
    for n in range(1, nmax + 1):
        for nt in range(1, tmax + 1):
            for p in partitions(n, nt):
                cases.append((p, "other"))
    nrand = 40 if ctx.quick else 400
    vts = ["other", "ndarray", "field", "multi1", "multi2", "multi3", "ndarrayF", "ndarrayT", "ndarrayS", "ndarray0d", "ndarrayE", "ndarrayE2"]
    for i in range(nrand):
        nt = int(rng.integers(1, 7))
        n = int(rng.integers(1, 41))
        cuts = np.sort(rng.integers(0, n + 1, size=nt - 1))
        p = tuple(int(x) for x in np.diff(np.concatenate([[0], cuts, [n]])))
        cases.append((p, vts[i % len(vts)]))
    # small exhaustive for the structured payload types
    for vt in ["ndarray", "field", "multi2", "ndarrayF", "ndarray0d", "ndarrayE"]:
        for n in range(1, 5):
            for p in partitions(n, 2):
                cases.append((p, vt))
    return cases


HEADER = "From Coq Require Import List Arith. Import ListNotations.\nRequire Import NV.C23.Model NV.C23.ModelProto.\n"


def kobs_coq(ko):
    return C.clist([C.clist(["((%d, %d), %d)" % t for t in l]) for l in ko])


def obs_coq(logs):
    return C.clist([C.clist(["(%d, %d)" % (a, b) for a, b in l]) for l in logs])


class C23(C.Check):
    prop = "C23"
    coq_dir = "C23"
    trusted_base = [
        "Coq 8.16.1 kernel (coqc, vm_compute for the correspondence evaluation); no axioms: all C23 theorems are closed under the global context",
        "tr/c23_allreduce.py: fail-closed Python-ast translator of the loop nest and the return statements of allreduce_sum into coq/C23/Gen_Allreduce.v (regenerated on every run; C23_source_rank_program / C23_source_sequential / C23_source_bcast_root are re-proved against it); the set-up lines (allgather, cumsum, who, dtype) are an idiom compared textually",
        "hand-written model coq/C23/Model.v of the global event list, of who (prefix sums) and of the message counts of _send/_recv/_bcast per payload type (tied by correspondence)",
        "harness/fakecomm.py: thread-based fake communicator with rendezvous sends (real MPI is not loadable here)",
        "merged-array abstraction: cell i of the distributed state lives on rank who[i] only (checked by comparing per-rank message sequences and results)",
    ]
    assumptions = [
        "point-to-point sends are synchronous (rendezvous); eager/buffered sends only relax this",
        "control flow of allreduce_sum does not depend on the values summed",
        "collectives of the fake communicator follow mpi4py semantics",
    ]

    def __init__(self):
        self.obs = []

    def translate(self, ctx):
        from tr import c23_allreduce
        text, sha = c23_allreduce.translate(ctx.repo)
        C.write_if_changed(os.path.join(C.COQ, "C23", "Gen_Allreduce.v"), text)
        self.sha = sha

    def correspondence(self, ctx, res):
        cases = [(tuple(c["part"]), c["vtype"]) for c in ctx.corpus()] + gen_cases(ctx)
        self.obs = []
        checks = []
        nerr = 0
        for i, (p, vt) in enumerate(cases):
            if nerr >= 3:       # blocked tasks cost a full timeout each: three witnesses are enough
                break
            o = run_case(p, vt, ctx.seed * 100003 + i, timeout=60.0 if nerr == 0 else 15.0)
            nerr += any(e is not None for e in o["errors"])
            self.obs.append(o)
            part = C.clist([str(int(x)) for x in p])
            if any(e is not None for e in o["errors"]) or (vt == "other" and o["tree"] is None):
                checks.append("false")      # the model never blocks, raises or returns a non-sum
            elif kind_obs(o) is None:
                checks.append("false")      # call kinds and message log of a task do not line up
            elif vt == "other":
                checks.append("andb (case_ok %s 1 2 %s %s) (kind_ok %s TOther %s)"
                              % (part, tm(o["tree"]), obs_coq(o["logs"]), part, kobs_coq(kind_obs(o))))
            else:
                checks.append("andb (comm_ok %s %s %s) (kind_ok %s %s %s)"
                              % (part, vtype_coq(vt, sum(p)), obs_coq(o["logs"]),
                                 part, vtype_coq(vt, sum(p)), kobs_coq(kind_obs(o))))
        bad = C.eval_cases(self.prop, "corr", HEADER, checks)
        for i in bad:
            o = self.obs[i]
            res.add_broken("correspondence", "allreduce_sum vs coq/C23/Model.v",
                           {"part": o["part"], "vtype": o["vtype"], "seed": o["seed"], "logs": o["logs"],
                            "errors": o["errors"], "tree": o["tree"], "kinds": o["kinds"]})
            if len(res.broken) > 3:
                break
        distinct = len({(tuple(o["part"]), o["vtype"]) for o in self.obs if sum(o["part"]) > 1 and len(o["part"]) > 1})
        res.coverage.update({
            "evaluations": len(cases), "distinct_nontrivial": distinct,
            "rule": "ordered partitions of n summands over t tasks (all for n<=%d,t<=%d plus random n<=40,t<=6), payload types other/ndarray/Field/MultiField; per-rank message sequences, call kinds (send/Send/recv/Recv/bcast/Bcast/allgather/allreduce) and result tree compared; non-trivial = more than one task and more than one summand; distinct by (partition, type)" % ((6, 3) if ctx.quick else (8, 4)),
            "samples": [{"part": o["part"], "vtype": o["vtype"], "logs": o["logs"]} for o in self.obs[5:8]],
            "input_distribution": {vt: sum(1 for o in self.obs if o["vtype"] == vt) for vt in sorted({o["vtype"] for o in self.obs})},
            "disagreements": len(bad),
            "exhaustive": False,
        })
        return bad

    def oracle(self, ctx, res, hints, budget):
        n = 0
        for o in self.obs:
            n += 1
            f = direct_failure(o)
            if f:
                res.add_failing({"fn": "allreduce_sum", "vtype": o["vtype"]}, f,
                                {"part": o["part"], "vtype": o["vtype"], "seed": o["seed"]})
                if len(res.failing) >= 3:
                    break
        if budget > 1 and not res.failing:
            rng = ctx.rng(99)
            for i in range(300):
                nt = int(rng.integers(2, 6))
                nn = int(rng.integers(1, 30))
                cuts = np.sort(rng.integers(0, nn + 1, size=nt - 1))
                p = tuple(int(x) for x in np.diff(np.concatenate([[0], cuts, [nn]])))
                vt = ["other", "ndarray", "field", "multi2", "ndarrayF", "ndarrayT", "ndarrayS", "ndarray0d", "ndarrayE", "ndarrayE2"][i % 10]
                o = run_case(p, vt, 777 + i)
                n += 1
                f = direct_failure(o)
                if f:
                    res.add_failing({"fn": "allreduce_sum", "vtype": vt}, f, {"part": list(p), "vtype": vt, "seed": 777 + i})
                    break
        res.coverage["impl_property_evaluations"] = n

    def replay(self, ctx, rp):
        i = rp["input"]
        return direct_failure(run_case(tuple(i["part"]), i["vtype"], i["seed"])) is not None


CHECK = C23()
